import re,glob
bits={'LATITUDE':7,'LONGITUDE':8,'AZIMUTH':9,'DISTANCE':10,'DISTANCE_IN':11,'REDUCEDLENGTH':12,'GEODESICSCALE':13,'AREA':14,'LONG_UNROLL':15,'STANDARD':None,'ALL':None,'NONE':None}
pos={'GenDirect':(6,['LATITUDE','LONGITUDE','AZIMUTH','DISTANCE','REDUCEDLENGTH','GEODESICSCALE','GEODESICSCALE','AREA']),
     'GenPosition':(3,['LATITUDE','LONGITUDE','AZIMUTH','DISTANCE','REDUCEDLENGTH','GEODESICSCALE','GEODESICSCALE','AREA']),
     'GenInverse':(5,['DISTANCE','AZIMUTH','AZIMUTH','REDUCEDLENGTH','GEODESICSCALE','GEODESICSCALE','AREA'])}
def split_args(s):
    out=[];d=0;cur=''
    for ch in s:
        if ch in '([': d+=1
        if ch in ')]': d-=1
        if ch==',' and d==0: out.append(cur.strip()); cur=''
        else: cur+=ch
    out.append(cur.strip()); return out
tot=0;bad=0
for f in ['Geodesic.hpp','GeodesicExact.hpp','GeodesicLine.hpp','GeodesicLineExact.hpp']:
    src=open('/repo/include/GeographicLib/'+f).read()
    src=re.sub(r'/\*.*?\*/','',src,flags=re.S); src=re.sub(r'//[^\n]*','',src)
    for m in re.finditer(r'\b(GenDirect|GenPosition|GenInverse)\s*\(',src):
        i=m.end(); d=1; j=i
        while d: 
            c=src[j]; d+= c=='('; d-= c==')'; j+=1
        args=split_args(src[i:j-1])
        name=m.group(1); mi,names=pos[name]
        if len(args)!=mi+len(names): continue   # declaration or other overload
        if 'real' in args[0] or 'unsigned' in src[i:j-1]: continue
        mask=args[mi-1]; outs=args[mi:]
        ms=set(re.findall(r'[A-Z_]{3,}',mask))
        if 'STANDARD' in ms: ms|={'LATITUDE','LONGITUDE','AZIMUTH','DISTANCE'}
        if 'ALL' in ms: ms|=set(bits)
        tot+=1
        for o,nm in zip(outs,names):
            if o not in ('t','dummy') and nm not in ms and mask!='outmask':
                bad+=1; print(f, name, 'mask=',mask,'| output',o,'needs',nm)
print('calls checked',tot,'bad',bad)
