import re
src=open('/repo/src/Geoid.cpp').read()
def tab(name):
    m=re.search(r'const int Geoid::%s\[stencilsize_ \* nterms_\] = \{(.*?)\};'%name,src,re.S)
    return [int(x) for x in re.findall(r'-?\d+',m.group(1))]
def c0(name): return int(re.search(r'const int Geoid::%s = (\d+);'%name,src).group(1))
xs=[0,1,-1,0,1,2,-1,0,1,2,0,1]; ys=[-1,-1,0,0,0,0,1,1,1,1,2,2]
pows=[(0,0),(1,0),(0,1),(2,0),(1,1),(0,2),(3,0),(2,1),(1,2),(0,3)]
for t,c in (('c3_','c0_'),('c3n_','c0n_'),('c3s_','c0s_')):
    T=tab(t); C=c0(c); assert len(T)==120
    print(t,C)
    for (a,b) in pows:
        v=[x**a*y**b for x,y in zip(xs,ys)]
        res=[sum(v[j]*T[10*j+i] for j in range(12)) for i in range(10)]
        exp=[C if pows[i]==(a,b) else 0 for i in range(10)]
        print('  ',(a,b),'OK' if res==exp else res)
