import subprocess, re, sys
from fractions import Fraction as F
def tables(order):
    src = subprocess.run(['clang++','-E','-P','-std=c++14','-I/repo/include','-I/repo/_build/include',
        f'-DGEOGRAPHICLIB_GEODESIC_ORDER={order}','/repo/src/Geodesic.cpp'],capture_output=True,text=True).stdout
    i = src.find('namespace GeographicLib {\n  using namespace std;\n  Geodesic::Geodesic')
    src = src[src.rfind('Geodesic::Geodesic(real a'):] 
    out = {}
    for m in re.finditer(r'(Geodesic::\w+)\([^)]*\)\s*(?:const\s*)?\{\s*static const real coeff\[\] = \{(.*?)\};', src, re.S):
        vals = [int(x) for x in re.findall(r'-?\d+', m.group(2))]
        out[m.group(1)] = vals
    return out
def dec_A1(v, N):   # poly in eps2 degree N/2 then divisor ; returns {power of eps: coef}
    m = N//2; d = v[m+1]; return {('A',2*(m-j)): F(v[j], d) for j in range(m+1)}
def dec_C1(v, N):   # for l=1..N: poly in eps2 deg (N-l)/2, divisor; c[l] = eps^l * poly
    o=0; r={}
    for l in range(1,N+1):
        m=(N-l)//2; d=v[o+m+1]
        for j in range(m+1): r[(l, l+2*(m-j))]=F(v[o+j],d)
        o+=m+2
    assert o==len(v),(o,len(v)); return r
def dec_A3(v,N):   # for j=N-1..0: poly in n of deg min(N-j-1,j), divisor -> coefficient of eps^j
    o=0;r={}
    for j in range(N-1,-1,-1):
        m=min(N-j-1,j); d=v[o+m+1]
        for i in range(m+1): r[(j, m-i)]=F(v[o+i],d)
        o+=m+2
    assert o==len(v); return r
def dec_C3(v,N):
    o=0;r={}
    for l in range(1,N):
        for j in range(N-1,l-1,-1):
            m=min(N-j-1,j); d=v[o+m+1]
            for i in range(m+1): r[(l,j,m-i)]=F(v[o+i],d)
            o+=m+2
    assert o==len(v); return r
def dec_C4(v,N):
    o=0;r={}
    for l in range(N):
        for j in range(N-1,l-1,-1):
            m=N-j-1; d=v[o+m+1]
            for i in range(m+1): r[(l,j,m-i)]=F(v[o+i],d)
            o+=m+2
    assert o==len(v); return r
dec={'Geodesic::A1m1f':dec_A1,'Geodesic::C1f':dec_C1,'Geodesic::C1pf':dec_C1,'Geodesic::A2m1f':dec_A1,'Geodesic::C2f':dec_C1,'Geodesic::A3coeff':dec_A3,'Geodesic::C3coeff':dec_C3,'Geodesic::C4coeff':dec_C4}
T={N:tables(N) for N in range(3,9)}
print({N:sorted((k,len(v)) for k,v in T[N].items()) for N in (6,)})
for name,fn in dec.items():
    D={N:fn(T[N][name],N) for N in range(3,9)}
    bad=0;cmpn=0
    for k,val in D[6].items():
        for N in range(3,9):
            if N!=6 and k in D[N]:
                cmpn+=1
                if D[N][k]!=val: bad+=1; print('MISMATCH',name,k,val,N,D[N][k])
    print(name,'terms6',len(D[6]),'comparisons',cmpn,'bad',bad, 'uncovered', sum(1 for k in D[6] if not any(k in D[N] for N in (7,8))))
