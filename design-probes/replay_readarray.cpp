#include <GeographicLib/Utility.hpp>
#include <sstream>
#include <cstdio>
using namespace GeographicLib;
int main() {
  int v = 42; std::string s((char*)&v, 4);
  std::istringstream st(s);
  int a[3] = {7, 7, 7};
  try { Utility::readarray<int, int, false>(st, a, 3); }
  catch (const GeographicErr& e) { std::printf("threw '%s' a = %d %d %d\n", e.what(), a[0], a[1], a[2]); return a[0] != 7; }
  return 0;
}
