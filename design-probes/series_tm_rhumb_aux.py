import subprocess, re
from fractions import Fraction as F
def pp(file, macro, order):
    return subprocess.run(['clang++','-E','-P','-std=c++14','-I/repo/include','-I/repo/_build/include',f'-D{macro}={order}',file],capture_output=True,text=True).stdout
def arr(src, name):
    m = re.search(r'static const (?:real|int) %s\[\] = \{(.*?)\};'%name, src, re.S)
    return m.group(1)
def ints(body): return [int(x) for x in re.findall(r'-?\d+(?=LL|\b)', body.replace('LL',' '))]
def rats(body):
    out=[]
    for tok in [t.strip() for t in body.split(',') if t.strip()]:
        tok=re.sub(r'real\((-?\d+)(?:LL)?\)',r'\1',tok)
        m=re.fullmatch(r'(-?\d+)(?:LL)?\s*/\s*(\d+)(?:LL)?',tok)
        if m: out.append(F(int(m.group(1)),int(m.group(2)))); continue
        m=re.fullmatch(r'(-?\d+)(?:LL)?',tok)
        if m: out.append(F(int(m.group(1)))); continue
        raise Exception(tok)
    return out
# TM
def tm(order):
    s=pp('/repo/src/TransverseMercator.cpp','GEOGRAPHICLIB_TRANSVERSEMERCATOR_ORDER',order)
    r={}
    v=ints(arr(s,'b1coeff')); m=order//2; 
    for j in range(m+1): r[('b1',2*(m-j))]=F(v[j],v[m+1])
    for nm in ('alpcoeff','betcoeff'):
        v=ints(arr(s,nm)); o=0
        for l in range(1,order+1):
            m=order-l; d=v[o+m+1]
            for j in range(m+1): r[(nm,l,l+m-j)]=F(v[o+j],d)
            o+=m+2
        assert o==len(v)
    return r
def rh(order):
    s=pp('/repo/src/Rhumb.cpp','GEOGRAPHICLIB_RHUMBAREA_ORDER',order)
    v=rats(arr(s,'coeffs')); o=0; r={}
    for l in range(order):
        m=order-l-1
        for j in range(m+1): r[(l,l+1+m-j)]=v[o+j]
        o+=m+1
    assert o==len(v); return r
def aux(order):
    s=pp('/repo/src/AuxLatitude.cpp','GEOGRAPHICLIB_AUXLATITUDE_ORDER',order)
    i=s.find('AuxLatitude::fillcoeff'); s2=s[i:]
    v=rats(arr(s2,'coeffs')); p=ints(arr(s2,'ptrs')); r={}
    assert len(p)==37 and p[-1]==len(v),(len(p),p[-1],len(v))
    RECT=3
    for auxout in range(6):
        for auxin in range(6):
            k=6*auxout+auxin; o=p[k]
            if auxin==auxout: assert p[k+1]==p[k]; continue
            for l in range(order):
                if auxin<=RECT and auxout<=RECT:
                    m=(order-l-1)//2
                    for j in range(m+1): r[(auxout,auxin,l,l+1+2*(m-j))]=v[o+j]
                else:
                    m=order-l-1
                    for j in range(m+1): r[(auxout,auxin,l,l+1+m-j)]=v[o+j]
                o+=m+1
            assert o==p[k+1],(auxout,auxin,o,p[k+1])
    # radius series
    i=s.find('AuxLatitude::RectifyingRadius'); v=rats(arr(s[i:],'coeff')); m=order//2
    for j in range(m+1): r[('rm',2*(m-j))]=v[j]
    i=s.find('AuxLatitude::AuthalicRadiusSquared'); v=rats(arr(s[i:],'coeff')); m=order
    for j in range(m+1): r[('c2',m-j)]=v[j]
    return r
for name,fn,orders,active in (('TM',tm,range(4,9),6),('Rhumb',rh,range(4,9),6),('Aux',aux,(4,6,8),6)):
    D={N:fn(N) for N in orders}
    bad=cmpn=0; unc=0
    for k,val in D[active].items():
        sib=[N for N in orders if N!=active and k in D[N]]
        if not sib: unc+=1
        for N in sib:
            cmpn+=1
            if D[N][k]!=val: bad+=1; print('MISMATCH',name,k,val,N,D[N][k])
    print(name,'active terms',len(D[active]),'comparisons',cmpn,'bad',bad,'uncovered',unc, 'single-sibling', sum(1 for k in D[active] if len([N for N in orders if N!=active and k in D[N]])==1))
