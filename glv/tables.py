"""Frozen rule tables.  Every entry names one symbol and carries its reason."""

NS = 'GeographicLib::'

# ---------------------------------------------------------------- C14 (R-EFF)
# classes named in the property's quantifier
C14_SCOPE = [NS + c for c in (
    'Geodesic', 'GeodesicExact', 'GeodesicLine', 'GeodesicLineExact', 'Rhumb', 'RhumbLine',
    'TransverseMercator', 'TransverseMercatorExact', 'PolarStereographic',
    'LambertConformalConic', 'AlbersEqualArea', 'Geocentric', 'LocalCartesian', 'Ellipsoid',
    'AuxLatitude', 'DAuxLatitude', 'AuxAngle', 'EllipticFunction', 'NormalGravity',
    'SphericalHarmonic', 'SphericalHarmonic1', 'SphericalHarmonic2', 'SphericalEngine',
    'CircularEngine', 'GravityModel', 'MagneticModel', 'GravityCircle', 'MagneticCircle',
    'Geoid', 'UTMUPS', 'MGRS', 'DMS', 'Geohash', 'GARS', 'Georef', 'OSGB')]
# helper classes every one of the above calls into (entries for E1, not for E5 reachability:
# Utility::date("now") is only reached from the MagneticField tool)
C14_HELPERS = [NS + c for c in ('Math', 'Utility', 'DST', 'Accumulator')]

# documented as not thread-safe by the property text itself
C14_EXCLUDED_MUTABLE = {
    (NS + 'Intersect', '_cnt0'): 'intersection counters are excluded by the property',
    (NS + 'Intersect', '_cnt1'): 'intersection counters are excluded by the property',
    (NS + 'Intersect', '_cnt2'): 'intersection counters are excluded by the property',
    (NS + 'Intersect', '_cnt3'): 'intersection counters are excluded by the property',
    (NS + 'Intersect', '_cnt4'): 'intersection counters are excluded by the property',
}
# NearestNeighbor statistics: header-only template, not instantiated by the library; excluded by
# the property ("nearest-neighbour statistics").
C14_EXCLUDED_CLASSES = {NS + 'NearestNeighbor': 'nearest-neighbour statistics are excluded by the property',
                        NS + 'Intersect': 'only its counters are mutable; excluded by the property',
                        NS + 'GeoCoords': 'not in the quantifier of C14 (holds one position, documented mutable alt zone)'}

# static storage that may be non-const
C14_AUDITED_STATICS = {
    NS + 'SphericalEngine::sqrttable::sqrttable':
        'growth of the harmonic square-root table is excluded by the property; written only by '
        'RootTable/ClearRootTable',
}
C14_SQRTTABLE_WRITERS = {NS + 'SphericalEngine::RootTable', NS + 'SphericalEngine::ClearRootTable'}

# non-reentrant C library functions (E5)
NONREENTRANT = {'strtok', 'rand', 'srand', 'localtime', 'gmtime', 'asctime', 'ctime', 'setlocale',
                'setenv', 'putenv', 'strerror', 'tmpnam', 'getenv_s', 'readdir', 'getpwnam',
                'getpwuid', 'gethostbyname', 'ttyname', 'drand48', 'lrand48', 'ecvt', 'fcvt',
                'strsignal', 'getlogin', 'basename', 'dirname', 'crypt', 'l64a', 'wcstombs_l'}

# build flags that silently remove a mechanism the properties rely on (X8 / E6)
BAD_FLAGS = ['-ffast-math', '-Ofast', '-ffinite-math-only', '-fno-signed-zeros',
             '-funsafe-math-optimizations', '-fassociative-math', '-fno-exceptions',
             '-fno-threadsafe-statics', '-freciprocal-math', '-fno-trapping-math-unsafe',
             '-fno-rtti-unsafe']
E6_FLAGS = ['-fno-threadsafe-statics']
