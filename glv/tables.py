"""Frozen rule tables.  Every entry names one symbol and carries its reason."""

NS = 'GeographicLib::'

# ---------------------------------------------------------------- C14 (R-EFF)
# classes named in the property's quantifier
C14_SCOPE = [NS + c for c in (
    'Geodesic', 'GeodesicExact', 'GeodesicLine', 'GeodesicLineExact', 'Rhumb', 'RhumbLine',
    'TransverseMercator', 'TransverseMercatorExact', 'PolarStereographic',
    'LambertConformalConic', 'AlbersEqualArea', 'Geocentric', 'LocalCartesian', 'Ellipsoid',
    'AuxLatitude', 'DAuxLatitude', 'AuxAngle', 'EllipticFunction', 'NormalGravity',
    'SphericalHarmonic', 'SphericalHarmonic1', 'SphericalHarmonic2', 'SphericalEngine',
    'CircularEngine', 'GravityModel', 'MagneticModel', 'GravityCircle', 'MagneticCircle',
    'Geoid', 'UTMUPS', 'MGRS', 'DMS', 'Geohash', 'GARS', 'Georef', 'OSGB')]
# helper classes every one of the above calls into (entries for E1, not for E5 reachability:
# Utility::date("now") is only reached from the MagneticField tool)
C14_HELPERS = [NS + c for c in ('Math', 'Utility', 'DST', 'Accumulator')]

# documented as not thread-safe by the property text itself
C14_EXCLUDED_MUTABLE = {
    (NS + 'Intersect', '_cnt0'): 'intersection counters are excluded by the property',
    (NS + 'Intersect', '_cnt1'): 'intersection counters are excluded by the property',
    (NS + 'Intersect', '_cnt2'): 'intersection counters are excluded by the property',
    (NS + 'Intersect', '_cnt3'): 'intersection counters are excluded by the property',
    (NS + 'Intersect', '_cnt4'): 'intersection counters are excluded by the property',
}
# NearestNeighbor statistics: header-only template, not instantiated by the library; excluded by
# the property ("nearest-neighbour statistics").
C14_EXCLUDED_CLASSES = {NS + 'NearestNeighbor': 'nearest-neighbour statistics are excluded by the property',
                        NS + 'Intersect': 'only its counters are mutable; excluded by the property',
                        NS + 'GeoCoords': 'not in the quantifier of C14 (holds one position, documented mutable alt zone)'}

# static storage that may be non-const
C14_AUDITED_STATICS = {
    NS + 'SphericalEngine::sqrttable::sqrttable':
        'growth of the harmonic square-root table is excluded by the property; written only by '
        'RootTable/ClearRootTable',
}
C14_SQRTTABLE_WRITERS = {NS + 'SphericalEngine::RootTable', NS + 'SphericalEngine::ClearRootTable'}

# non-reentrant C library functions (E5)
NONREENTRANT = {'strtok', 'rand', 'srand', 'localtime', 'gmtime', 'asctime', 'ctime', 'setlocale',
                'setenv', 'putenv', 'strerror', 'tmpnam', 'getenv_s', 'readdir', 'getpwnam',
                'getpwuid', 'gethostbyname', 'ttyname', 'drand48', 'lrand48', 'ecvt', 'fcvt',
                'strsignal', 'getlogin', 'basename', 'dirname', 'crypt', 'l64a', 'wcstombs_l'}

# build flags that silently remove a mechanism the properties rely on (X8 / E6)
BAD_FLAGS = ['-ffast-math', '-Ofast', '-ffinite-math-only', '-fno-signed-zeros',
             '-funsafe-math-optimizations', '-fassociative-math', '-fno-exceptions',
             '-fno-threadsafe-statics', '-freciprocal-math', '-fno-trapping-math-unsafe',
             '-fno-rtti-unsafe']
E6_FLAGS = ['-fno-threadsafe-statics']

# ---------------------------------------------------------------- R-EXC
# handlers that deliberately swallow (X1)
AUDITED_HANDLERS = {
    NS + 'Utility::fractionalyear': 'falls back from number parsing to date parsing; the second parser throws GeographicErr',
    NS + 'Geoid::CacheClear': 'swallows by design: releasing the cache must not fail',
    NS + 'Geoid::CacheArea': 'bad_alloc handler releases the partial cache and re-raises as GeographicErr',
}
# functions whose job is to validate parameters: NaN must be *rejected* there (X5), not tolerated (X4)
VALIDATING_SETTERS = {
    NS + 'PolarStereographic::SetScale': 'parameter setter: validates like a constructor',
    NS + 'LambertConformalConic::SetScale': 'parameter setter: validates like a constructor',
    NS + 'AlbersEqualArea::SetScale': 'parameter setter: validates like a constructor',
    NS + 'LambertConformalConic::Init': 'constructor helper',
    NS + 'AlbersEqualArea::Init': 'constructor helper',
    NS + 'NormalGravity::Initialize': 'constructor helper',
    NS + 'EllipticFunction::Reset': 'parameter setter',
    NS + 'LocalCartesian::Reset': 'parameter setter',
    NS + 'CassiniSoldner::Reset': 'parameter setter',
    NS + 'SphericalEngine::coeff::readcoeffs': 'reads ints from a file; no floating argument',
}
# library functions through which a NaN argument does not reach the result (X4 taint stops)
NAN_FILTERS = set()

# Argument validators whose failure branch is numerically unreachable from library-internal callers.
# Their throws are NOT propagated through the call graph (they still count inside the function itself
# and for its direct API users).  A-ELLIPTIC-ARGS: every internal construction passes k2 = -ep2 or
# -k2 with k2 >= 0 (<= 1), alpha2 likewise; a numerical fact that no rule here decides.
NOTHROW_WHEN_INTERNAL = {
    NS + 'EllipticFunction::Reset': 'A-ELLIPTIC-ARGS',
    NS + 'EllipticFunction::EllipticFunction': 'A-ELLIPTIC-ARGS',
}

# loops without a counter, each with its termination argument (X6)
# function -> (number of such loops in one body, termination argument)
AUDITED_LOOPS = {
    NS + 'EllipticFunction::RF': (1, 'AGM iteration (Carlson 2.36): |xn-yn| shrinks quadratically; for NaN/inf the test '
                                     '"fabs(xn-yn) > tol*xn" is false'),
    NS + 'EllipticFunction::RG': (1, 'AGM iteration (Carlson 2.39): as RF(x,y); NaN/inf make the test false'),
    NS + 'AlbersEqualArea::DDatanhee1': (1, 'series in e2^l with |e2| < 1 (caller selects it only for small e2); exit test '
                                            'is written !(|ds| > ...) so NaN exits'),
    NS + 'AlbersEqualArea::DDatanhee2': (1, 'series in ((1-x),(1-y))^m, geometric decay; exit test is written !(|ds| > ...) '
                                            'so NaN exits'),
    NS + 'DMS::Decode': (1, 'p advances to pb = find_first_of(signs, pa+1) > p or to end on every iteration'),
    NS + 'GeoCoords::Reset': (1, 'pos0 = find_first_of(spaces, pos1) with pos1 >= pos0 a non-space: strictly increasing or npos'),
    NS + 'NearestNeighbor::Search': (1, 'worklist over a tree: every queued child index is smaller than its parent index '
                                        '(post-order build in init; Load() rejects child >= own index), so the queue drains'),
    NS + 'Intersect::AllInt0': (1, 'sa grows by one conjugate-point spacing (> 0) per trip until the distance exceeds '
                                   'maxdistx; NaN makes the test false'),
}

# parameter setters validated like constructors (X5)
X5_SETTERS = {NS + 'PolarStereographic::SetScale', NS + 'LambertConformalConic::SetScale',
              NS + 'AlbersEqualArea::SetScale'}
# classes whose constructors take positions / values, not ellipsoid or projection parameters
X5_EXEMPT_CLASSES = {NS + 'GeodesicLine': 'the documented exception in the property (line constructors do not validate)',
                     NS + 'GeodesicLineExact': 'as GeodesicLine',
                     NS + 'SphericalHarmonic': 'a is a reference radius that only scales the sum, not an ellipsoid parameter; no validation is documented',
                     NS + 'SphericalHarmonic1': 'as SphericalHarmonic',
                     NS + 'SphericalHarmonic2': 'as SphericalHarmonic'}
# validation helpers that the witness interpreter follows although they are large
X5_FOLLOW = {NS + 'LambertConformalConic::Init', NS + 'AlbersEqualArea::Init', NS + 'NormalGravity::Initialize'}

# LIC: audited reads (one function, named locals, reason)
LIC_AUDITED = {
    (NS + 'Gnomonic::Reverse', 'lat1'): 'assigned by line.Position in the Newton loop, which runs at least once '
                                        '(count = numit_ = 5); consumed only if trip != 0 and trip is set inside the loop',
    (NS + 'Gnomonic::Reverse', 'lon1'): 'as lat1',
    (NS + 'Gnomonic::Reverse', 'azi1'): 'as lat1',
    (NS + 'Gnomonic::Reverse', 'M'): 'as lat1',
}

# ---------------------------------------------------------------- W1 (output totality)
# outputs that are deliberately left unchanged on one returning path (documented in the header)
W1_AUDITED = {
    (NS + 'GARS::Reverse', 'prec'): 'GARS.hpp: for "INV..." lat and lon are set to NaN and prec is unchanged',
    (NS + 'Geohash::Reverse', 'len'): 'Geohash.hpp: for "INV..."/"nan" lat and lon are set to NaN and len is unchanged',
    (NS + 'Georef::Reverse', 'prec'): 'Georef.hpp: for "INV..." lat and lon are set to NaN and prec is unchanged',
}
