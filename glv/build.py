"""B-CONF + extraction driver.

configure /repo (no compile) -> compile database -> run glfacts per unit ->
merge into one Program (pickled, keyed on the content hash of the sources).
Nothing of /repo is executed.
"""
import fcntl
import hashlib
import json
import os
import pickle
import shlex
import subprocess
import sys
import time
from concurrent.futures import ThreadPoolExecutor

VERIF = os.path.dirname(os.path.dirname(os.path.abspath(__file__)))
REPO = os.environ.get('GLV_REPO', '/repo')
BUILD = os.path.join(VERIF, 'build')
GLFACTS = os.path.join(BUILD, 'bin', 'glfacts')
GLFACTS_SRC = os.path.join(VERIF, 'tool', 'glfacts.cc')
EXTRA_UNITS = [os.path.join(VERIF, 'fixtures', 'nn_inst.cpp'), os.path.join(VERIF, 'fixtures', 'hdr_inst.cpp')]


class AnalysisBroken(Exception):
    """exit code 2: the analysis itself could not be carried out."""


def _run(cmd, **kw):
    return subprocess.run(cmd, stdout=subprocess.PIPE, stderr=subprocess.PIPE,
                          universal_newlines=True, **kw)


def build_glfacts(force=False):
    os.makedirs(os.path.dirname(GLFACTS), exist_ok=True)
    if (not force and os.path.exists(GLFACTS)
            and os.path.getmtime(GLFACTS) >= os.path.getmtime(GLFACTS_SRC)):
        return
    cxxflags = _run(['llvm-config-14', '--cxxflags']).stdout.split()
    cmd = (['clang++'] + cxxflags +
           ['-fno-rtti', '-O1', GLFACTS_SRC, '-o', GLFACTS + '.tmp',
            '/usr/lib/llvm-14/lib/libclang-cpp.so.14',
            '/usr/lib/llvm-14/lib/libLLVM-14.so'])
    r = _run(cmd)
    if r.returncode != 0:
        raise AnalysisBroken('cannot build glfacts: ' + r.stderr[-2000:])
    os.replace(GLFACTS + '.tmp', GLFACTS)


def _hash_files(paths):
    h = hashlib.sha256()
    for p in sorted(paths):
        h.update(p.encode())
        try:
            with open(p, 'rb') as f:
                h.update(f.read())
        except OSError:
            h.update(b'<missing>')
    return h.hexdigest()[:20]


def _walk(root, exts):
    out = []
    for d, dn, fn in os.walk(root):
        dn[:] = [x for x in dn if x not in ('_build', '.git')]
        for f in fn:
            if f.endswith(exts):
                out.append(os.path.join(d, f))
    return out


def cmake_inputs():
    fs = []
    for sub in ('', 'src', 'include', 'include/GeographicLib', 'tools', 'cmake',
                'examples', 'tests', 'man', 'doc', 'develop', 'experimental',
                'wrapper'):
        d = os.path.join(REPO, sub)
        if not os.path.isdir(d):
            continue
        for f in os.listdir(d):
            if f == 'CMakeLists.txt' or f.endswith(('.cmake', '.in', '.cmake.in')):
                fs.append(os.path.join(d, f))
    return fs


def source_inputs():
    fs = []
    for sub in ('src', 'include', 'tools', 'examples'):
        fs += _walk(os.path.join(REPO, sub), ('.cpp', '.hpp', '.hh', '.h', '.in'))
    return fs


class Lock:
    def __init__(self, name):
        os.makedirs(BUILD, exist_ok=True)
        self.path = os.path.join(BUILD, name + '.lock')

    def __enter__(self):
        self.f = open(self.path, 'w')
        fcntl.flock(self.f, fcntl.LOCK_EX)
        return self

    def __exit__(self, *a):
        fcntl.flock(self.f, fcntl.LOCK_UN)
        self.f.close()


def configure(precision=2):
    """cmake configure only; returns (cfgdir, compdb entries for .cpp files)."""
    tag = 'cfg-p%d' % precision
    if REPO != '/repo':
        # trial runs against scratch trees get their own configure directory (they may run concurrently)
        tag += '-' + hashlib.sha256(REPO.encode()).hexdigest()[:8]
    cfg = os.path.join(BUILD, tag)
    h = _hash_files(cmake_inputs())
    stamp = os.path.join(cfg, '.glv-stamp')
    with Lock(tag):
        ok = False
        if os.path.exists(stamp):
            ok = open(stamp).read().strip() == h
        if not ok:
            if os.path.isdir(cfg):
                subprocess.run(['rm', '-rf', cfg])
            cmd = ['cmake', '-G', 'Ninja', '-S', REPO, '-B', cfg]
            if precision != 2:
                cmd.append('-DGEOGRAPHICLIB_PRECISION=%d' % precision)
            r = _run(cmd)
            if r.returncode != 0:
                raise AnalysisBroken('cmake configure failed: ' + r.stdout[-1500:] + r.stderr[-1500:])
            open(stamp, 'w').write(h)
        r = _run(['ninja', '-C', cfg, '-t', 'compdb'])
        if r.returncode != 0:
            raise AnalysisBroken('ninja -t compdb failed: ' + r.stderr[-1000:])
    db = [e for e in json.loads(r.stdout) if e['file'].endswith('.cpp')]
    return cfg, db


def unit_flags(entry):
    """-I/-D/-std/-f flags of a compile command (the real build's flags)."""
    toks = shlex.split(entry['command'])
    out = []
    skip = False
    for i, t in enumerate(toks[1:]):
        if skip:
            skip = False
            continue
        if t in ('-o', '-MT', '-MF', '-c'):
            skip = True
            continue
        if t in ('-MD', '-MMD'):
            continue
        if t.startswith(('-I', '-D', '-std', '-f', '-O', '-W', '-U', '-m', '-isystem')):
            out.append(t)
    return out


_resdir = None


def resource_dir():
    global _resdir
    if _resdir is None:
        _resdir = _run(['clang++', '-print-resource-dir']).stdout.strip()
    return _resdir


def extract_unit(src, flags, outpath, extra=(), roots=None):
    fl = [f for f in flags if not f.startswith(('-W', '-O'))]
    rt = ['--root=' + r for r in (roots or [REPO + '/'])]
    cmd = [GLFACTS, '--out=' + outpath] + rt + [src, '--'] + fl + \
          ['-UNDEBUG', '-w', '-Wno-c++11-narrowing', '-resource-dir=' + resource_dir()] + list(extra)
    r = _run(cmd)
    if r.returncode != 0 or not os.path.exists(outpath):
        raise AnalysisBroken('glfacts failed on %s: %s' % (src, r.stderr[-1500:]))
    return outpath


def units_of(db, which):
    """unique source units in the compile database by directory role."""
    seen = {}
    for e in db:
        f = e['file']
        rel = os.path.relpath(f, REPO)
        role = rel.split(os.sep)[0]
        if role in which and f not in seen:
            seen[f] = e
    return seen


def facts_key(precision, roles, extra=()):
    h = hashlib.sha256()
    h.update(_hash_files(source_inputs() + cmake_inputs()).encode())
    h.update(str(os.path.getmtime(GLFACTS_SRC)).encode())
    h.update(_hash_files(EXTRA_UNITS).encode())
    h.update(repr((precision, sorted(roles), tuple(extra))).encode())
    return h.hexdigest()[:20]


def load_program(precision=2, roles=('src', 'tools'), verbose=False):
    """Returns the merged raw program dict (cached)."""
    from . import ir
    build_glfacts()
    t0 = time.time()
    key = facts_key(precision, roles)
    cdir = os.path.join(BUILD, 'facts')
    os.makedirs(cdir, exist_ok=True)
    pk = os.path.join(cdir, 'prog-%s.pickle' % key)
    with Lock('facts'):
        if os.path.exists(pk):
            with open(pk, 'rb') as f:
                raw = pickle.load(f)
        else:
            cfg, db = configure(precision)
            units = units_of(db, set(roles))
            if not units:
                raise AnalysisBroken('no units in compile database')
            udir = os.path.join(cdir, 'u-' + key)
            os.makedirs(udir, exist_ok=True)
            jobs = []
            for src, e in sorted(units.items()):
                rel = os.path.relpath(src, REPO).replace(os.sep, '__')
                jobs.append((src, unit_flags(e), os.path.join(udir, rel + '.json')))
            # explicit instantiation units for header-only templates (analysed, never linked)
            libflags = next((unit_flags(e) for s_, e in sorted(units.items()) if '/src/' in s_), None)
            for extra in EXTRA_UNITS:
                if libflags is not None and os.path.exists(extra):
                    jobs.append((extra, libflags, os.path.join(udir, 'extra__' + os.path.basename(extra) + '.json')))
            with ThreadPoolExecutor(16) as ex:
                outs = list(ex.map(lambda j: extract_unit(*j), jobs))
            raw = ir.merge_units(outs, [j[1] for j in jobs])
            raw['flags'] = {src: unit_flags(e) for src, e in units.items()}
            raw['cfgdir'] = cfg
            raw['precision'] = precision
            with open(pk + '.tmp', 'wb') as f:
                pickle.dump(raw, f, protocol=pickle.HIGHEST_PROTOCOL)
            os.replace(pk + '.tmp', pk)
            subprocess.run(['rm', '-rf', udir])
            # prune old caches
            ents = sorted((os.path.getmtime(os.path.join(cdir, x)), x)
                          for x in os.listdir(cdir) if x.startswith('prog-'))
            for _, x in ents[:-8]:
                os.remove(os.path.join(cdir, x))
    if verbose:
        print('program loaded in %.1fs (%d functions)' % (time.time() - t0, len(raw['functions'])),
              file=sys.stderr)
    return ir.Program(raw)


def extract_single(src, extra_defs=(), precision=2, tag='', roots=None):
    """Extract one unit with extra -D flags (series orders); cached; returns raw dict."""
    from . import ir
    build_glfacts()
    h = hashlib.sha256()
    h.update(_hash_files(source_inputs() + cmake_inputs()).encode())
    h.update(str(os.path.getmtime(GLFACTS_SRC)).encode())
    h.update(repr((src, tuple(extra_defs), precision, roots)).encode())
    if not src.startswith(REPO):
        h.update(_hash_files([src]).encode())
    key = h.hexdigest()[:20]
    cdir = os.path.join(BUILD, 'facts')
    os.makedirs(cdir, exist_ok=True)
    pk = os.path.join(cdir, 'single-%s.pickle' % key)
    if os.path.exists(pk):
        try:
            with open(pk, 'rb') as f:
                return ir.Program(pickle.load(f))
        except Exception:
            pass
    cfg, db = configure(precision)
    e = None
    for x in db:
        if x['file'] == src:
            e = x
            break
    if e is None:
        # not in the database (fixtures, examples): borrow the flags of a library unit
        for x in db:
            if '/src/' in x['file']:
                e = x
                break
    if e is None:
        raise AnalysisBroken('no compile command for ' + src)
    out = os.path.join(cdir, 'single-%s-%d.json' % (key, os.getpid()))
    extract_unit(src, unit_flags(e), out, extra=list(extra_defs), roots=roots)
    raw = ir.merge_units([out], [unit_flags(e)])
    os.remove(out)
    with open(pk + '.tmp%d' % os.getpid(), 'wb') as f:
        pickle.dump(raw, f, protocol=pickle.HIGHEST_PROTOCOL)
    os.replace(pk + '.tmp%d' % os.getpid(), pk)
    return ir.Program(raw)
