"""Witness interpreter: evaluates constructor validation logic over a finite partition of the
extended reals.  It interprets the *AST facts* (initialisers, guards, delegated constructors) with
one witness value per partition cell; unknown conditions fork (both outcomes are explored by
systematic re-execution).  No library code is executed.
"""
import math

from .flow import ASSIGN_OPS


class Unknown:
    def __repr__(self):
        return 'UNK'


UNK = Unknown()


class Throw(Exception):
    def __init__(self, where):
        self.where = where


class Return(Exception):
    def __init__(self, val=UNK):
        self.val = val


class Budget(Exception):
    pass


def isunk(v):
    return v is UNK


def _num(v):
    return isinstance(v, (int, float, bool))


MATH1 = {
    'isfinite': lambda x: math.isfinite(x), 'isnan': lambda x: math.isnan(x),
    'isinf': lambda x: math.isinf(x), 'signbit': lambda x: math.copysign(1.0, x) < 0,
    'fabs': lambda x: abs(float(x)), 'abs': lambda x: abs(x),
    'floor': lambda x: math.floor(x) if math.isfinite(x) else x,
    'ceil': lambda x: math.ceil(x) if math.isfinite(x) else x,
    'exp': lambda x: _safe(math.exp, x), 'log': lambda x: _safe(math.log, x),
    'log2': lambda x: _safe(math.log2, x), 'log1p': lambda x: _safe(math.log1p, x),
    'sin': lambda x: _safe(math.sin, x), 'cos': lambda x: _safe(math.cos, x),
    'tan': lambda x: _safe(math.tan, x), 'atan': lambda x: _safe(math.atan, x),
    'asinh': lambda x: _safe(math.asinh, x), 'atanh': lambda x: _safe(math.atanh, x),
    'sinh': lambda x: _safe(math.sinh, x), 'cosh': lambda x: _safe(math.cosh, x),
    'asin': lambda x: _safe(math.asin, x), 'acos': lambda x: _safe(math.acos, x),
    'expm1': lambda x: _safe(math.expm1, x), 'cbrt': lambda x: _safe(lambda y: math.copysign(abs(y) ** (1 / 3.0), y), x),
}


def _safe(fn, *a):
    try:
        return fn(*[float(x) for x in a])
    except (ValueError, OverflowError, ZeroDivisionError):
        if any(isinstance(x, float) and math.isnan(x) for x in a):
            return float('nan')
        if fn is math.exp or fn is math.sinh or fn is math.cosh or fn is math.expm1:
            x = float(a[0])
            if x > 0:
                return float('inf')
            return 0.0 if fn is math.exp else (-1.0 if fn is math.expm1 else float('inf') * (1 if fn is math.cosh else -1))
        return float('nan')


def _sincosd(x):
    x = float(x)
    if not math.isfinite(x):
        return float('nan'), float('nan')
    r = math.remainder(x, 360.0)
    q = int(round(r / 90.0))
    r -= 90.0 * q
    s, c = math.sin(math.radians(r)), math.cos(math.radians(r))
    s, c = ((s, c), (c, -s), (-s, -c), (-c, s))[q & 3]
    return s + 0.0, c + 0.0


# value summaries of the library's own elementary helpers (documented behaviour, Math.hpp), so that a constructor
# which validates sind(lat)/cosd(lat) is interpreted on concrete witnesses instead of forking on unknowns
LIBMATH = {
    'GeographicLib::Math::sind': lambda x: _sincosd(x)[0],
    'GeographicLib::Math::cosd': lambda x: _sincosd(x)[1],
    'GeographicLib::Math::sq': lambda x: float(x) * float(x),
    'GeographicLib::Math::LatFix': lambda x: float('nan') if abs(float(x)) > 90 else float(x),
}


def _sqrt(x):
    x = float(x)
    if math.isnan(x) or x < 0:
        return float('nan')
    return math.sqrt(x) if math.isfinite(x) else x


class Interp:
    def __init__(self, prog, max_runs=600, max_depth=4, small=80, follow=(), nofollow=()):
        self.prog = prog
        self.max_runs = max_runs
        self.max_depth = max_depth
        self.small = small          # only functions up to this many AST nodes are interpreted ...
        self.follow = set(follow)   # ... plus these (validation helpers)
        self.nofollow = set(nofollow)
        self.decisions = []
        self.cursor = 0
        self.steps = 0
        self.frame_cls = Frame
        self.max_trips = 64
        self.on_path_end = None     # callback(outcome) after each explored path

    # -------------------------------------------------------------- exploration
    def explore(self, fn, args, stop_on_ok=False):
        """all outcomes of calling fn (a constructor / function Fn) with concrete args.
        returns set of 'ok' / 'throw@file:line'."""
        outcomes = set()
        self.decisions = []
        runs = 0
        while True:
            runs += 1
            if runs > self.max_runs:
                outcomes.add('budget')
                break
            self.cursor = 0
            self.steps = 0
            try:
                self.call(fn, args, 0, {})
                outcomes.add('ok')
                if self.on_path_end:
                    self.on_path_end('ok')
                if stop_on_ok:
                    break
            except Throw as t:
                outcomes.add('throw@' + t.where)
            except Budget:
                outcomes.add('budget')
                if self.on_path_end:
                    self.on_path_end('budget')
            # backtrack
            while self.decisions and self.decisions[-1] is False:
                self.decisions.pop()
            if not self.decisions:
                break
            self.decisions[-1] = False
        return outcomes

    def choose(self):
        if self.cursor < len(self.decisions):
            v = self.decisions[self.cursor]
        else:
            self.decisions.append(True)
            v = True
        self.cursor += 1
        return v

    # -------------------------------------------------------------- calls
    def call(self, fn, args, depth, this_env):
        """interpret function fn with positional args; returns value. this_env: members dict."""
        if depth > self.max_depth:
            return UNK
        env = {}
        for p, a in zip(fn.params, args):
            env[p['d']] = a
        for p in fn.params[len(args):]:
            env[p['d']] = UNK
        fr = self.frame_cls(self, fn, env, this_env, depth)
        try:
            for it in fn.d.get('inits', []):
                if it['init'] < 0:
                    continue
                v = fr.ev(it['init'])
                if it.get('kind') == 'member':
                    this_env['this.' + it['m']] = v
            if fn.d.get('body', -1) >= 0:
                fr.ex(fn.d['body'])
        except Return as r:
            return r.val
        return UNK


class Frame:
    def __init__(self, ip, fn, env, this_env, depth):
        self.ip = ip
        self.fn = fn
        self.env = env
        self.this = this_env
        self.depth = depth

    def tick(self):
        self.ip.steps += 1
        if self.ip.steps > 60000:
            raise Budget()

    # -------------------------------------------------------------- statements
    def ex(self, nid):
        if nid is None or nid < 0:
            return
        self.tick()
        f = self.fn
        n = f.nodes[nid]
        k = n['k']
        if k == 'CompoundStmt':
            for c in n['ch']:
                self.ex(c)
        elif k == 'DeclStmt':
            for d in n['decls']:
                if d.get('static_local'):
                    self.env[d['d']] = self.ev(d['init']) if d.get('init', -1) >= 0 else UNK
                    continue
                self.env[d['d']] = self.ev(d['init']) if d.get('init', -1) >= 0 else UNK
        elif k == 'IfStmt':
            if n.get('init', -1) is not None and n.get('init', -1) >= 0:
                self.ex(n['init'])
            c = self.truth_of(n['cond'])
            if c:
                self.ex(n.get('then', -1))
            else:
                self.ex(n.get('else', -1))
        elif k == 'ReturnStmt':
            v = self.ev(n['val']) if n.get('val', -1) >= 0 else UNK
            raise Return(v)
        elif k in ('ForStmt', 'WhileStmt'):
            if k == 'ForStmt' and n.get('init', -1) >= 0:
                self.ex(n['init'])
            trips = 0
            while True:
                c = self.ev(n['cond']) if n.get('cond', -1) >= 0 else True
                if isunk(c):
                    # unknown trip count: havoc everything assigned in the loop, run it zero times
                    self.havoc(n)
                    break
                if not c:
                    break
                trips += 1
                if trips > self.ip.max_trips:
                    self.havoc(n)
                    break
                self.ex(n.get('body', -1))
                if k == 'ForStmt' and n.get('inc', -1) >= 0:
                    self.ev(n['inc'])
        elif k == 'DoStmt':
            self.ex(n.get('body', -1))
            self.havoc(n)
        elif k == 'CXXForRangeStmt':
            self.havoc(n)
        elif k == 'CXXTryStmt':
            self.ex(n['try'])
        elif k in ('NullStmt', 'BreakStmt', 'ContinueStmt'):
            pass
        elif k == 'SwitchStmt':
            self.havoc(n)
        else:
            self.ev(nid)

    def havoc(self, nid_node):
        f = self.fn
        root = None
        for i, n in enumerate(f.nodes):
            if n is nid_node:
                root = i
                break
        if root is None:
            return
        for j in f.walk(root):
            n = f.nodes[j]
            if n['k'] in ('BinaryOperator', 'CompoundAssignOperator') and n.get('op') in ASSIGN_OPS:
                self.assign(n['ch'][0], UNK)
            elif n['k'] == 'UnaryOperator' and n.get('op') in ('++', '--'):
                self.assign(n['ch'][0], UNK)
            elif n.get('callee'):
                self.havoc_args(n)

    def havoc_args(self, n):
        ce = n.get('callee') or {}
        pk = ce.get('pk', [])
        off = 1 if (n.get('ckind') == 'operator' and ce.get('method')) else 0
        for ai, a in enumerate(n.get('args', [])):
            j = ai - off
            if 0 <= j < len(pk) and pk[j] in ('r', 'p'):
                self.assign(a, UNK)

    def truth(self, v):
        if isunk(v):
            return self.ip.choose()
        return bool(v)

    def truth_of(self, cond):
        """truth of condition node cond; an unknown boolean variable that is branched on keeps the chosen value
        for the rest of the path (so that `utmp ? 2 : 0 ... if (utmp)` is one decision, not two)."""
        v = self.ev(cond)
        if not isunk(v):
            return bool(v)
        c = self.ip.choose()
        f = self.fn
        i = f.strip_casts(cond)
        neg = False
        n = f.nodes[i]
        while n['k'] == 'UnaryOperator' and n.get('op') == '!' and n['ch']:
            neg = not neg
            i = f.strip_casts(n['ch'][0])
            n = f.nodes[i]
        if n['k'] == 'DeclRefExpr' and n.get('rk') in ('param', 'local') and \
                n.get('t', '').replace('const ', '').strip() == 'bool':
            self.env[n['d']] = (c != neg)
        return c

    # -------------------------------------------------------------- lvalues
    def assign(self, nid, v):
        f = self.fn
        nid = f.strip(nid)
        n = f.nodes[nid]
        if n['k'] == 'DeclRefExpr':
            self.env[n['d']] = v
        elif n['k'] == 'MemberExpr' and n.get('thisbase'):
            self.this['this.' + n['m']] = v
        elif n['k'] == 'UnaryOperator' and n['op'] in ('*', '&'):
            self.assign(n['ch'][0], UNK)
        elif n['k'] == 'ArraySubscriptExpr':
            self.assign(n['ch'][0], UNK)

    # -------------------------------------------------------------- expressions
    def ev(self, nid):
        if nid is None or nid < 0:
            return UNK
        self.tick()
        f = self.fn
        n = f.nodes[nid]
        k = n['k']
        if 'cv' in n and k not in ('CallExpr',):
            try:
                v = int(n['cv'])
                if n.get('t') == 'bool':
                    return bool(v)
                return v
            except ValueError:
                pass
        if k in ('ParenExpr', 'ExprWithCleanups', 'MaterializeTemporaryExpr', 'CXXBindTemporaryExpr',
                 'ConstantExpr', 'SubstNonTypeTemplateParmExpr'):
            return self.ev(n['ch'][0]) if n['ch'] else UNK
        if k in ('ImplicitCastExpr', 'CXXFunctionalCastExpr', 'CStyleCastExpr', 'CXXStaticCastExpr'):
            v = self.ev(n['ch'][0]) if n['ch'] else UNK
            ck = n.get('ck')
            if isunk(v) or not _num(v):
                return v
            if ck == 'IntegralToFloating':
                return float(v)
            if ck == 'FloatingToIntegral':
                return int(v) if math.isfinite(v) else UNK
            if ck in ('IntegralToBoolean', 'FloatingToBoolean'):
                return bool(v)
            if ck == 'FloatingCast':
                return float(v)
            return v
        if k == 'IntegerLiteral':
            return int(n['v'])
        if k == 'FloatingLiteral':
            try:
                return float(n['v'])
            except ValueError:
                return UNK
        if k == 'CXXBoolLiteralExpr':
            return n['v'] == '1'
        if k == 'CharacterLiteral':
            return int(n['v'])
        if k == 'DeclRefExpr':
            if n.get('rk') in ('param', 'local', 'slocal'):
                return self.env.get(n['d'], UNK)
            if 'cv' in n:
                return int(n['cv'])
            return self.static_value(n)
        if k == 'MemberExpr':
            if n.get('mk') == 'field' and n.get('thisbase'):
                return self.this.get('this.' + n['m'], UNK)
            if n.get('mk') in ('smember', 'enumerator'):
                return self.static_value(n)
            return UNK
        if k == 'UnaryOperator':
            op = n['op']
            if op in ('++', '--'):
                v = self.ev(n['ch'][0])
                nv = UNK if isunk(v) or not _num(v) else (v + 1 if op == '++' else v - 1)
                self.assign(n['ch'][0], nv)
                return v if n.get('postfix') else nv
            v = self.ev(n['ch'][0])
            if isunk(v) or not _num(v):
                return UNK
            if op == '-':
                return -v
            if op == '+':
                return v
            if op == '!':
                return not v
            if op == '~':
                return ~int(v)
            return UNK
        if k in ('BinaryOperator', 'CompoundAssignOperator'):
            return self.binop(n)
        if k == 'ConditionalOperator':
            if self.truth_of(n['cond']):
                return self.ev(n['then'])
            return self.ev(n['else'])
        if k in ('CallExpr', 'CXXMemberCallExpr', 'CXXOperatorCallExpr'):
            return self.callexpr(n)
        if k in ('CXXConstructExpr', 'CXXTemporaryObjectExpr'):
            return self.construct(n)
        if k == 'CXXThrowExpr':
            raise Throw(f.loc(nid))
        if k == 'CXXDefaultArgExpr':
            return UNK
        return UNK

    def static_value(self, n):
        # static const members evaluated by clang carry cv on the enclosing cast; otherwise unknown
        q = n.get('q')
        if q:
            v = self.ip.prog.var_by_q(q)
            if v is not None and v.get('nodes') and v.get('init', -1) >= 0:
                r = v['nodes'][v['init']]
                if 'cv' in r:
                    return int(r['cv'])
                if 'fv' in r:
                    try:
                        return float(r['fv'])
                    except ValueError:
                        return UNK
        return UNK

    def binop(self, n):
        op = n['op']
        if op == ',':
            self.ev(n['ch'][0])
            return self.ev(n['ch'][1])
        if op == '&&':
            a = self.ev(n['ch'][0])
            if not isunk(a) and not a:
                return False
            b = self.ev(n['ch'][1])
            if not isunk(b) and not b:
                return False
            if isunk(a) or isunk(b):
                return UNK
            return True
        if op == '||':
            a = self.ev(n['ch'][0])
            if not isunk(a) and a:
                return True
            b = self.ev(n['ch'][1])
            if not isunk(b) and b:
                return True
            if isunk(a) or isunk(b):
                return UNK
            return False
        if op == '=':
            v = self.ev(n['ch'][1])
            self.assign(n['ch'][0], v)
            return v
        if op in ASSIGN_OPS:
            a = self.ev(n['ch'][0])
            b = self.ev(n['ch'][1])
            v = self.arith(op[:-1], a, b)
            self.assign(n['ch'][0], v)
            return v
        a = self.ev(n['ch'][0])
        b = self.ev(n['ch'][1])
        return self.arith(op, a, b)

    def arith(self, op, a, b):
        if isunk(a) or isunk(b) or not _num(a) or not _num(b):
            # NaN absorbs in arithmetic even with an unknown partner
            for v in (a, b):
                if isinstance(v, float) and math.isnan(v):
                    if op in ('+', '-', '*', '/'):
                        return float('nan')
                    if op in ('<', '>', '<=', '>=', '=='):
                        return False
                    if op == '!=':
                        return True
            return UNK
        try:
            if op == '+':
                return a + b
            if op == '-':
                return a - b
            if op == '*':
                if isinstance(a, float) or isinstance(b, float):
                    return float(a) * float(b)
                return a * b
            if op == '/':
                if isinstance(a, float) or isinstance(b, float):
                    a, b = float(a), float(b)
                    if b == 0:
                        if a == 0 or math.isnan(a):
                            return float('nan')
                        return math.copysign(float('inf'), a) * math.copysign(1.0, b)
                    return a / b
                if b == 0:
                    return UNK
                return int(a / b)
            if op == '%':
                if b == 0:
                    return UNK
                return int(math.fmod(a, b))
            if op == '<':
                return a < b
            if op == '>':
                return a > b
            if op == '<=':
                return a <= b
            if op == '>=':
                return a >= b
            if op == '==':
                return a == b
            if op == '!=':
                return a != b
            if op == '&':
                return int(a) & int(b)
            if op == '|':
                return int(a) | int(b)
            if op == '^':
                return int(a) ^ int(b)
            if op == '<<':
                return int(a) << int(b)
            if op == '>>':
                return int(a) >> int(b)
        except (OverflowError, ValueError):
            return UNK
        return UNK

    def callexpr(self, n):
        ce = n.get('callee')
        args = n.get('args', [])
        if not ce:
            for a in args:
                self.ev(a)
            return UNK
        name = ce.get('name')
        q = ce.get('q', '')
        off = 1 if (n.get('ckind') == 'operator' and ce.get('method')) else 0
        vals = [self.ev(a) for a in args]
        if not ce.get('inrepo'):
            self.havoc_args(n)
            v = vals[off:] if off else vals
            if any(isunk(x) or not _num(x) for x in v):
                # isnan/isfinite of a NaN-absorbing unknown stay unknown
                return UNK
            try:
                if name in MATH1 and len(v) == 1:
                    return MATH1[name](v[0])
                if name == 'sqrt' and len(v) == 1:
                    return _sqrt(v[0])
                if name in ('fmin', 'fmax') and len(v) == 2:
                    a, b = float(v[0]), float(v[1])
                    if math.isnan(a):
                        return b
                    if math.isnan(b):
                        return a
                    return min(a, b) if name == 'fmin' else max(a, b)
                if name in ('min', 'max') and len(v) == 2:
                    a, b = v
                    if name == 'max':
                        return b if a < b else a
                    return b if b < a else a
                if name == 'hypot' and len(v) == 2:
                    return _safe(math.hypot, *v)
                if name == 'copysign' and len(v) == 2:
                    return math.copysign(float(v[0]), float(v[1]))
                if name == 'atan2' and len(v) == 2:
                    return _safe(math.atan2, *v)
                if name == 'pow' and len(v) == 2:
                    return _safe(math.pow, *v)
                if name in ('fmod', 'remainder') and len(v) == 2:
                    return _safe(math.fmod if name == 'fmod' else math.remainder, *v)
            except (ValueError, OverflowError, TypeError):
                return UNK
            if q.endswith('numeric_limits::epsilon'):
                return 2.220446049250313e-16
            if q.endswith('numeric_limits::quiet_NaN'):
                return float('nan')
            if q.endswith('numeric_limits::infinity'):
                return float('inf')
            if q.endswith('numeric_limits::max'):
                return 1.7976931348623157e308
            if q.endswith('numeric_limits::min'):
                return 2.2250738585072014e-308
            return UNK
        if q in LIBMATH and len(vals) == 1 and _num(vals[0]) and not isunk(vals[0]):
            try:
                return LIBMATH[q](vals[0])
            except (ValueError, OverflowError):
                return UNK
        callee = self.ip.prog.fns.get(ce.get('usr'))
        if callee is None or self.depth + 1 > self.ip.max_depth or \
                (len(callee.nodes) > self.ip.small and q not in self.ip.follow) or q in self.ip.nofollow:
            self.havoc_args(n)
            if ce.get('method') and not ce.get('mstatic') and not ce.get('mconst'):
                if n.get('objthis'):
                    for kx in list(self.this):
                        self.this[kx] = UNK
                elif 'obj' in n:
                    self.assign(n['obj'], UNK)
            return UNK
        pk = ce.get('pk', [])
        byref = any(p in ('r', 'p') for p in pk)
        if ce.get('method') and not ce.get('mstatic'):
            # member call: on this -> share member env; on other objects -> unknown members
            if n.get('objthis'):
                tenv = self.this
            else:
                tenv = {}
            r = self.ip.call(callee, vals[off:] if off else vals, self.depth + 1, tenv)
            if byref:
                self.havoc_args(n)
            if not n.get('objthis') and not ce.get('mconst') and 'obj' in n:
                self.assign(n['obj'], UNK)
            return r
        r = self.ip.call(callee, vals, self.depth + 1, {})
        if byref:
            self.havoc_args(n)
        return r

    def construct(self, n):
        ce = n.get('callee') or {}
        vals = [self.ev(a) for a in n.get('args', [])]
        callee = self.ip.prog.fns.get(ce.get('usr'))
        if callee is None or not ce.get('inrepo'):
            # copy/move construction or std type: value semantics for scalars
            if len(vals) == 1 and (ce.get('q', '').startswith('std::') is False):
                return vals[0] if _num(vals[0]) else UNK
            return UNK
        if self.depth + 1 > self.ip.max_depth or ce.get('q') in self.ip.nofollow:
            return UNK
        self.ip.call(callee, vals, self.depth + 1, {})
        return UNK
