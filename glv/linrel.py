"""Linear-relational path analysis (a small polyhedral abstract domain decided by Fourier-Motzkin elimination).

Program quantities are linear expressions over symbols (class constants such as the raster width, fresh
symbols for values the analysis does not model); each path carries a conjunction of linear constraints
over those symbols.  Integer symbols allow the usual tightening (a < b  ==>  a <= b - 1).  The analysis
enumerates the paths of structured code (if / ?: / && / || / min / max fork; counted loops are entered once
with the counter as a symbol constrained to its range), inlines small callees for their obligations only,
and at each obligation asks whether the path constraints entail it.  Nothing is executed and no solver is
involved: entailment is decided by eliminating variables from the (small) constraint systems.
"""
from fractions import Fraction

from .flow import ASSIGN_OPS

F = Fraction


def _is_int_type(t):
    t = t.replace('const ', '').replace('&', '').strip()
    return t in ('int', 'unsigned int', 'unsigned', 'long', 'unsigned long', 'long long', 'unsigned long long', 'short',
                 'unsigned short', 'char', 'unsigned char', 'signed char', 'bool', 'size_t', 'std::size_t')


class Lin:
    __slots__ = ('c', 'k')

    def __init__(self, c=None, k=0):
        self.c = {s: F(v) for s, v in (c or {}).items() if v != 0}
        self.k = F(k)

    @staticmethod
    def sym(s):
        return Lin({s: 1}, 0)

    @staticmethod
    def const(v):
        return Lin({}, v)

    def __add__(self, o):
        c = dict(self.c)
        for s, v in o.c.items():
            c[s] = c.get(s, 0) + v
        return Lin(c, self.k + o.k)

    def __neg__(self):
        return Lin({s: -v for s, v in self.c.items()}, -self.k)

    def __sub__(self, o):
        return self + (-o)

    def scale(self, f):
        f = F(f)
        return Lin({s: v * f for s, v in self.c.items()}, self.k * f)

    @property
    def is_const(self):
        return not self.c

    def subst(self, s, e):
        if s not in self.c:
            return self
        v = self.c[s]
        c = dict(self.c)
        del c[s]
        return Lin(c, self.k) + e.scale(v)

    def key(self):
        return (tuple(sorted(self.c.items())), self.k)

    def __repr__(self):
        parts = []
        for s, v in sorted(self.c.items()):
            parts.append(('%s' % s) if v == 1 else ('-%s' % s if v == -1 else '%s*%s' % (v, s)))
        if self.k != 0 or not parts:
            parts.append(str(self.k))
        return ' + '.join(parts).replace('+ -', '- ')


class System:
    """conjunction of constraints e <= 0 (or e < 0), with the set of integer symbols."""

    def __init__(self, cons=None, ints=None):
        self.cons = list(cons or [])       # (Lin, strict)
        self.ints = set(ints or ())

    def copy(self):
        return System(self.cons, self.ints)

    def _tighten(self, e, strict):
        """integer tightening of e < 0 / e <= 0 when every symbol is an integer with integer coefficient."""
        if not e.c:
            return e, strict
        if all(s in self.ints for s in e.c):
            den = 1
            for v in list(e.c.values()):
                den = den * v.denominator // _gcd(den, v.denominator)
            e2 = e.scale(den)
            # e2 = sum(int coeff * int sym) + k  (<|<=) 0
            g = 0
            for v in e2.c.values():
                g = _gcd(g, abs(int(v)))
            if g > 1:
                e2 = e2.scale(F(1, g))
            k = e2.k
            # sum <= -k  (or < -k): sum is an integer
            import math
            if strict:
                bound = math.ceil(-k) - 1 if (-k) == math.ceil(-k) else math.floor(-k)
            else:
                bound = math.floor(-k)
            return Lin(e2.c, -bound), False
        return e, strict

    def add(self, e, strict=False):
        e, strict = self._tighten(e, strict)
        self.cons.append((e, strict))

    def add_le(self, a, b):
        self.add(a - b, False)

    def add_lt(self, a, b):
        self.add(a - b, True)

    def add_eq(self, a, b):
        self.add(a - b, False)
        self.add(b - a, False)

    def feasible(self, extra=()):
        extra = list(extra)
        cons = list(self.cons)
        if extra:
            # only the constraints connected (through shared symbols) to the query matter
            syms = set()
            for e, s in extra:
                syms |= set(e.c)
            changed = True
            used = [False] * len(cons)
            while changed:
                changed = False
                for i, (e, s) in enumerate(cons):
                    if not used[i] and (set(e.c) & syms):
                        used[i] = True
                        if not set(e.c) <= syms:
                            syms |= set(e.c)
                            changed = True
                        else:
                            changed = changed or False
            cons = [c for i, c in enumerate(cons) if used[i]]
        key = (tuple(sorted((e.key(), s) for e, s in cons)), tuple(sorted((e.key(), s) for e, s in extra)))
        r = _CACHE.get(key)
        if r is None:
            base = [self._tighten(e, s) for e, s in cons]
            r = _fm_feasible(base + [self._tighten(e, s) for e, s in extra], self)
            if r and extra:
                # not refuted over the rationals: make the integrality of the individual symbols available
                # (project the path constraints on each integer symbol, round its bounds, try again)
                skey = key[0]
                unit = _UNIT.get(skey)
                if unit is None:
                    unit = _integer_unit_bounds(base, self)
                    if len(_UNIT) < 50000:
                        _UNIT[skey] = unit
                if unit:
                    r = _fm_feasible(base + unit + [self._tighten(e, s) for e, s in extra], self)
            if len(_CACHE) < 200000:
                _CACHE[key] = r
        return r

    def entails_le(self, a, b):
        """do the constraints entail a <= b ?  (i.e. is  b < a  infeasible)"""
        return not self.feasible([(b - a, True)])

    def entails_lt(self, a, b):
        return not self.feasible([(b - a, False)])


_CACHE = {}
_UNIT = {}


def _project_bounds(cons, sysm, x, limit=3000):
    """rational bounds (lo, hi) of symbol x implied by cons (Fourier-Motzkin projection); None = unbounded."""
    work = [(e, s) for e, s in cons if not e.is_const]
    syms = set()
    for e, s in work:
        syms |= set(e.c)
    for y in sorted(syms - {x}, key=lambda v: sum(1 for e, s in work if v in e.c)):
        pos = [(e, s) for e, s in work if e.c.get(y, 0) > 0]
        neg = [(e, s) for e, s in work if e.c.get(y, 0) < 0]
        rest = [(e, s) for e, s in work if y not in e.c]
        new = list(rest)
        seen = {(e.key(), s) for e, s in new}
        for ep, sp in pos:
            for en, sn in neg:
                e = ep.scale(-en.c[y]) + en.scale(ep.c[y])
                st_ = sp or sn
                e, st_ = sysm._tighten(e, st_)
                if e.is_const:
                    continue
                m = max(abs(v) for v in e.c.values())
                e = e.scale(1 / m)
                k_ = (e.key(), st_)
                if k_ not in seen:
                    seen.add(k_)
                    new.append((e, st_))
        if len(new) > limit:
            return None, None
        work = new
    lo = hi = None
    for e, s in work:
        a = e.c.get(x, 0)
        if a == 0 or len(e.c) != 1:
            continue
        b = -e.k / a
        if a > 0:
            hi = b if hi is None or b < hi else hi
        else:
            lo = b if lo is None or b > lo else lo
    return lo, hi


def _integer_unit_bounds(cons, sysm):
    import math
    syms = set()
    for e, s in cons:
        syms |= set(e.c)
    out = []
    for x in sorted(syms):
        if x not in sysm.ints:
            continue
        lo, hi = _project_bounds(cons, sysm, x)
        if lo is not None:
            out.append((Lin({x: -1}, F(math.ceil(lo))), False))
        if hi is not None:
            out.append((Lin({x: 1}, -F(math.floor(hi))), False))
    return out


def _gcd(a, b):
    a, b = abs(int(a)), abs(int(b))
    while b:
        a, b = b, a % b
    return a


def _propagate_bounds(cons, sysm, rounds=40):
    """interval bound propagation with integer rounding; returns (feasible?, extra unit constraints).
    Makes the integrality of single variables available to the elimination (d >= -0.8  ==>  d >= 0)."""
    import math
    lo, hi = {}, {}
    syms = set()
    for e, s in cons:
        syms |= set(e.c)
    changed = True
    it = 0
    while changed and it < rounds:
        changed = False
        it += 1
        for e, strict in cons:
            # sum a_i x_i + k (<|<=) 0
            for x, a in e.c.items():
                # bound a*x <= -k - sum_{others} min(a_i x_i)
                rest = -e.k
                ok = True
                for y, b in e.c.items():
                    if y == x:
                        continue
                    if b > 0:
                        if y not in lo:
                            ok = False
                            break
                        rest -= b * lo[y]
                    else:
                        if y not in hi:
                            ok = False
                            break
                        rest -= b * hi[y]
                if not ok:
                    continue
                bound = rest / a
                isint = x in sysm.ints
                if a > 0:
                    nb = bound
                    if isint:
                        nb = F(math.floor(nb)) if not (strict and nb == math.floor(nb)) else F(math.floor(nb) - 1)
                    if x not in hi or nb < hi[x]:
                        hi[x] = nb
                        changed = True
                else:
                    nb = bound
                    if isint:
                        nb = F(math.ceil(nb)) if not (strict and nb == math.ceil(nb)) else F(math.ceil(nb) + 1)
                    if x not in lo or nb > lo[x]:
                        lo[x] = nb
                        changed = True
                if x in lo and x in hi and lo[x] > hi[x]:
                    return False, []
    extra = []
    for x in syms:
        if x in sysm.ints:
            if x in lo:
                extra.append((Lin({x: -1}, lo[x]), False))
            if x in hi:
                extra.append((Lin({x: 1}, -hi[x]), False))
    return True, extra


def _fm_feasible(cons, sysm, limit=4000):
    """Fourier-Motzkin feasibility over the rationals with integer tightening of derived constraints."""
    cons = list(cons)
    okb, extra = _propagate_bounds(cons, sysm)
    if not okb:
        return False
    cons += extra
    # trivial constraints
    def trivially_false(e, strict):
        return e.is_const and (e.k > 0 or (strict and e.k >= 0))
    seen = set()
    work = []
    for e, s in cons:
        if trivially_false(e, s):
            return False
        if e.is_const:
            continue
        key = (e.key(), s)
        if key not in seen:
            seen.add(key)
            work.append((e, s))
    while True:
        syms = set()
        for e, s in work:
            syms |= set(e.c)
        if not syms:
            return True
        # choose the symbol with the fewest pos*neg combinations
        best = None
        for x in syms:
            p = sum(1 for e, s in work if e.c.get(x, 0) > 0)
            n = sum(1 for e, s in work if e.c.get(x, 0) < 0)
            cost = p * n - p - n
            if best is None or cost < best[0]:
                best = (cost, x)
        x = best[1]
        pos = [(e, s) for e, s in work if e.c.get(x, 0) > 0]
        neg = [(e, s) for e, s in work if e.c.get(x, 0) < 0]
        rest = [(e, s) for e, s in work if x not in e.c]
        new = list(rest)
        seen = {(e.key(), s) for e, s in new}
        for ep, sp in pos:
            for en, sn in neg:
                a = ep.c[x]
                b = -en.c[x]
                e = ep.scale(b) + en.scale(a)       # x eliminated
                s = sp or sn
                e, s = sysm._tighten(e, s)
                if trivially_false(e, s):
                    return False
                if e.is_const:
                    continue
                # normalise scale
                m = max(abs(v) for v in e.c.values())
                e = e.scale(1 / m)
                key = (e.key(), s)
                if key not in seen:
                    seen.add(key)
                    new.append((e, s))
        if len(new) > limit:
            return True        # give up: treat as feasible (cannot prove)
        work = new


# ----------------------------------------------------------------------------------------- path interpreter
class Unknown:
    def __repr__(self):
        return '?'


UNK = Unknown()


class PathAbort(Exception):
    """a throw / return ends the path."""

    def __init__(self, kind, val=None):
        self.kind = kind
        self.val = val


class TooManyPaths(Exception):
    pass


class State:
    def __init__(self, sysm, env=None, flags=None):
        self.sys = sysm
        self.env = dict(env or {})
        self.flags = dict(flags or {})      # unknown boolean conditions decided on this path
        self.last_seek = None
        self.trace = []

    def copy(self):
        s = State(self.sys.copy(), self.env, self.flags)
        s.last_seek = self.last_seek
        s.trace = list(self.trace)
        return s


class Analyzer:
    """path enumeration of one function body with linear values.  Subclasses supply `member`, `call`
    and `subscript` hooks."""

    def __init__(self, prog, max_states=6000):
        self.prog = prog
        self.max_states = max_states
        self.nfresh = 0
        self.loose = set()
        self.npaths = 0
        self._ret_stack = []

    # -------------------------------------------------------------- symbols
    def fresh(self, hint, state, is_int, loose=True):
        self.nfresh += 1
        s = '%s#%d' % (hint, self.nfresh)
        if is_int:
            state.sys.ints.add(s)
        if loose:
            self.loose.add(s)
        return Lin.sym(s)

    # -------------------------------------------------------------- expressions (value, on one state; may fork)
    def ev(self, f, nid, st):
        """evaluate expression nid: returns list of (value, state)."""
        if nid is None or nid < 0:
            return [(UNK, st)]
        n = f.nodes[nid]
        k = n['k']
        if 'cv' in n and k not in ('CallExpr',):
            try:
                return [(Lin.const(int(n['cv'])), st)]
            except ValueError:
                pass
        if 'fv' in n and k != 'DeclRefExpr':
            try:
                return [(Lin.const(F(str(float(n['fv'])))), st)]
            except (ValueError, OverflowError):
                pass
        if k in ('ParenExpr', 'ExprWithCleanups', 'MaterializeTemporaryExpr', 'CXXBindTemporaryExpr', 'ConstantExpr',
                 'ImplicitCastExpr', 'CXXFunctionalCastExpr', 'CStyleCastExpr', 'CXXStaticCastExpr'):
            if not n['ch']:
                return [(UNK, st)]
            out = []
            for v, s in self.ev(f, n['ch'][0], st):
                if k != 'ParenExpr' and n.get('ck') == 'FloatingToIntegral' and isinstance(v, Lin) and not self.is_int_lin(v, s):
                    out += self.trunc_fork(v, s)
                    continue
                out.append((v, s))
            return out
        if k == 'IntegerLiteral':
            return [(Lin.const(int(n['v'])), st)]
        if k == 'FloatingLiteral':
            try:
                return [(Lin.const(F(str(float(n['v'])))), st)]
            except (ValueError, OverflowError):
                return [(UNK, st)]
        if k == 'CXXBoolLiteralExpr':
            return [(Lin.const(1 if n['v'] == '1' else 0), st)]
        if k == 'DeclRefExpr':
            if n.get('rk') in ('param', 'local'):
                return [(st.env.get(n['d'], UNK), st)]
            return [(self.static_value(f, n, st), st)]
        if k == 'MemberExpr':
            if n.get('mk') == 'field' and n.get('thisbase'):
                return [(self.member(n['m'], st, n.get('t', '')), st)]
            return [(self.static_value(f, n, st), st)]
        if k == 'UnaryOperator':
            op = n['op']
            if op in ('++', '--'):
                out = []
                for v, s in self.ev(f, n['ch'][0], st):
                    nv = v + Lin.const(1 if op == '++' else -1) if isinstance(v, Lin) else UNK
                    self.assign(f, n['ch'][0], nv, s)
                    out.append((v if n.get('postfix') else nv, s))
                return out
            out = []
            for v, s in self.ev(f, n['ch'][0], st):
                if op == '-' and isinstance(v, Lin):
                    out.append((-v, s))
                elif op == '+':
                    out.append((v, s))
                else:
                    out.append((UNK, s))
            return out
        if k in ('BinaryOperator', 'CompoundAssignOperator'):
            return self.binop(f, n, st)
        if k == 'ConditionalOperator':
            out = []
            for truth, s in self.cond(f, n['cond'], st):
                out += self.ev(f, n['then'] if truth else n['else'], s)
            return out
        if k in ('CallExpr', 'CXXMemberCallExpr', 'CXXOperatorCallExpr'):
            return self.call(f, nid, n, st)
        if k == 'ArraySubscriptExpr':
            return self.subscript(f, nid, n, st)
        return [(UNK, st)]

    def static_value(self, f, n, st):
        q = n.get('q')
        if q:
            v = self.prog.var_by_q(q)
            if v is not None and v.get('nodes') and v.get('init', -1) >= 0:
                r = v['nodes'][v['init']]
                if 'cv' in r:
                    return Lin.const(int(r['cv']))
        return UNK

    def member(self, name, st, t=''):
        return UNK

    def is_int_lin(self, v, st):
        return all(s in st.sys.ints for s in v.c) and all(c.denominator == 1 for c in v.c.values()) and v.k.denominator == 1

    def trunc(self, v, st):
        return UNK

    def trunc_fork(self, v, st):
        return [(self.trunc(v, st), st)]

    def binop(self, f, n, st):
        op = n['op']
        if op == ',':
            out = []
            for _, s in self.ev(f, n['ch'][0], st):
                out += self.ev(f, n['ch'][1], s)
            return out
        if op in ('&&', '||', '<', '>', '<=', '>=', '==', '!='):
            return [(Lin.const(1 if t else 0), s) for t, s in self.cond_node(f, n, st)]
        if op == '=':
            out = []
            lhs_sub = f.nodes[f.strip(n['ch'][0])]['k'] == 'ArraySubscriptExpr'
            for v, s in self.ev(f, n['ch'][1], st):
                if lhs_sub:
                    # a store through a subscript: evaluate the subscript (its index obligation and side effects)
                    for _, s2 in self.ev(f, f.strip(n['ch'][0]), s):
                        out.append((v, s2))
                    continue
                self.assign(f, n['ch'][0], v, s)
                out.append((v, s))
            return out
        base = op[:-1] if op in ASSIGN_OPS else op
        out = []
        for a, s1 in self.ev(f, n['ch'][0], st):
            for b, s2 in self.ev(f, n['ch'][1], s1):
                isint = _is_int_type(n.get('t') or '')
                if op in ASSIGN_OPS:
                    ln = f.nodes[f.strip(n['ch'][0])]
                    isint = _is_int_type(ln.get('t', ''))
                for v, s3 in self.arith(base, a, b, s2, isint):
                    if op in ASSIGN_OPS:
                        self.assign(f, n['ch'][0], v, s3)
                    out.append((v, s3))
        return out

    def arith(self, op, a, b, st, isint):
        if not isinstance(a, Lin) or not isinstance(b, Lin):
            return [(UNK, st)]
        if op == '+':
            return [(a + b, st)]
        if op == '-':
            return [(a - b, st)]
        if op == '*':
            if b.is_const:
                return [(a.scale(b.k), st)]
            if a.is_const:
                return [(b.scale(a.k), st)]
            return [(self.product(a, b, st), st)]
        if op == '/':
            if b.is_const and b.k != 0:
                if not isint:
                    return [(a.scale(1 / b.k), st)]
                return [(self.intdiv(a, int(b.k), st), st)]
            return [(UNK, st)]
        return [(UNK, st)]

    def product(self, a, b, st):
        return UNK

    def intdiv(self, a, c, st):
        """C integer division of a by the positive constant c (a assumed to be an integer quantity)."""
        q = a.scale(F(1, c))
        if all(v.denominator == 1 for v in q.c.values()) and q.k.denominator == 1:
            return q
        # q = a / c truncated: for a >= 0: c*q <= a <= c*q + c - 1 ; for a <= 0 mirrored.  Sign by entailment.
        r = self.fresh('div', st, True, loose=False)
        if st.sys.entails_le(Lin.const(0), a):
            st.sys.add_le(r.scale(c), a)
            st.sys.add_le(a, r.scale(c) + Lin.const(c - 1))
        elif st.sys.entails_le(a, Lin.const(0)):
            st.sys.add_le(a, r.scale(c))
            st.sys.add_le(r.scale(c) - Lin.const(c - 1), a)
        else:
            st.sys.add_le(r.scale(c) - Lin.const(c - 1), a)
            st.sys.add_le(a, r.scale(c) + Lin.const(c - 1))
        return r

    # -------------------------------------------------------------- conditions: list of (truth, state)
    def cond(self, f, nid, st):
        n = f.nodes[nid]
        k = n['k']
        if k in ('ParenExpr', 'ImplicitCastExpr', 'ExprWithCleanups', 'CXXFunctionalCastExpr', 'CStyleCastExpr') and n['ch']:
            inner = f.nodes[f.strip_casts(n['ch'][0])]
            if k == 'ImplicitCastExpr' and n.get('ck') == 'IntegralToBoolean' and \
                    inner['k'] not in ('BinaryOperator', 'UnaryOperator', 'CallExpr', 'CXXMemberCallExpr'):
                # integer used as a condition: v != 0
                out = []
                for v, s in self.ev(f, n['ch'][0], st):
                    out += self.cmp_fork('!=', v, Lin.const(0), s, nid)
                return out
            return self.cond(f, n['ch'][0], st)
        if k == 'UnaryOperator' and n['op'] == '!':
            return [(not t, s) for t, s in self.cond(f, n['ch'][0], st)]
        if k == 'BinaryOperator' and n['op'] in ('&&', '||', '<', '>', '<=', '>=', '==', '!='):
            return self.cond_node(f, n, st)
        if k == 'CXXBoolLiteralExpr':
            return [(n['v'] == '1', st)]
        # a boolean variable / member / call: an unknown that keeps its value along the path
        key = self.flag_key(f, nid)
        if key is not None and key.startswith('v:'):
            cur = st.env.get(key[2:])
            if isinstance(cur, Lin) and cur.is_const:
                return [(cur.k != 0, st)]        # a boolean local whose value was computed on this path
            if isinstance(cur, Lin):
                return self.cmp_fork('!=', cur, Lin.const(0), st, nid)     # a 0/1 symbol (shared with callees)
        if key is not None:
            if key in st.flags:
                return [(st.flags[key], st)]
            a, b = st.copy(), st.copy()
            a.flags[key] = True
            b.flags[key] = False
            return [(True, a), (False, b)]
        out = []
        for v, s in self.ev(f, nid, st):
            if isinstance(v, Lin):
                out += self.cmp_fork('!=', v, Lin.const(0), s, nid)
            else:
                out += [(True, s.copy()), (False, s.copy())]
        return out

    def flag_key(self, f, nid):
        n = f.nodes[f.strip_casts(nid)]
        if n['k'] == 'MemberExpr' and n.get('thisbase'):
            return 'this.' + n['m']
        if n['k'] == 'DeclRefExpr' and n.get('rk') in ('param', 'local') and n.get('t', '').replace('const ', '') == 'bool':
            return 'v:' + n['d']
        return None

    def cond_node(self, f, n, st):
        op = n['op']
        if op in ('&&', '||'):
            out = []
            for t, s in self.cond(f, n['ch'][0], st):
                if (op == '&&' and not t) or (op == '||' and t):
                    out.append((t, s))
                else:
                    out += self.cond(f, n['ch'][1], s)
            return out
        out = []
        for a, s1 in self.ev(f, n['ch'][0], st):
            for b, s2 in self.ev(f, n['ch'][1], s1):
                out += self.cmp_fork(op, a, b, s2, None)
        return out

    def cmp_fork(self, op, a, b, st, nid):
        if not isinstance(a, Lin) or not isinstance(b, Lin):
            return [(True, st.copy()), (False, st.copy())]
        res = []

        def add(truth, cons):
            s = st.copy()
            for kind, x, y in cons:
                if kind == 'le':
                    s.sys.add_le(x, y)
                elif kind == 'lt':
                    s.sys.add_lt(x, y)
            if s.sys.feasible():
                res.append((truth, s))
        if op == '<':
            add(True, [('lt', a, b)])
            add(False, [('le', b, a)])
        elif op == '<=':
            add(True, [('le', a, b)])
            add(False, [('lt', b, a)])
        elif op == '>':
            add(True, [('lt', b, a)])
            add(False, [('le', a, b)])
        elif op == '>=':
            add(True, [('le', b, a)])
            add(False, [('lt', a, b)])
        elif op == '==':
            add(True, [('le', a, b), ('le', b, a)])
            add(False, [('lt', a, b)])
            add(False, [('lt', b, a)])
        elif op == '!=':
            add(False, [('le', a, b), ('le', b, a)])
            add(True, [('lt', a, b)])
            add(True, [('lt', b, a)])
        return res

    # -------------------------------------------------------------- assignment
    def assign(self, f, lhs, v, st):
        n = f.nodes[f.strip(lhs)]
        if n['k'] == 'DeclRefExpr' and n.get('rk') in ('param', 'local'):
            st.env[n['d']] = v
        elif n['k'] == 'MemberExpr' and n.get('mk') == 'field' and n.get('thisbase'):
            st.env['this.' + n['m']] = v

    # -------------------------------------------------------------- statements: list of states (normal completion)
    def ex(self, f, nid, states):
        if nid is None or nid < 0:
            return states
        if len(states) > self.max_states:
            raise TooManyPaths()
        n = f.nodes[nid]
        k = n['k']
        if k == 'CompoundStmt':
            for c in n['ch']:
                states = self.ex(f, c, states)
                if not states:
                    break
            return states
        if k == 'DeclStmt':
            for d in n['decls']:
                nxt = []
                for st in states:
                    if d.get('init', -1) >= 0:
                        for v, s in self.ev(f, d['init'], st):
                            s.env[d['d']] = v
                            nxt.append(s)
                    else:
                        st.env[d['d']] = UNK
                        nxt.append(st)
                states = nxt
            return states
        if k == 'IfStmt':
            out = []
            for st in states:
                for t, s in self.cond(f, n['cond'], st):
                    out += self.ex(f, n.get('then', -1) if t else n.get('else', -1), [s])
            return out
        if k == 'ReturnStmt':
            for st in states:
                if n.get('val', -1) is not None and n.get('val', -1) >= 0:
                    for v, s in self.ev(f, n['val'], st):
                        self.finished(f, s, 'return', v)
                else:
                    self.finished(f, st, 'return', None)
            return []
        if k == 'CXXTryStmt':
            return self.ex(f, n['try'], states)
        if k in ('NullStmt', 'BreakStmt', 'ContinueStmt'):
            return states
        if k in ('ForStmt', 'WhileStmt', 'DoStmt', 'CXXForRangeStmt'):
            return self.loop(f, nid, n, states)
        if k == 'CXXThrowExpr':
            return []
        if k in ('ExprWithCleanups', 'ParenExpr') and n['ch'] and f.nodes[f.strip(nid)]['k'] == 'CXXThrowExpr':
            return []
        # expression statement
        out = []
        for st in states:
            try:
                for v, s in self.ev(f, nid, st):
                    out.append(s)
            except PathAbort:
                pass
        return out

    def finished(self, f, st, how, val=None):
        self.npaths += 1
        if self._ret_stack:
            self._ret_stack[-1].append((val if val is not None else UNK, st))

    def inline_call(self, callee, argvals, st):
        """run callee with the given argument values on state st; returns [(return value, state)] for the paths that
        return normally (throwing paths end).  The callee's locals live in a separate environment."""
        sub = st.copy()
        saved_env = sub.env
        sub.env = {k: v for k, v in saved_env.items() if isinstance(k, str) and k.startswith('this.')}
        for p, v in zip(callee.params, argvals):
            sub.env[p['d']] = v
        self._ret_stack.append([])
        try:
            rest = self.ex(callee, callee.d['body'], [sub])
            outs = self._ret_stack[-1]
        finally:
            self._ret_stack.pop()
        for s in rest:                 # fell off the end (void function)
            outs.append((UNK, s))
        res = []
        for v, s in outs:
            s.callee_final = {p['d']: s.env.get(p['d'], UNK) for p in callee.params}
            env = dict(saved_env)
            for k, x in s.env.items():
                if isinstance(k, str) and k.startswith('this.'):
                    env[k] = x
            s.env = env
            res.append((v, s))
        return res

    def assigned_in(self, f, root):
        keys = set()
        for j in f.walk(root):
            jn = f.nodes[j]
            tgt = None
            if (jn['k'] in ('BinaryOperator', 'CompoundAssignOperator') and jn.get('op') in ASSIGN_OPS) or \
                    (jn['k'] == 'UnaryOperator' and jn.get('op') in ('++', '--')):
                tgt = f.nodes[f.strip(jn['ch'][0])]
            if tgt is not None:
                if tgt['k'] == 'DeclRefExpr':
                    keys.add(tgt['d'])
                elif tgt['k'] == 'MemberExpr' and tgt.get('thisbase'):
                    keys.add('this.' + tgt['m'])
        return keys

    def _shrinking(self, f, body, key):
        """every assignment of variable key inside body is `v /= C` (C a positive constant)."""
        ok = False
        for j in f.walk(body):
            jn = f.nodes[j]
            if (jn['k'] in ('BinaryOperator', 'CompoundAssignOperator') and jn.get('op') in ASSIGN_OPS) or \
                    (jn['k'] == 'UnaryOperator' and jn.get('op') in ('++', '--')):
                tgt = f.nodes[f.strip(jn['ch'][0])]
                if tgt['k'] == 'DeclRefExpr' and tgt.get('d') == key:
                    if jn['k'] == 'CompoundAssignOperator' and jn.get('op') == '/=' and 'cv' in f.nodes[f.strip(jn['ch'][1])] \
                            and int(f.nodes[f.strip(jn['ch'][1])]['cv']) > 0:
                        ok = True
                    else:
                        return False
        return ok

    def havoc_loop_vars(self, f, body, assigned, entry, st):
        """variables assigned in a loop body take an arbitrary later-iteration value: a fresh symbol, constrained by
        the shrink invariant where it applies (0 <= v' <= v_entry for v >= 0), loose otherwise."""
        for a in assigned:
            ev = entry.env.get(a, UNK)
            if isinstance(ev, Lin) and not isinstance(a, str) or (isinstance(a, str) and not a.startswith('this.') and isinstance(ev, Lin)):
                if body >= 0 and self._shrinking(f, body, a) and self.is_int_lin(ev, st):
                    if st.sys.entails_le(Lin.const(0), ev):
                        v = self.fresh('it', st, True, loose=False)
                        st.sys.add_le(Lin.const(0), v)
                        st.sys.add_le(v, ev)
                        st.env[a] = v
                        continue
                    if st.sys.entails_le(ev, Lin.const(0)):
                        v = self.fresh('it', st, True, loose=False)
                        st.sys.add_le(v, Lin.const(0))
                        st.sys.add_le(ev, v)
                        st.env[a] = v
                        continue
                st.env[a] = self.fresh('hv', st, self.is_int_lin(ev, st), loose=True)
            else:
                st.env[a] = UNK

    def loop(self, f, nid, n, states):
        """a counted loop is entered once with its counter as a symbol in range; anything else: body once with the
        assigned variables unknown."""
        k = n['k']
        out = []
        for st in states:
            body = n.get('body', -1)
            assigned = self.assigned_in(f, nid)
            handled = False
            if k == 'ForStmt' and n.get('init', -1) >= 0 and n.get('cond', -1) >= 0:
                init = f.nodes[n['init']]
                if init['k'] == 'DeclStmt' and len(init['decls']) == 1 and init['decls'][0].get('init', -1) >= 0:
                    d = init['decls'][0]
                    cn = f.nodes[f.strip_casts(n['cond'])]
                    inc = f.nodes[f.strip(n['inc'])] if n.get('inc', -1) is not None and n.get('inc', -1) >= 0 else None
                    body_assigns = self.assigned_in(f, body) if body >= 0 else set()
                    for lo, s0 in self.ev(f, d['init'], st.copy()):
                        if not isinstance(lo, Lin) or d['d'] in body_assigns:
                            continue
                        # for (T v = lo; v < hi | v <= hi; ++v)
                        if cn['k'] == 'BinaryOperator' and cn['op'] in ('<', '<=') and inc is not None and \
                                inc['k'] == 'UnaryOperator' and inc['op'] == '++':
                            ln = f.nodes[f.strip_casts(cn['ch'][0])]
                            if ln['k'] == 'DeclRefExpr' and ln.get('d') == d['d']:
                                for hi, s1 in self.ev(f, cn['ch'][1], s0):
                                    if not isinstance(hi, Lin):
                                        continue
                                    s2 = s1.copy()
                                    v = self.fresh(d['name'] if 'name' in d else 'i', s2, True, loose=False)
                                    s2.sys.add_le(lo, v)
                                    if cn['op'] == '<':
                                        s2.sys.add_lt(v, hi)
                                    else:
                                        s2.sys.add_le(v, hi)
                                    self.havoc_loop_vars(f, body, assigned - {d['d']}, s1, s2)
                                    s2.env[d['d']] = v
                                    if s2.sys.feasible():
                                        self.ex(f, body, [s2])        # obligations inside the body
                                    handled = True
                        # for (T v = n; v--;)
                        elif cn['k'] == 'UnaryOperator' and cn['op'] == '--' and cn.get('postfix'):
                            ln = f.nodes[f.strip_casts(cn['ch'][0])]
                            if ln['k'] == 'DeclRefExpr' and ln.get('d') == d['d']:
                                s2 = s0.copy()
                                v = self.fresh('i', s2, True, loose=False)
                                s2.sys.add_le(Lin.const(0), v)
                                s2.sys.add_lt(v, lo)
                                self.havoc_loop_vars(f, body, assigned - {d['d']}, s0, s2)
                                s2.env[d['d']] = v
                                if s2.sys.feasible():
                                    self.ex(f, body, [s2])
                                handled = True
            if not handled and body >= 0:
                s2 = st.copy()
                self.havoc_loop_vars(f, body, assigned, st, s2)
                self.ex(f, body, [s2])
            # after the loop: everything assigned in it is unknown (up to the shrink invariant)
            s3 = st.copy()
            self.havoc_loop_vars(f, body, assigned, st, s3)
            out.append(s3)
        return out

    # hooks ---------------------------------------------------------------
    def call(self, f, nid, n, st):
        out = [st]
        for a in n.get('args', []):
            nxt = []
            for s in out:
                nxt += [s2 for _, s2 in self.ev(f, a, s)]
            out = nxt
        return [(UNK, s) for s in out]

    def subscript(self, f, nid, n, st):
        out = []
        for _, s1 in self.ev(f, n['ch'][0], st):
            for _, s2 in self.ev(f, n['ch'][1], s1):
                out.append((UNK, s2))
        return out
