"""LIC engine: licence / taint dataflow for conditionally initialised storage.

Every tracked storage cell v (a local declared without initialiser, a local bound to a conditionally
written output position, a data member whose initialisation depends on object state) carries an
*uninit-condition* U(v): a DNF over stable literals describing when v holds no defined value.
Reading v is not an error; the condition travels with the value (taint).  At a sink (store to an
output argument, return value, branch condition, array index) with path facts Phi the obligation is
that Phi /\\ U(value) is unsatisfiable, modulo the enumerator axioms (A-ENUM-UNION).
"""
from .flow import (Flow, BV, TRUE, FALSE, NBITS, ASSIGN_OPS, dnf_and, dnf_or, dnf_not, var_key, is_intlike)

SCALAR_T = ('double', 'float', 'long double', 'int', 'unsigned int', 'bool', 'long', 'unsigned long',
            'long long', 'unsigned long long', 'short', 'unsigned short', 'char', 'unsigned char')
CALLS = ('CallExpr', 'CXXMemberCallExpr', 'CXXOperatorCallExpr', 'CXXConstructExpr', 'CXXTemporaryObjectExpr')
CAP = 160
DECL = ('@decl', True)       # marks conjunctions that describe 'declared, not yet assigned on this path'
MASKDECL = ('@maskdecl', True)   # the placeholder is in place because a gating mask test failed
DECL_TRUE = frozenset([frozenset([DECL])])


def is_scalar_t(t):
    t = t.replace('const ', '').strip()
    if t.endswith(']'):
        t = t[:t.index('[')].strip()
    return t in SCALAR_T


def relevant_atom(a):
    """atoms that can serve as a licence: mask bits, boolean flags / parameters, sentinel predicates."""
    if a.startswith('b:'):
        return True
    if a.startswith('u:') or a.startswith('eq:'):
        return False
    if '(' in a:
        return a.endswith('(this)') and a.count('(') == 1
    return True


def merge_complementary(d):
    """simplify a DNF by iterated consensus + absorption (prime implicants, bounded)."""
    s = set(d)
    if len(s) <= 1:
        return frozenset(s)

    def absorb(cs):
        out = []
        for c in sorted(cs, key=len):
            # a conjunction that carries the mask-gating marker is kept beside an unmarked weaker one: the marker
            # records *why* the placeholder is in place, which the weaker conjunction does not
            if any(o <= c and ((MASKDECL in o) == (MASKDECL in c)) for o in out):
                continue
            out.append(c)
        return out
    cur = absorb(s)
    for _ in range(6):
        if len(cur) > 60:
            break
        added = False
        cs = set(cur)
        n = len(cur)
        for i in range(n):
            a = cur[i]
            for j in range(i + 1, n):
                b = cur[j]
                if (MASKDECL in a) != (MASKDECL in b):
                    continue          # consensus would smear the marker over conjunctions it does not explain
                opp = None
                bad = False
                for l in a:
                    if (l[0], not l[1]) in b:
                        if opp is not None:
                            bad = True
                            break
                        opp = l
                if bad or opp is None:
                    continue
                z = (a - {opp}) | (b - {(opp[0], not opp[1])})
                if z not in cs and not any(o <= z for o in cur):
                    cs.add(z)
                    added = True
        if not added:
            break
        cur = absorb(cs)
    return frozenset(cur)


def d_or(a, b):
    if a == FALSE:
        return b
    if b == FALSE:
        return a
    r = merge_complementary(set(a) | set(b))
    if len(r) > CAP:
        return TRUE       # too big: give up precision soundly (maybe uninitialised)
    return r


def d_and(a, b):
    if a == FALSE or b == FALSE:
        return FALSE
    out = set()
    for x in a:
        for y in b:
            z = x | y
            if any((l[0], not l[1]) in z for l in z):
                continue
            out.add(z)
    r = merge_complementary(out)
    if len(r) > CAP:
        return a if len(a) <= len(b) else b    # weaker condition: sound, less precise
    return r


def d_not(a):
    r = dnf_not(a, CAP)
    return r      # may be None: unknown


class Axioms:
    """A-ENUM-UNION for one class: output bit o of a mask implies the capability bits of its enumerator."""

    def __init__(self, enum_values, out_mask=0xFF80):
        self.imp = {}     # out bit -> set of cap bits
        for name, v in enum_values.items():
            o = v & out_mask
            c = v & ~out_mask & 0xFFFF
            if o and (o & (o - 1)) == 0 and c:
                ob = o.bit_length() - 1
                caps = {k for k in range(16) if (c >> k) & 1}
                self.imp.setdefault(ob, set()).update(caps)

    def close(self, lits):
        """close a conjunction under the axioms; returns None if inconsistent."""
        s = set(lits)
        changed = True
        while changed:
            changed = False
            for a, pol in list(s):
                if not a.startswith('b:'):
                    continue
                base, k = a.rsplit(':', 1)
                k = int(k)
                if pol and k in self.imp:
                    for c in self.imp[k]:
                        l = ('%s:%d' % (base, c), True)
                        if l not in s:
                            s.add(l)
                            changed = True
                if not pol:
                    for o, cs in self.imp.items():
                        if k in cs:
                            l = ('%s:%d' % (base, o), False)
                            if l not in s:
                                s.add(l)
                                changed = True
        for a, pol in s:
            if (a, not pol) in s:
                return None
        return s


class NoAxioms:
    def close(self, lits):
        s = set(lits)
        for a, pol in s:
            if (a, not pol) in s:
                return None
        return s


def satisfiable(alts, cond, ax):
    """is Phi /\\ cond satisfiable?  returns a witness conjunction or None."""
    if cond == FALSE:
        return None
    for a in alts:
        for c in cond:
            z = ax.close(a | c)
            if z is not None:
                return sorted(a | c)
    return None


class Lic:
    def __init__(self, ctx, fn, flow, member_U=None, gated=None, ax=None, entry_U=None,
                 line_caps=None, init_mode=False, member_writes=None, stale_zero=False, key_bits=None):
        """member_U: 'this.m' -> DNF (object initialisation condition, in this-atoms)
        gated: usr -> (fn, cls, maskpos, {outpos: bit})   gated callees
        line_caps: varkey of a line object -> BV of its construction caps (M5)
        init_mode: analysing a constructor / init method: members start uninitialised"""
        self.ctx = ctx
        self.fn = fn
        self.fl = flow
        self.member_U = dict(member_U or {})
        self.gated = gated or {}
        self.ax = ax or NoAxioms()
        self.line_caps = line_caps or {}
        self.init_mode = init_mode
        self.member_writes = member_writes or {}
        self.state_in = {}
        self.reports = []
        self.exit_states = []
        self.nsinks = 0
        self.nreads = 0
        self.entry_U = dict(entry_U or {})
        self._pc_cache = {}
        self.stale_zero = stale_zero
        self.key_bits = key_bits or {}
        self.zero_then_assigned = self._zero_then_assigned() if stale_zero else set()
        self.mask_only_keys = set()
        self.gating = {}
        if stale_zero == 'mask':
            self.zero_then_assigned = self._mask_gated_placeholders()
            self.mask_only_keys = {'v:' + d for d in self.zero_then_assigned}
        if stale_zero == 'mask2':
            self.zero_then_assigned, self.gating = self._mask_gated_any()
            self.mask_only_keys = {'v:' + d for d in self.zero_then_assigned}
        if fn.cfg:
            self._solve()

    def _zero_then_assigned(self):
        """float locals declared '= 0' that are assigned again somewhere under an if."""
        fn = self.fn
        zero = {}
        for i, n in fn.all_nodes():
            if n['k'] == 'DeclStmt':
                for d in n['decls']:
                    if d.get('init', -1) >= 0 and d['t'].replace('const ', '') in ('double', 'float', 'long double'):
                        init = fn.nodes[fn.strip_casts(d['init'])]
                        if init['k'] in ('IntegerLiteral', 'FloatingLiteral') and float(init['v']) == 0:
                            zero[d['d']] = i
        out = set()
        for i, n in fn.all_nodes():
            if n['k'] in ('BinaryOperator',) and n.get('op') == '=':
                ln = fn.nodes[fn.strip(n['ch'][0])]
                if ln['k'] == 'DeclRefExpr' and ln.get('d') in zero:
                    if any(fn.nodes[a]['k'] == 'IfStmt' for a in fn.ancestors(i)):
                        out.add(ln['d'])
        return out

    def _mask_gated_placeholders(self):
        """float locals declared with a literal placeholder (`= 0`) whose every later assignment is on paths that
        establish at least one bit of an incoming mask: the placeholder is what a caller gets who did not
        request those bits, so it must never reach a sink on a path that does not establish them (rule M7)."""
        fn = self.fn
        cand = self._zero_then_assigned_any()
        out = set()
        for d, sites in cand.items():
            ok = bool(sites)
            for i in sites:
                if not self._under_mask_test(i):
                    ok = False
                    break
            if ok:
                out.add(d)
        return out

    def _mask_gated_any(self):
        """placeholders with at least one assignment inside the then-branch of a pure mask test (anywhere); returns
        (candidates, {'v:decl': set of CFG blocks whose terminator is such a gating test})."""
        fn = self.fn
        cand = self._zero_then_assigned_any()
        cond_block = {}
        for b, blk in fn.blocks.items():
            c = blk.get('cond')
            if c is not None:
                cond_block[fn.strip_casts(c)] = b
                cond_block[c] = b
        out = set()
        gating = {}
        for d, sites in cand.items():
            for i in sites:
                child = i
                for a in fn.ancestors(i):
                    an = fn.nodes[a]
                    if an['k'] == 'IfStmt' and an.get('then', -1) >= 0 and child == an['then']:
                        pure, has_and = self._pure_mask_cond(an['cond'], 0)
                        if pure and has_and:
                            b = cond_block.get(an['cond'], cond_block.get(fn.strip_casts(an['cond'])))
                            if b is not None:
                                out.add(d)
                                gating.setdefault('v:' + d, set()).add(b)
                    child = a
        return out, gating

    def _under_mask_test(self, nid):
        """is node nid nested in at least one if whose condition is a pure test of mask bits (x & CONST), and in
        no other conditional construct?  (a placeholder that is also governed by a data condition - the
        `somg12 == 2` sentinel protocol - is not decided by this rule)"""
        fn = self.fn
        child = nid
        found = False
        for a in fn.ancestors(nid):
            an = fn.nodes[a]
            k = an['k']
            if k in ('ForStmt', 'WhileStmt', 'DoStmt', 'SwitchStmt', 'ConditionalOperator', 'CXXForRangeStmt'):
                return False
            if k == 'IfStmt' and child != an.get('cond'):
                in_then = an.get('then', -1) >= 0 and (child == an['then'])
                pure, has_and = self._pure_mask_cond(an['cond'], 0)
                if not (pure and has_and and in_then):
                    return False
                found = True
            child = a
        return found

    def _pure_mask_cond(self, cond, depth):
        """(pure, has_and): the condition mentions only mask words (unsigned), constants, and bool locals that are
        themselves defined once by such a condition (`const bool want = (outmask & X) != 0;`)."""
        fn = self.fn
        pure, has_and = True, False
        for j in fn.walk(cond):
            jn = fn.nodes[j]
            if jn['k'] == 'BinaryOperator' and jn.get('op') == '&':
                has_and = True
            if jn['k'] == 'DeclRefExpr' and 'cv' not in jn and jn.get('rk') in ('param', 'local') and \
                    'unsigned' not in jn.get('t', ''):
                ok = False
                if jn.get('rk') == 'local' and jn.get('t', '').replace('const ', '') == 'bool' and depth < 3:
                    d = self._single_def(jn['d'])
                    if d is not None:
                        p2, a2 = self._pure_mask_cond(d, depth + 1)
                        if p2 and a2:
                            ok = True
                            has_and = True
                if not ok:
                    pure = False
            if jn['k'] in ('MemberExpr', 'CallExpr', 'CXXMemberCallExpr') and 'cv' not in jn:
                pure = False
        return pure, has_and

    def _single_def(self, d):
        """initialiser node of local d if that is its only definition."""
        fn = self.fn
        init = None
        for i, n in fn.all_nodes():
            if n['k'] == 'DeclStmt':
                for dd in n['decls']:
                    if dd['d'] == d and dd.get('init', -1) >= 0:
                        init = dd['init']
            elif n['k'] in ('BinaryOperator', 'CompoundAssignOperator') and n.get('op') in ASSIGN_OPS:
                ln = fn.nodes[fn.strip(n['ch'][0])]
                if ln['k'] == 'DeclRefExpr' and ln.get('d') == d:
                    return None
        return init

    def _zero_then_assigned_any(self):
        fn = self.fn
        zero = {}
        for i, n in fn.all_nodes():
            if n['k'] == 'DeclStmt':
                for d in n['decls']:
                    if d.get('init', -1) >= 0 and d['t'].replace('const ', '') in ('double', 'float', 'long double'):
                        init = fn.nodes[fn.strip_casts(d['init'])]
                        if init['k'] in ('IntegerLiteral', 'FloatingLiteral') and float(init['v']) == 0:
                            zero[d['d']] = []
                        elif init['k'] == 'CallExpr' and (init.get('callee') or {}).get('q') == 'GeographicLib::Math::NaN':
                            zero[d['d']] = []      # `real lon2x = Math::NaN();` is a placeholder just like `= 0`
        for i, n in fn.all_nodes():
            if n['k'] in ('BinaryOperator', 'CompoundAssignOperator') and n.get('op') in ASSIGN_OPS:
                ln = fn.nodes[fn.strip(n['ch'][0])]
                if ln['k'] == 'DeclRefExpr' and ln.get('d') in zero:
                    zero[ln['d']].append(i)
            elif n.get('callee') and n.get('args'):
                pk = (n['callee'] or {}).get('pk', [])
                off = 1 if (n.get('ckind') == 'operator' and n['callee'].get('method')) else 0
                for ai, a in enumerate(n['args'][off:]):
                    if ai < len(pk) and pk[ai] in ('r', 'p'):
                        an = fn.nodes[fn.strip(a)]
                        if an['k'] == 'DeclRefExpr' and an.get('d') in zero:
                            zero[an['d']].append(i)
        return zero

    # ------------------------------------------------------------------ state helpers
    def U(self, st, key):
        if key in st:
            return st[key]
        if key.startswith('this.'):
            return self.member_U.get(key, FALSE)
        return FALSE

    def value_U(self, nid, st):
        """uninit-condition of the value of expression nid (structural; only real reads count)."""
        fn = self.fn
        if nid is None or nid < 0:
            return FALSE
        n = fn.nodes[nid]
        k = n['k']
        if 'cv' in n and k not in CALLS:
            return FALSE
        if k in ('DeclRefExpr', 'MemberExpr'):
            key = self.read_key(nid)
            if key is None:
                if k == 'MemberExpr' and n['ch']:
                    return self.value_U(n['ch'][0], st)
                return FALSE
            uu = self.U(st, key)
            if uu != FALSE:
                self.nreads += 1
                uu = frozenset(c - {DECL} for c in uu)
                uu = d_and(uu, self.path_cond(nid))
            return uu
        if k in ('BinaryOperator', 'CompoundAssignOperator') and n.get('op') in ASSIGN_OPS:
            u = self.value_U(n['ch'][1], st)
            if n['op'] != '=':
                u = d_or(u, self.value_U(n['ch'][0], st))
            return u
        if k == 'UnaryOperator' and n.get('op') == '&':
            return FALSE          # address taken, not read
        if k == 'ConditionalOperator':
            uc = self.value_U(n['cond'], st)
            ua = self.value_U(n['then'], st)
            ub = self.value_U(n['else'], st)
            if ua == FALSE and ub == FALSE:
                return uc
            pos, neg = self.fl.cond2(n['cond'], self.fl.env_at(nid))
            loc = self.fl.locate(nid)
            blk = loc[0] if loc else None

            def stab(d):
                if d is None or blk is None:
                    return None
                r = frozenset(frozenset(l for l in c if relevant_atom(l[0])) for c in d)
                return None if frozenset() in r else r
            ps, ns = stab(pos), stab(neg)
            if ua != FALSE and ps is not None:
                ua = d_and(ua, ps)
            if ub != FALSE and ns is not None:
                ub = d_and(ub, ns)
            return d_or(uc, d_or(ua, ub))
        if k in CALLS:
            ce = n.get('callee') or {}
            args = n.get('args', [])
            off = 1 if (n.get('ckind') == 'operator' and ce.get('method')) else 0
            pk = ce.get('pk', [])
            u = FALSE
            for ai, a in enumerate(args):
                j = ai - off
                kind = pk[j] if 0 <= j < len(pk) else 'v'
                if kind in ('r', 'p'):
                    continue
                u = d_or(u, self.value_U(a, st))
            if n.get('ckind') == 'member' and 'obj' in n and not n.get('objthis'):
                u = d_or(u, self.value_U(n['obj'], st))
            if n.get('ckind') == 'construct':
                cf = self.ctx.prog.fns.get(ce.get('usr'))
                if cf is not None and cf.access == 'private' and not cf.params and \
                        not self.member_writes.get(cf.usr) and \
                        not any(i.get('written') for i in cf.d.get('inits', [])):
                    return TRUE       # private do-nothing constructor: an uninitialised object
            return u
        if k == 'ArraySubscriptExpr':
            return d_or(self.value_U(n['ch'][0], st), self.value_U(n['ch'][1], st))
        if k in ('UnaryExprOrTypeTraitExpr', 'CXXThisExpr', 'LambdaExpr'):
            return FALSE
        u = FALSE
        for c in n['ch']:
            u = d_or(u, self.value_U(c, st))
        return u

    def path_cond(self, nid):
        """licence-relevant part of the path facts at node nid (a DNF)."""
        loc = self.fl.locate(nid)
        key = loc if loc is not None else nid
        c = self._pc_cache.get(key)
        if c is None:
            alts = self.fl.facts_at(nid)
            if not alts:
                c = TRUE
            else:
                must = frozenset.intersection(*alts)
                c = frozenset([frozenset(l for l in must if relevant_atom(l[0]))])
            self._pc_cache[key] = c
        return c

    def _stable_here(self, atom):
        # atoms over this-members in const methods and over never-assigned parameters
        return self.fl.stable_atom(atom)

    def read_key(self, nid):
        fn = self.fn
        n = fn.nodes[nid]
        if n['k'] == 'DeclRefExpr' and n.get('rk') in ('local', 'param'):
            return 'v:' + n['d']
        if n['k'] == 'MemberExpr' and n.get('mk') == 'field' and n.get('thisbase'):
            return 'this.' + n['m']
        return None

    def lvalue_key(self, nid):
        """(key, whole?) of an lvalue expression: variable/member, or element of an array variable."""
        fn = self.fn
        nid = fn.strip(nid)
        n = fn.nodes[nid]
        if n['k'] in ('DeclRefExpr', 'MemberExpr'):
            k = self.read_key(nid)
            return (k, True) if k else (None, True)
        if n['k'] == 'ArraySubscriptExpr':
            k, _ = self.lvalue_key(n['ch'][0])
            return k, False
        if n['k'] == 'UnaryOperator' and n['op'] in ('&', '*'):
            k, w = self.lvalue_key(n['ch'][0])
            return k, w and n['op'] == '&'
        if n['k'] in ('ImplicitCastExpr',) and n['ch']:
            return self.lvalue_key(n['ch'][0])
        if n['k'] == 'BinaryOperator' and n['op'] in ('+', '-') and n.get('t', '').endswith('*'):
            k, _ = self.lvalue_key(n['ch'][0])
            return k, False
        if n['k'] == 'CXXMemberCallExpr' and (n.get('callee') or {}).get('name') == 'data' and 'obj' in n:
            k, _ = self.lvalue_key(n['obj'])
            return k, False
        return None, True

    # ------------------------------------------------------------------ transfer
    def transfer(self, e, st, check):
        fn = self.fn
        n = fn.nodes[e]
        k = n['k']
        if k == 'DeclStmt':
            for d in n['decls']:
                if d.get('static_local'):
                    continue
                key = 'v:' + d['d']
                if d.get('init', -1) >= 0:
                    if self.stale_zero and d['d'] in self.zero_then_assigned:
                        # "= 0 to avoid a warning" is not a definition when the variable is also
                        # assigned under a condition: the zero must never be consumed (rule L4)
                        st[key] = DECL_TRUE
                    else:
                        st[key] = self.value_U(d['init'], st)
                elif is_scalar_t(d['t']):
                    st[key] = DECL_TRUE
            return
        if k in ('BinaryOperator', 'CompoundAssignOperator') and n.get('op') in ASSIGN_OPS:
            key, whole = self.lvalue_key(n['ch'][0])
            vu = self.value_U(n['ch'][1], st)
            if n['op'] != '=':
                vu = d_or(vu, self.value_U(n['ch'][0], st))
            if check:
                self.sink_store(e, n['ch'][0], vu)
                if not self.init_mode and key is not None and key.startswith('this.'):
                    self.sink(e, vu, 'value stored into member %s' % key[5:])
                # index expressions of the destination
                self.sink_indices(e, n['ch'][0], st)
            if key is not None:
                if whole:
                    st[key] = vu
                else:
                    # element store: treat the array as initialised once any element is written
                    st[key] = d_and(self.U(st, key), vu) if vu != FALSE else FALSE
            return
        if k == 'UnaryOperator' and n.get('op') in ('++', '--'):
            return
        if k in CALLS:
            self.transfer_call(e, n, st, check)
            return
        if k == 'ReturnStmt' and check and n.get('val', -1) >= 0:
            vu = self.value_U(n['val'], st)
            self.sink(e, vu, 'return value')
            return
        if k == 'ArraySubscriptExpr' and check:
            vu = self.value_U(n['ch'][1], st)
            self.sink(e, vu, 'array index')

    def transfer_call(self, e, n, st, check):
        fn = self.fn
        ce = n.get('callee') or {}
        args = n.get('args', [])
        off = 1 if (n.get('ckind') == 'operator' and ce.get('method')) else 0
        pk = ce.get('pk', [])
        cu = ce.get('usr')
        g = self.gated.get(cu)
        env = None
        inputs_U = None
        for ai, a in enumerate(args):
            j = ai - off
            if j < 0 or j >= len(pk):
                continue
            if pk[j] not in ('r', 'p'):
                continue
            key, whole = self.lvalue_key(a)
            if key is None:
                continue
            if g is not None and j in g[3]:
                bit = g[3][j]
                if g[2] is None:
                    cond = TRUE if g[4].get(j) else FALSE     # forwarding overload with a constant mask
                else:
                    if env is None:
                        env = self.fl.env_at(e)
                    bv = self.fl.eval_bv(args[g[2]], env)
                    cond = bv.bits[bit]
                # a line object asked for what it was not built with writes nothing
                okey = None
                if 'obj' in n:
                    okey = var_key(fn, n['obj'])
                if okey in self.line_caps:
                    cond = d_and(cond, self.line_caps[okey].bits[bit])
                old = self.U(st, key)
                nc = d_not(cond)
                if cond == TRUE:
                    st[key] = FALSE
                elif nc is None:
                    st[key] = old
                else:
                    st[key] = d_and(old, nc)
            else:
                callee = self.ctx.prog.fns.get(cu)
                if callee is None:
                    st[key] = FALSE        # external (sincos, frexp, swap ...): writes its outputs
                else:
                    if self.ctx.summaries.writes_param(cu, j):
                        if inputs_U is None:
                            inputs_U = FALSE
                            for bi, b in enumerate(args):
                                jj = bi - off
                                if 0 <= jj < len(pk) and pk[jj] in ('v', 'cr', 'cp'):
                                    inputs_U = d_or(inputs_U, self.value_U(b, st))
                        st[key] = inputs_U
        # a mutating call on an object: its by-value arguments flow into the object
        objn = None
        if n.get('ckind') == 'member' and 'obj' in n and not n.get('objthis') and not ce.get('mconst') and not ce.get('mstatic'):
            objn = n['obj']
            vargs = args
        elif n.get('ckind') == 'operator' and ce.get('method') and not ce.get('mconst') and args:
            objn = args[0]
            vargs = args[1:]
        if objn is not None:
            au = FALSE
            for ai, a in enumerate(vargs):
                kind = pk[ai] if ai < len(pk) else 'v'
                if kind in ('v', 'cr', 'cp', 'rr'):
                    au = d_or(au, self.value_U(a, st))
            if au != FALSE:
                okey, _ = self.lvalue_key(objn)
                if okey is not None and okey.startswith('this.') and not self.init_mode:
                    if check:
                        self.sink(e, au, 'value stored into member %s' % okey[5:])
                elif okey is not None:
                    st[okey] = d_or(self.U(st, okey), au)
        if check and n.get('ckind') == 'member' and 'obj' in n and not n.get('objthis'):
            on = fn.nodes[fn.strip(n['obj'])]
            if on['k'] == 'MemberExpr' and on.get('thisbase'):
                ou = self.U(st, 'this.' + on['m'])
                if ou != FALSE:
                    self.sink(e, ou, 'method call on member object %s' % on['m'])
        # non-const method call on this inside an initialising function: members it writes
        if self.init_mode and n.get('ckind') == 'member' and n.get('objthis') and not ce.get('mconst'):
            for m in self.member_writes.get(cu, ()):
                st['this.' + m] = FALSE

    # ------------------------------------------------------------------ sinks
    def sink_store(self, e, lhs, vu):
        fn = self.fn
        ln = fn.nodes[fn.strip(lhs)]
        root = ln
        while root['k'] in ('ArraySubscriptExpr', 'UnaryOperator', 'ImplicitCastExpr', 'ParenExpr') and root['ch']:
            root = fn.nodes[fn.strip(root['ch'][0])]
        if root['k'] == 'DeclRefExpr' and root.get('rk') == 'param':
            p = fn.params[root['pidx']]
            if p['pk'] in ('r', 'p'):
                self.sink(e, vu, 'store to output argument %s' % p['name'])

    def sink_indices(self, e, lhs, st):
        fn = self.fn
        for j in fn.walk(lhs):
            n = fn.nodes[j]
            if n['k'] == 'ArraySubscriptExpr':
                self.sink(e, self.value_U(n['ch'][1], st), 'array index')

    def sink(self, e, vu, what):
        self.nsinks += 1
        if vu == FALSE:
            return
        alts = self.fl.facts_at(e)
        if not alts:
            return
        alts = [a | self.entry_lits for a in alts]
        vu = frozenset(c - {DECL} for c in vu)
        if self.gating:
            vu = frozenset(c for c in vu if MASKDECL in c)      # only what the mask gating explains
            if not vu:
                return
        w = satisfiable(alts, vu, self.ax)
        if w is not None:
            self.reports.append((e, what, vu, w))

    # ------------------------------------------------------------------ solve
    def _backedge(self, b, s):
        idx = self._rpo_index
        return idx.get(s, 0) <= idx.get(b, 0)

    def _find_arrays(self):
        fn = self.fn
        arr = set()
        for i, n in fn.all_nodes():
            if n['k'] == 'DeclStmt':
                for d in n['decls']:
                    if d['t'].endswith(']') or d['t'].startswith('std::vector'):
                        arr.add('v:' + d['d'])
            elif n['k'] == 'MemberExpr' and n.get('thisbase') and n.get('mk') == 'field' and \
                    (n.get('t', '').endswith(']') or n.get('fpk') == 'a'):
                arr.add('this.' + n['m'])
        return arr

    def _solve(self):
        fn = self.fn
        fl = self.fl
        self.arrays = self._find_arrays()
        self._rpo_index = {b: i for i, b in enumerate(fl.rpo)}
        self.entry_lits = frozenset()
        entry = fn.cfg['entry']
        order = fl.rpo
        preds = {b: [] for b in order}
        for b in order:
            for s, edge in fl.edge_conds(b):
                if s in preds:
                    preds[s].append((b, edge))
        self.state_in = {entry: dict(self.entry_U)}
        out = {}
        for rnd in range(14):
            changed = False
            for b in order:
                if b != entry:
                    st_in = None
                    for p, edge in preds[b]:
                        if p not in out:
                            continue
                        contrib = self._edge_state(out[p], edge, p)
                        if contrib is None:
                            continue
                        st_in = contrib if st_in is None else self._join(st_in, contrib, p, b)
                    if st_in is None:
                        continue
                    if self.state_in.get(b) != st_in:
                        self.state_in[b] = st_in
                        changed = True
                elif b not in self.state_in:
                    continue
                st = dict(self.state_in[b])
                self._block(b, st, False)
                if out.get(b) != st:
                    out[b] = st
                    changed = True
            if not changed:
                break
        # checking pass
        for b in order:
            if b not in self.state_in:
                continue
            st = dict(self.state_in[b])
            self._block(b, st, True)
            blk = fn.blocks[b]
            if blk.get('cond') is not None and len(blk['succ']) == 2 and blk.get('termk') not in ('CXXTryStmt',):
                self.sink(blk['cond'], self.value_U(blk['cond'], st), 'branch condition')
            if b != fn.cfg['exit']:
                for s, edge in fl.edge_conds(b):
                    if s != fn.cfg['exit']:
                        continue
                    throws = blk.get('noreturn') or any(kind == 'stmt' and fn.nodes[e]['k'] == 'CXXThrowExpr'
                                                        for kind, e in fl._elts[b])
                    if not throws:
                        es = self._edge_state(st, edge, b)
                        if es is not None:
                            self.exit_states.append((b, es))

    def _edge_state(self, st, edge, blk=None):
        """state carried along a CFG edge: non-trivial uninit-conditions are conjoined with the
        licence-relevant literals of the branch taken."""
        if edge is None or edge == TRUE:
            return st
        if edge == FALSE:
            return None       # infeasible edge
        rel = merge_complementary(frozenset(frozenset(l for l in c if relevant_atom(l[0])) for c in edge))
        if frozenset() in rel or not rel:
            return st
        out = {}
        for key, u in st.items():
            if u == FALSE or not any(DECL in c for c in u):
                out[key] = u
                continue
            open_ = frozenset(c for c in u if DECL in c)
            rest = frozenset(c for c in u if DECL not in c)
            r2 = rel
            if key in self.mask_only_keys:
                # a mask-gated placeholder: only the mask bits say whether the caller asked for it
                r2 = merge_complementary(frozenset(frozenset(l for l in c if l[0].startswith('b:')) for c in rel))
                if frozenset() in r2 or not r2:
                    out[key] = u
                    continue
                if self.gating:
                    if blk is not None and blk in self.gating.get(key, ()):
                        # leaving the test that gates an assignment of this placeholder on the side where the bits
                        # are not set: from here on the placeholder is in place *because of the mask*
                        r2 = frozenset((c | {MASKDECL}) if any(not pol for a_, pol in c) else c for c in r2)
                    else:
                        out[key] = u          # other mask tests say nothing about this placeholder
                        continue
            bits = self.key_bits.get(key)
            if bits is not None:
                # only the mask bits that gate this cell matter for it; other bits would just multiply cases
                r2 = merge_complementary(frozenset(
                    frozenset(l for l in c if not l[0].startswith('b:') or int(l[0].rsplit(':', 1)[1]) in bits)
                    for c in rel))
                if frozenset() in r2:
                    out[key] = u
                    continue
            out[key] = d_or(rest, d_and(open_, r2))
        return out

    def _join(self, a, c, p, b):
        new = {}
        for key in set(a) | set(c):
            x = a.get(key)
            y = c.get(key)
            if x is None and key.startswith('this.'):
                x = self.U({}, key)
            if y is None and key.startswith('this.'):
                y = self.U({}, key)
            if x is None or y is None:
                v = x if y is None else y       # declared on one path only
            elif key in self.arrays and (x == FALSE or y == FALSE) and x != y and self._is_loop_head(b):
                v = FALSE      # A-LOOP-FILL: a loop storing into an array runs and fills it
            else:
                v = d_or(x, y)
            new[key] = v
        return new

    def _is_loop_head(self, b):
        idx = self._rpo_index
        return any(idx.get(p, 0) >= idx.get(b, 0) for p in self.fl.preds.get(b, ()))

    def _weaken(self, e, st):
        """literals about a variable stop describing the path once it is assigned."""
        fl = self.fl
        keys = fl.written_keys(e)
        if not keys:
            return
        gen = None
        n = self.fn.nodes[e]
        if n['k'] == 'BinaryOperator' and n.get('op') == '=' and n.get('t', '').replace('const ', '') == 'bool':
            rn = self.fn.nodes[self.fn.strip(n['ch'][1])]
            lc = fl.canon.of(n['ch'][0])
            if lc is not None and ('cv' in rn or rn['k'] == 'CXXBoolLiteralExpr'):
                v = (int(rn['cv']) != 0) if 'cv' in rn else (rn['v'] == '1')
                fl.mentions[lc[0]] = lc[1]
                gen = (lc[0], v)
        for key, u in list(st.items()):
            if u == FALSE or u == TRUE and gen is None:
                continue
            nu = set()
            for c in u:
                z = frozenset(l for l in c if not fl._mentions(l[0], keys))
                if gen is not None:
                    z = z | {gen}
                nu.add(z)
            st[key] = merge_complementary(nu)

    def _block(self, b, st, check):
        fn = self.fn
        for kind, e in self.fl._elts[b]:
            if kind == 'stmt':
                self.transfer(e, st, check)
                self._weaken(e, st)
            else:
                it = fn.d['inits'][e]
                if it.get('kind') == 'member' and it['init'] >= 0:
                    st['this.' + it['m']] = self.value_U(it['init'], st)
                    init = fn.nodes[fn.strip(it['init'])]
                    if init['k'] in CALLS:
                        self.transfer_call(it['init'], init, st, check)
