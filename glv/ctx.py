"""Shared analysis context: program + lazily built engines."""
import os

from . import build, effects, flow


class Ctx:
    def __init__(self, tier='quick', precision=2, roles=('src', 'tools')):
        self.tier = tier
        self.prog = build.load_program(precision=precision, roles=roles)
        self._sum = None
        self._flows = {}
        self.repo = build.REPO

    @property
    def summaries(self):
        if self._sum is None:
            self._sum = effects.Summaries(self.prog)
            self._flows.update(self._sum.flows)
        return self._sum

    def flow(self, fn):
        fl = self._flows.get(fn.usr)
        if fl is None:
            fl = flow.Flow(fn)
            self._flows[fn.usr] = fl
        return fl

    def lib_fns(self):
        return self.prog.lib_fns(('src', 'include'))

    def rel(self, path):
        return os.path.relpath(path, self.repo) if path.startswith(self.repo) else path
