"""CG engine: access paths, write events, whole-program may-write summaries."""
from .flow import ASSIGN_OPS, Flow

CALL_KINDS = ('CallExpr', 'CXXMemberCallExpr', 'CXXOperatorCallExpr', 'CXXConstructExpr',
              'CXXTemporaryObjectExpr')
CONTAINER_ACCESS = {'data', 'begin', 'end', 'front', 'back', 'at', 'rbegin', 'rend', 'get',
                    'operator[]', 'operator*', 'operator->'}


class Path:
    __slots__ = ('root', 'steps')

    def __init__(self, root, steps=()):
        self.root = root
        self.steps = tuple(steps)

    def add(self, step):
        return Path(self.root, self.steps + (step,))

    def __repr__(self):
        return 'Path(%r,%r)' % (self.root, self.steps)


class FnEffects:
    """write events of one function (syntactic, alias-resolved one level)."""

    def __init__(self, prog, fn):
        self.prog = prog
        self.fn = fn
        self.local_init = {}   # decl id -> (init node, pk, type)
        for i, n in fn.all_nodes():
            if n['k'] == 'DeclStmt':
                for d in n['decls']:
                    self.local_init[d['d']] = d
        self._depth = 0

    # ------------------------------------------------------------------ paths
    def path(self, nid):
        fn = self.fn
        if nid is None or nid < 0:
            return Path(('temp',))
        nid = fn.strip(nid)
        n = fn.nodes[nid]
        k = n['k']
        if k == 'DeclRefExpr':
            rk = n.get('rk')
            if rk == 'param':
                return Path(('param', n['pidx']))
            if rk == 'local':
                d = self.local_init.get(n['d'])
                if d is not None and d.get('pk') in ('r', 'p', 'cr', 'cp', 'rr') and d.get('init', -1) >= 0 \
                        and self._depth < 6:
                    self._depth += 1
                    try:
                        p = self.path(d['init'])
                    finally:
                        self._depth -= 1
                    if d['pk'] in ('p', 'cp'):
                        # pointer variable: value is an address; model "p" as the pointee path
                        return p
                    return p
                return Path(('local', n['d']))
            if rk in ('global', 'smember'):
                return Path(('global', n.get('q', n['name']), n.get('vconst', False)))
            if rk == 'slocal':
                return Path(('slocal', n['name'], n.get('vconst', False), n['d']))
            return Path(('temp',))
        if k == 'CXXThisExpr':
            return Path(('this',))
        if k == 'MemberExpr':
            mk = n.get('mk')
            if mk == 'smember':
                return Path(('global', n.get('q', n['m']), False))
            if mk != 'field':
                return self.path(n['ch'][0]) if n['ch'] else Path(('temp',))
            base = self.path(n['ch'][0]) if n['ch'] else Path(('this',))
            if n.get('arrow') and base.root != ('this',) or (n.get('arrow') and base.steps):
                base = base.add(('deref',))
            return base.add(('field', n['cls'], n['m'], n.get('mutable', False), n.get('fpk', 'v')))
        if k == 'ArraySubscriptExpr':
            return self.path(n['ch'][0]).add(('index',))
        if k == 'UnaryOperator':
            if n['op'] == '*':
                return self.path(n['ch'][0]).add(('deref',))
            if n['op'] == '&':
                return self.path(n['ch'][0]).add(('addr',))
            if n['op'] in ('++', '--'):
                return self.path(n['ch'][0])
            return Path(('temp',))
        if k in ('BinaryOperator', 'CompoundAssignOperator'):
            if n['op'] in ASSIGN_OPS:
                return self.path(n['ch'][0])
            if n['op'] in ('+', '-'):   # pointer arithmetic
                t = n.get('t', '')
                if t.endswith('*'):
                    for c in n['ch']:
                        cn = fn.nodes[fn.strip(c)]
                        if cn.get('t', '').endswith('*') or cn.get('t', '').endswith(']'):
                            return self.path(c)
            if n['op'] == ',':
                return self.path(n['ch'][1])
            return Path(('temp',))
        if k == 'ConditionalOperator':
            # either branch: report the more "shared" one - approximate by then
            a = self.path(n['then'])
            b = self.path(n['else'])
            return a if a.root[0] not in ('temp', 'local') else b
        if k in ('ImplicitCastExpr', 'CStyleCastExpr', 'CXXStaticCastExpr', 'CXXFunctionalCastExpr',
                 'CXXConstCastExpr', 'CXXReinterpretCastExpr'):
            return self.path(n['ch'][0]) if n['ch'] else Path(('temp',))
        if k == 'CXXOperatorCallExpr':
            op = n.get('op')
            args = n.get('args', [])
            if op in ('[]', '*', '->') and args:
                return self.path(args[0]).add(('deref',) if op != '[]' else ('index',))
            if op in ('=', '+=', '-=', '*=', '/=', '<<', '>>') and args:
                return self.path(args[0])
            return Path(('temp',))
        if k == 'CXXMemberCallExpr':
            ce = n.get('callee') or {}
            if ce.get('name') in CONTAINER_ACCESS and 'obj' in n:
                return self.path(n['obj']).add(('index',))
            t = n.get('t', '')
            if n.get('lv') or t.endswith('*'):
                return Path(('callret', ce.get('usr', ''), ce.get('q', '')),
                            ())
            return Path(('temp',))
        if k == 'CallExpr':
            ce = n.get('callee') or {}
            t = n.get('t', '')
            if n.get('lv') or t.endswith('*'):
                return Path(('callret', ce.get('usr', ''), ce.get('q', '')))
            return Path(('temp',))
        return Path(('temp',))

    # ------------------------------------------------------------------ events
    def events(self):
        """yield (kind, node id, path, extra) for every potential write."""
        fn = self.fn
        out = []
        for i in fn.walk_all():
            n = fn.nodes[i]
            k = n['k']
            if (k in ('BinaryOperator', 'CompoundAssignOperator') and n['op'] in ASSIGN_OPS) or \
                    (k == 'UnaryOperator' and n['op'] in ('++', '--')):
                ln = fn.nodes[fn.strip(n['ch'][0])]
                if ln['k'] == 'DeclRefExpr' and ln.get('rk') in ('local', 'param') and \
                        ln.get('t', '').endswith('*'):
                    continue   # the pointer variable itself is private storage
                out.append(('store', i, self.path(n['ch'][0]), None))
            elif k in CALL_KINDS:
                ce = n.get('callee')
                args = n.get('args', [])
                ckind = n.get('ckind')
                if ce is None:
                    # indirect call (std::function, function pointer): arguments by value assumed
                    continue
                off = 0
                accessor = (not ce.get('inrepo')) and ce.get('name') in CONTAINER_ACCESS
                if ckind == 'operator' and ce.get('method'):
                    off = 1
                    if not ce.get('mconst') and not ce.get('mstatic') and args and not accessor:
                        out.append(('mcall', i, self.path(args[0]), ce))
                if ckind == 'member' and not ce.get('mconst') and not ce.get('mstatic') and 'obj' in n \
                        and not accessor:
                    out.append(('mcall', i, self.path(n['obj']), ce))
                if ckind == 'member' and ce.get('mconst') and 'obj' in n:
                    out.append(('ccall', i, self.path(n['obj']), ce))
                if ckind == 'operator' and ce.get('method') and ce.get('mconst') and args:
                    out.append(('ccall', i, self.path(args[0]), ce))
                pk = ce.get('pk', [])
                for ai, a in enumerate(args):
                    j = ai - off
                    if j < 0:
                        continue
                    kind = pk[j] if j < len(pk) else ('p' if ce.get('variadic') else 'v')
                    if kind in ('r', 'p', 'rr'):
                        # only lvalues / addresses matter
                        out.append(('argout', i, self.path(a), (ce, j)))
                    elif kind in ('cr', 'cp'):
                        out.append(('argin', i, self.path(a), (ce, j)))
                if ckind not in ('member', 'operator', 'construct'):
                    out.append(('fcall', i, None, ce))
                elif ckind == 'construct':
                    out.append(('ctor', i, None, ce))
                elif ckind == 'operator' and not ce.get('method'):
                    out.append(('fcall', i, None, ce))
                elif ce.get('mstatic'):
                    out.append(('fcall', i, None, ce))
        return out


def classify(path, fn, for_write=True):
    """shared-state classification of a written path inside function fn.

    returns list of items:
      ('mut', cls, field) ('ptr', cls, field) ('static', name) ('param', idx)
      ('this',) ('callret', usr, q) or [] for private storage."""
    root = path.root
    steps = path.steps
    items = []
    # net derefs: pointer-to-local cancels with addr
    first_mut = None
    ptr_field = None
    last_field = None
    for s in steps:
        if s[0] == 'field':
            if s[3] and first_mut is None:
                first_mut = s
            last_field = s
        elif s[0] in ('deref', 'index'):
            if last_field is not None and ptr_field is None:
                f = last_field
                # deref/index through a pointer-like member (raw, smart, reference, iterator)
                if f[4] in ('p', 'cp', 'r', 'cr') or s[0] == 'deref':
                    ptr_field = f
            last_field = None if s[0] == 'deref' else last_field
    r0 = root[0]
    if r0 == 'this':
        if first_mut is not None:
            items.append(('mut', first_mut[1], first_mut[2], 'this'))
        elif ptr_field is not None:
            items.append(('ptr', ptr_field[1], ptr_field[2], 'this'))
        else:
            items.append(('this',))
    elif r0 == 'param':
        idx = root[1]
        pk = fn.params[idx]['pk'] if idx < len(fn.params) else 'v'
        through = any(s[0] in ('deref', 'index') for s in steps)
        if pk in ('p', 'cp') and not through:
            return []   # the pointer parameter itself
        if pk in ('r', 'p', 'rr'):
            items.append(('param', idx))
            if first_mut is not None:
                items.append(('mut', first_mut[1], first_mut[2], 'ext'))
        elif pk in ('cr', 'cp'):
            if first_mut is not None:
                items.append(('mut', first_mut[1], first_mut[2], 'ext'))
            elif ptr_field is not None:
                items.append(('ptr', ptr_field[1], ptr_field[2], 'ext'))
            else:
                items.append(('param', idx))   # const param written?  only via cast; keep
        else:
            if ptr_field is not None:
                items.append(('ptr', ptr_field[1], ptr_field[2], 'ext'))
    elif r0 == 'global':
        if not root[2]:
            items.append(('static', root[1]))
    elif r0 == 'slocal':
        if not root[2]:
            items.append(('static', fn.q + '::' + root[1]))
    elif r0 == 'callret':
        items.append(('callret', root[1], root[2]))
    elif r0 == 'local':
        if ptr_field is not None:
            items.append(('ptr', ptr_field[1], ptr_field[2], 'ext'))
    return items


class Summaries:
    """whole-program may-write summaries: fn usr -> {item: gates}."""

    def __init__(self, prog, with_gates=True):
        self.prog = prog
        self.with_gates = with_gates
        self.eff = {}
        self.events = {}
        self.flows = {}
        self.W = {}
        self.retroots = {}
        self.callers = {}
        self.sites = {}     # (fn usr, item) -> list of (loc, description)
        self._compute()

    def flow(self, fn):
        fl = self.flows.get(fn.usr)
        if fl is None:
            fl = Flow(fn)
            self.flows[fn.usr] = fl
        return fl

    def gates_at(self, fn, nid):
        if not self.with_gates or not fn.cfg:
            return frozenset()
        mf = self.flow(fn).must_facts(nid)
        if mf is None:
            return None   # unreachable
        return frozenset(l for l in mf if l[0].startswith('this.') and l[0].count('.') == 1
                         and '(' not in l[0])

    def _ret_roots(self, fn):
        """items describing what a returned reference/pointer may refer to."""
        ef = self.eff[fn.usr]
        out = set()
        for i, n in fn.all_nodes():
            if n['k'] == 'ReturnStmt' and n.get('val', -1) >= 0:
                p = ef.path(n['val'])
                for it in classify(p, fn):
                    out.add(it)
        return out

    def _compute(self):
        prog = self.prog
        fns = list(prog.fns.values())
        for f in fns:
            ef = FnEffects(prog, f)
            self.eff[f.usr] = ef
            self.events[f.usr] = ef.events()
        for f in fns:
            t = f.d.get('ret', '')
            if t.endswith('&') or t.endswith('*'):
                self.retroots[f.usr] = self._ret_roots(f)
        # direct items
        W = {f.usr: {} for f in fns}
        calls = {f.usr: [] for f in fns}

        def add(fu, item, gates, loc, why):
            if gates is None:
                return False  # unreachable code
            cur = W[fu].get(item)
            new = gates if cur is None else (cur & gates)
            self.sites.setdefault((fu, item), [])
            if len(self.sites[(fu, item)]) < 4 and (loc, why) not in self.sites[(fu, item)]:
                self.sites[(fu, item)].append((loc, why))
            if cur is None or new != cur:
                W[fu][item] = new
                return True
            return False

        def resolve_callret(items):
            out = []
            for it in items:
                if it[0] == 'callret':
                    rr = self.retroots.get(it[1])
                    if rr is None:
                        continue   # external accessor (vector::operator[] ...) on a temp
                    for x in rr:
                        if x[0] in ('static', 'mut', 'ptr'):
                            out.append(x)
                else:
                    out.append(it)
            return out

        for f in fns:
            for kind, nid, path, extra in self.events[f.usr]:
                if kind == 'store':
                    for it in resolve_callret(classify(path, f)):
                        add(f.usr, it, self.gates_at(f, nid), f.loc(nid), 'store')
                elif kind == 'mcall':
                    ce = extra
                    callee = prog.fns.get(ce.get('usr'))
                    if callee is None:
                        # external / bodiless non-const method: assume it writes its object
                        for it in resolve_callret(classify(path, f)):
                            add(f.usr, it, self.gates_at(f, nid), f.loc(nid),
                                'non-const call %s' % ce.get('q'))
                    else:
                        calls[f.usr].append(('obj', nid, path, callee.usr))
                elif kind == 'ccall':
                    callee = prog.fns.get(extra.get('usr'))
                    if callee is not None:
                        calls[f.usr].append(('obj', nid, path, callee.usr))
                elif kind == 'argout':
                    ce, j = extra
                    callee = prog.fns.get(ce.get('usr'))
                    if callee is None:
                        for it in resolve_callret(classify(path, f)):
                            add(f.usr, it, self.gates_at(f, nid), f.loc(nid),
                                'passed to %s by non-const reference' % ce.get('q'))
                    else:
                        calls[f.usr].append(('arg', nid, path, callee.usr, j))
                elif kind == 'argin':
                    ce, j = extra
                    callee = prog.fns.get(ce.get('usr'))
                    if callee is not None:
                        calls[f.usr].append(('arg', nid, path, callee.usr, j))
                elif kind in ('fcall', 'ctor'):
                    callee = prog.fns.get(extra.get('usr'))
                    if callee is not None:
                        calls[f.usr].append(('plain', nid, None, callee.usr))
        self.calls = calls
        for fu, cs in calls.items():
            for c in cs:
                self.callers.setdefault(c[3], set()).add(fu)
        # fixpoint
        work = list(W)
        inwork = set(work)
        while work:
            fu = work.pop()
            inwork.discard(fu)
            f = prog.fns[fu]
            changed = False
            for c in calls[fu]:
                kind, nid, path, cu = c[0], c[1], c[2], c[3]
                cw = W.get(cu, {})
                if not cw:
                    continue
                site_g = None
                for item, g in list(cw.items()):
                    if item[0] in ('mut', 'ptr', 'static'):
                        if item[0] != 'static' and item[3] == 'this':
                            # the callee wrote state of its own object: whose object is it here?
                            if kind != 'obj' or path is None:
                                continue       # constructed object / no object: private
                            r0 = path.root[0]
                            if r0 in ('local', 'temp'):
                                continue
                            if r0 != 'this':
                                item = item[:3] + ('ext',)
                        if kind == 'obj' and path is not None and path.root == ('this',) and not path.steps:
                            if site_g is None:
                                site_g = self.gates_at(f, nid)
                            gg = None if site_g is None else (g | site_g)
                        elif kind == 'obj':
                            gg = g
                        else:
                            # free/static/ctor call or argument binding: callee gates describe the
                            # callee's own object; keep them (they describe the written object)
                            gg = g
                            if site_g is None:
                                site_g = self.gates_at(f, nid)
                            if site_g is None:
                                gg = None
                        if add(fu, item, gg, f.loc(nid), 'via %s' % prog.fns[cu].q):
                            changed = True
                    elif item[0] == 'this' and kind == 'obj':
                        if site_g is None:
                            site_g = self.gates_at(f, nid)
                        for it in resolve_callret(classify(path, f)):
                            if add(fu, it, site_g, f.loc(nid), 'via %s' % prog.fns[cu].q):
                                changed = True
                    elif item[0] == 'param' and kind == 'arg' and item[1] == c[4]:
                        if site_g is None:
                            site_g = self.gates_at(f, nid)
                        for it in resolve_callret(classify(path, f)):
                            if add(fu, it, site_g, f.loc(nid), 'via %s' % prog.fns[cu].q):
                                changed = True
            if changed:
                for caller in self.callers.get(fu, ()):
                    if caller not in inwork:
                        work.append(caller)
                        inwork.add(caller)
        self.W = W

    def writes_param(self, fu, idx):
        return ('param', idx) in self.W.get(fu, {})
