"""SYMPOLY: exact symbolic evaluation of small numerical kernels over polynomials with rational coefficients.

Nothing is executed: the function bodies (AST facts from glfacts) are interpreted with every floating operation
read as the exact operation on real numbers, every input a symbol, every path of `if` / `?:` explored.  What
comes out per path is, for each output, a polynomial in the inputs, together with the equalities the path
assumed (`s == 0`, `|d| == 180`).  The rules built on it (rules/conserve.py, rules/rotation.py) state algebraic
identities that the code must satisfy *before* rounding is considered - value conservation of the error-free
transformations (s + t = u + v), conservation modulo 360 of the angle reductions, orthonormality and
transposition of the rotation kernels.  They are necessary conditions of the numerical guarantees: a kernel that
is wrong over the reals is wrong in floating point, whereas a kernel that is right over the reals may still
lose accuracy - that part is not decided here.

Modelling:  remainder(z, P) with constant P = z + P*k for a fresh integer symbol k (a "period" symbol);
fabs(x) = a symbol tied to x, `fabs(x) == c` forks into x == c and x == -c;  copysign(a, b) forks into a and -a;
fma(a, b, c) = a*b + c;  other pure library functions = one symbol per distinct argument tuple;  a/b with a
non-constant b = a * inv(b);  callees with a body are inlined (bounded depth) unless a summary is registered.
"""
from fractions import Fraction

from .flow import is_intlike


class Unsupported(Exception):
    pass


class _Return(Exception):
    def __init__(self, val):
        self.val = val


class _Throw(Exception):
    pass


class _Break(Exception):
    pass


class Ptr:
    """pointer into an array: the key of the array and an element offset."""
    __slots__ = ('base', 'off')

    def __init__(self, base, off):
        self.base, self.off = base, off

    def __eq__(self, o):
        return isinstance(o, Ptr) and (self.base, self.off) == (o.base, o.off)

    def __hash__(self):
        return hash((self.base, self.off))


class Cx:
    """std::complex over polynomials."""
    __slots__ = ('re', 'im')

    def __init__(self, re, im):
        self.re, self.im = re, im

    @staticmethod
    def of(v):
        return v if isinstance(v, Cx) else Cx(v, Poly())

    def __add__(self, o):
        o = Cx.of(o)
        return Cx(self.re + o.re, self.im + o.im)

    def __sub__(self, o):
        o = Cx.of(o)
        return Cx(self.re - o.re, self.im - o.im)

    def __neg__(self):
        return Cx(-self.re, -self.im)

    def __mul__(self, o):
        o = Cx.of(o)
        return Cx(self.re * o.re - self.im * o.im, self.re * o.im + self.im * o.re)

    def div_real(self, p, ev):
        if p.is_const() and p.const_value() != 0:
            return Cx(self.re.scale(1 / p.const_value()), self.im.scale(1 / p.const_value()))
        inv = ev.pure('inv', [p])
        return Cx(self.re * inv, self.im * inv)


class Poly:
    __slots__ = ('t',)

    def __init__(self, t=None):
        self.t = {k: v for k, v in (t or {}).items() if v != 0}

    @staticmethod
    def const(c):
        return Poly({(): Fraction(c)})

    @staticmethod
    def sym(name):
        return Poly({((name, 1),): Fraction(1)})

    def is_const(self):
        return all(k == () for k in self.t)

    def const_value(self):
        return self.t.get((), Fraction(0))

    def is_zero(self):
        return not self.t

    def __add__(self, o):
        r = dict(self.t)
        for k, v in o.t.items():
            r[k] = r.get(k, 0) + v
        return Poly(r)

    def __neg__(self):
        return Poly({k: -v for k, v in self.t.items()})

    def __sub__(self, o):
        return self + (-o)

    def __mul__(self, o):
        if len(self.t) * len(o.t) > 100000:
            raise Unsupported('polynomial too large')
        r = {}
        for k1, v1 in self.t.items():
            for k2, v2 in o.t.items():
                m = dict(k1)
                for s, e in k2:
                    m[s] = m.get(s, 0) + e
                k = tuple(sorted(m.items()))
                r[k] = r.get(k, 0) + v1 * v2
        return Poly(r)

    def scale(self, c):
        return Poly({k: v * c for k, v in self.t.items()})

    def symbols(self):
        return {s for k in self.t for s, _ in k}

    def is_linear(self):
        return all(len(k) <= 1 and all(e == 1 for _, e in k) for k in self.t)

    def subst(self, sym, p):
        out = Poly()
        for k, v in self.t.items():
            e = dict(k).get(sym, 0)
            rest = tuple((s, x) for s, x in k if s != sym)
            term = Poly({rest: v})
            for _ in range(e):
                term = term * p
            out = out + term
        return out

    def coeff_of(self, sym):
        """polynomial c with self = c*sym + (terms without sym); only for self of degree <= 1 in sym."""
        out = {}
        for k, v in self.t.items():
            e = dict(k).get(sym, 0)
            if e == 1:
                out[tuple((s, x) for s, x in k if s != sym)] = v
            elif e > 1:
                raise Unsupported('degree > 1 in ' + sym)
        return Poly(out)

    def key(self):
        return tuple(sorted(self.t.items()))

    def __eq__(self, o):
        return isinstance(o, Poly) and self.t == o.t

    def __hash__(self):
        return hash(self.key())

    def show(self):
        if not self.t:
            return '0'
        out = []
        for k, v in sorted(self.t.items()):
            m = '*'.join(s if e == 1 else '%s^%d' % (s, e) for s, e in k)
            c = str(v)
            out.append(c if not m else (m if v == 1 else ('-' + m if v == -1 else c + '*' + m)))
        return ' + '.join(out).replace('+ -', '- ')


def reduce_units(p, pairs):
    """rewrite c^2 -> 1 - s^2 for every (s, c) of pairs until no c has an exponent above 1."""
    changed = True
    while changed:
        changed = False
        for s, c in pairs:
            out = Poly()
            for k, v in p.t.items():
                d = dict(k)
                e = d.get(c, 0)
                if e >= 2:
                    changed = True
                    d[c] = e - 2
                    if d[c] == 0:
                        del d[c]
                    base = Poly({tuple(sorted(d.items())): v})
                    out = out + base - base * Poly({((s, 2),): Fraction(1)})
                else:
                    out = out + Poly({k: v})
            p = out
    return p


def reduce_sqrt(p, pure_args):
    """rewrite sqrt(P)^2 -> P for the sqrt symbols recorded in pure_args."""
    for name, (fn, args) in pure_args.items():
        if fn != 'sqrt' or len(args) != 1:
            continue
        changed = True
        while changed:
            changed = False
            out = Poly()
            for k, v in p.t.items():
                d = dict(k)
                e = d.get(name, 0)
                if e >= 2:
                    changed = True
                    d[name] = e - 2
                    if d[name] == 0:
                        del d[name]
                    out = out + Poly({tuple(sorted(d.items())): v}) * args[0]
                else:
                    out = out + Poly({k: v})
            p = out
    return p


def rebuild(p, mapping, pure_args, out_args):
    """substitute symbols (also inside the arguments of function symbols, recursively); the function symbols of the
    result are entered into out_args."""
    res = Poly()
    for k, v in p.t.items():
        term = Poly.const(v)
        for s, e in k:
            if s in mapping:
                fac = mapping[s]
            elif s in pure_args:
                nm, args = pure_args[s]
                nargs = [rebuild(a, mapping, pure_args, out_args) if isinstance(a, Poly) else a for a in args]
                key = '%s(%s)' % (nm, ', '.join(a.show() for a in nargs))
                out_args[key] = (nm, nargs)
                fac = Poly.sym(key)
            else:
                fac = Poly.sym(s)
            for _ in range(e):
                term = term * fac
        res = res + term
    return res


def clear_inverses(p, pure_args):
    """multiply p by the arguments of its inv(..) symbols until none is left (p == 0 is preserved where they are
    non-zero)."""
    for _ in range(12):
        invs = [s for s in p.symbols() if s in pure_args and pure_args[s][0] == 'inv']
        if not invs:
            return p
        s = sorted(invs)[0]
        P = pure_args[s][1][0]
        deg = max(dict(k).get(s, 0) for k in p.t)
        out = Poly()
        for k, v in p.t.items():
            d = dict(k)
            e = d.pop(s, 0)
            term = Poly({tuple(sorted(d.items())): v})
            for _i in range(deg - e):
                term = term * P
            out = out + term
        p = out
    raise Unsupported('inverse symbols not cleared')


def entails_zero(target, eqs, periods=(), modulus=None):
    """is target == 0 (or an integer combination of modulus * period symbols) given the linear equalities eqs?"""
    pivots = []
    for e in eqs:
        for s, sub in pivots:
            if s in e.symbols():
                e = e.subst(s, sub)
        if e.is_zero() or not e.is_linear():
            continue
        cands = [s for s in sorted(e.symbols()) if s not in periods]
        if not cands:
            continue
        s = cands[0]
        c = e.t[((s, 1),)]
        rest = Poly({k: v for k, v in e.t.items() if k != ((s, 1),)})
        sub = rest.scale(Fraction(-1) / c)
        pivots = [(s0, p0.subst(s, sub)) for s0, p0 in pivots] + [(s, sub)]
    for s, sub in pivots:
        if s in target.symbols():
            target = target.subst(s, sub)
    if target.is_zero():
        return True, target
    if modulus is None:
        return False, target
    for k, v in target.t.items():
        if k == () or (len(k) == 1 and k[0][1] == 1 and k[0][0] in periods):
            q = v / Fraction(modulus)
            if q.denominator != 1:
                return False, target
        else:
            return False, target
    return True, target


PURE = {'sqrt', 'sin', 'cos', 'tan', 'atan', 'atan2', 'asin', 'acos', 'exp', 'log', 'sinh', 'cosh', 'tanh', 'asinh',
        'atanh', 'hypot', 'cbrt', 'log1p', 'expm1', 'floor', 'ceil', 'round', 'trunc', 'pow', 'fmin', 'fmax', 'min', 'max',
        'isfinite', 'isnan', 'signbit', 'isinf', 'remquo', 'rint', 'lround', 'sq'}

# odd functions with g(b) of the sign of b (sin only on |b| <= pi, which is where the library applies copysign to it)
ODD_SIGN_PRESERVING = {'sin', 'tan', 'sinh', 'tanh', 'asin', 'atan', 'asinh', 'atanh', 'cbrt'}

ODD_FUNCTIONS = {'sin', 'tan', 'sinh', 'tanh', 'asin', 'atan', 'asinh', 'atanh', 'cbrt', 'inv', 'sgn'}
EVEN_FUNCTIONS = {'cos', 'cosh', 'abs'}

TRANSPARENT = ('ParenExpr', 'ExprWithCleanups', 'MaterializeTemporaryExpr', 'CXXBindTemporaryExpr', 'ConstantExpr',
               'SubstNonTypeTemplateParmExpr', 'ImplicitCastExpr', 'CXXFunctionalCastExpr', 'CStyleCastExpr',
               'CXXStaticCastExpr')


class Path:
    def __init__(self, outcome, ret, env, eqs, periods, absof):
        self.outcome = outcome
        self.ret = ret
        self.env = env
        self.eqs = eqs
        self.periods = periods
        self.absof = absof


class Frame:
    def __init__(self, fn, thiskey, refs, depth):
        self.fn = fn
        self.thiskey = thiskey
        self.refs = refs
        self.depth = depth


class SymEval:
    def __init__(self, prog, summaries=None, max_depth=3, max_paths=512, inline=None, noinline=()):
        self.prog = prog
        self.summaries = summaries or {}
        self.max_depth = max_depth
        self.max_paths = max_paths
        self.inline = inline          # None = every callee with a body; else set of qualified names
        self.noinline = set(noinline)
        self.inline_free = False      # with an inline set: also inline functions that are not members of a class
        self.round_products = False   # a product of two non-constants (outside fma) is a fresh "rounded" symbol
        self.copysign_model = 'fork'  # or 'sgn': copysign(a, b) = |a| sgn(b) as symbols
        self.watch = set()            # ids of ConditionalOperator nodes whose chosen arm and value are recorded
        self.preset_outs = {}         # name of a variable handed to an uninterpreted call by address -> constant

    # ------------------------------------------------------------------ driver
    def explore(self, fn, preset=None, thiskey=('this',), inits_only=False):
        """all paths of fn; preset: {key: Poly} for inputs that are not to be plain symbols."""
        paths = []
        self.decisions = []
        while True:
            self.pos = 0
            self.env = dict(preset or {})
            self.eqs = []
            self.periods = set()
            self.absof = {}
            self.fresh = 0
            self.pure_cache = {}
            self.watched = []
            self.calls = []
            self.steps = 0
            fr = Frame(fn, thiskey, {}, 0)
            outcome, ret = 'return', None
            self.pure_args = {}
            try:
                for it in fn.d.get('inits', []):
                    if it.get('kind') == 'member' and it.get('init', -1) >= 0:
                        try:
                            self.env[thiskey + (it['m'],)] = self.ev(fr, it['init'])
                        except Unsupported:
                            if not inits_only:
                                raise
                            self.env[thiskey + (it['m'],)] = Poly.sym(self.newsym('uninterpreted'))
                if not inits_only:
                    self.ex(fr, fn.d['body'])
            except _Return as r:
                ret = r.val
            except _Throw:
                outcome = 'throw'
            paths.append(Path(outcome, ret, self.env, self.eqs, self.periods, self.absof))
            paths[-1].pure = dict(self.pure_cache)
            paths[-1].calls = list(self.calls)
            paths[-1].watched = list(self.watched)
            paths[-1].pure_args = dict(self.pure_args)
            if len(paths) > self.max_paths:
                raise Unsupported('more than %d paths in %s' % (self.max_paths, fn.q))
            # next decision vector
            while self.decisions and self.decisions[-1][0] + 1 >= self.decisions[-1][1]:
                self.decisions.pop()
            if not self.decisions:
                break
            self.decisions[-1] = (self.decisions[-1][0] + 1, self.decisions[-1][1])
        return paths

    def choose(self, n):
        if self.pos < len(self.decisions):
            v = self.decisions[self.pos][0]
        else:
            self.decisions.append((0, n))
            v = 0
        self.pos += 1
        return v

    def newsym(self, hint):
        self.fresh += 1
        return '%s#%d' % (hint, self.fresh)

    # ------------------------------------------------------------------ keys
    def keyname(self, key):
        parts = []
        for x in key[1:] if key[0] in ('v', 'this') else key:
            parts.append(('[%d]' % x) if isinstance(x, int) else
                         (str(x).rsplit('@', 1)[-1] if str(x).startswith('c:') else str(x).split('@')[0]))
        s = ''
        for p in parts:
            s += p if (p.startswith('[') or not s) else '.' + p
        return s

    def read(self, key):
        if key not in self.env:
            self.env[key] = Poly.sym(self.keyname(key))
        return self.env[key]

    def lvalue(self, fr, nid):
        f = fr.fn
        nid = f.strip(nid)
        n = f.nodes[nid]
        k = n['k']
        if k in TRANSPARENT and n['ch']:
            return self.lvalue(fr, n['ch'][0])
        if k == 'DeclRefExpr':
            d = n.get('d')
            if d in fr.refs:
                return fr.refs[d]
            return ('v', d)
        if k == 'MemberExpr':
            if n.get('thisbase'):
                return fr.thiskey + (n['m'],)
            if n['ch']:
                return self.lvalue(fr, n['ch'][0]) + (n['m'],)
        if k == 'ArraySubscriptExpr':
            idx = self.ev(fr, n['ch'][1])
            if not isinstance(idx, Poly) or not idx.is_const() or idx.const_value().denominator != 1:
                raise Unsupported('array index not constant at %s' % f.loc(nid))
            pv = self.ptr_value(fr, n['ch'][0])
            if pv is not None:
                return pv.base + (pv.off + int(idx.const_value()),)
            base = self.lvalue(fr, n['ch'][0])
            return base + (int(idx.const_value()),)
        if k == 'UnaryOperator' and n.get('op') == '*':
            pv = self.ptr_value(fr, n['ch'][0])
            if pv is not None:
                return pv.base + (pv.off,)
            return self.lvalue(fr, n['ch'][0])
        if k == 'CXXOperatorCallExpr' and (n.get('callee') or {}).get('name') == 'operator[]' and len(n.get('args', [])) == 2:
            base = self.lvalue(fr, n['args'][0])        # element of a std::vector / std::array
            idx = self.ev(fr, n['args'][1])
            if not isinstance(idx, Poly) or not idx.is_const() or idx.const_value().denominator != 1:
                raise Unsupported('container index not constant at %s' % f.loc(nid))
            return base + ('vec', int(idx.const_value()))
        if k == 'CXXThisExpr':
            return fr.thiskey
        raise Unsupported('lvalue %s at %s' % (k, f.loc(nid)))

    def ptr_value(self, fr, nid):
        """the Ptr an expression of pointer type evaluates to, or None (also performs ++/-- on pointers)."""
        f = fr.fn
        n = f.nodes[f.strip_casts(nid)]
        if not n.get('t', '').rstrip().endswith('*'):
            return None
        if n['k'] == 'DeclRefExpr' and n.get('rk') in ('param', 'local') and n.get('d') not in fr.refs:
            key = ('v', n['d'])
            if key not in self.env:
                self.env[key] = Ptr(key, 0)
            v = self.env[key]
            return v if isinstance(v, Ptr) else None
        if n['k'] == 'UnaryOperator' and n.get('op') in ('++', '--'):
            inner = f.nodes[f.strip_casts(n['ch'][0])]
            pv = self.ptr_value(fr, n['ch'][0])
            if pv is None or inner['k'] != 'DeclRefExpr':
                return None
            nv = Ptr(pv.base, pv.off + (1 if n['op'] == '++' else -1))
            self.env[('v', inner['d'])] = nv
            return pv if n.get('postfix') else nv
        if n['k'] == 'BinaryOperator' and n.get('op') in ('+', '-'):
            pv = self.ptr_value(fr, n['ch'][0])
            k = self.ev(fr, n['ch'][1])
            if pv is not None and isinstance(k, Poly) and k.is_const():
                d = int(k.const_value())
                return Ptr(pv.base, pv.off + (d if n['op'] == '+' else -d))
        return None

    # ------------------------------------------------------------------ statements
    def ex(self, fr, nid):
        if nid is None or nid < 0:
            return
        self.steps += 1
        if self.steps > 200000:
            raise Unsupported('step budget')
        f = fr.fn
        n = f.nodes[nid]
        k = n['k']
        if k == 'CompoundStmt':
            for c in n['ch']:
                self.ex(fr, c)
        elif k == 'DeclStmt':
            for d in n['decls']:
                if d.get('init', -1) >= 0:
                    self.env[('v', d['d'])] = self.ev(fr, d['init'])
                elif 'complex<' in d.get('t', ''):
                    self.env[('v', d['d'])] = Cx(Poly(), Poly())
        elif k == 'IfStmt':
            if self.cond(fr, n['cond']):
                self.ex(fr, n.get('then', -1))
            else:
                self.ex(fr, n.get('else', -1))
        elif k == 'ReturnStmt':
            raise _Return(self.ev(fr, n['val']) if n.get('val', -1) >= 0 else None)
        elif k in ('ForStmt', 'WhileStmt'):
            if k == 'ForStmt' and n.get('init', -1) >= 0:
                self.ex(fr, n['init'])
            trips = 0
            while True:
                if n.get('cond', -1) >= 0 and not self.cond(fr, n['cond'], must_decide=True):
                    break
                trips += 1
                if trips > 64:
                    raise Unsupported('loop does not end in 64 trips at %s' % f.loc(nid))
                try:
                    self.ex(fr, n.get('body', -1))
                except _Break:
                    break
                if k == 'ForStmt' and n.get('inc', -1) >= 0:
                    self.ev(fr, n['inc'])
        elif k in ('NullStmt',):
            pass
        elif k == 'SwitchStmt':
            self.switch(fr, nid, n)
        elif k == 'BreakStmt':
            raise _Break()
        elif k in ('DoStmt', 'CXXForRangeStmt', 'ContinueStmt', 'CXXTryStmt'):
            raise Unsupported('%s at %s' % (k, f.loc(nid)))
        else:
            self.ev(fr, nid)

    def switch(self, fr, nid, n):
        """switch over a compound body: a constant selector picks its label (or default); otherwise every label and
        the default are explored, with selector == label assumed."""
        f = fr.fn
        body = n.get('body', -1)
        if body < 0 or f.nodes[body]['k'] != 'CompoundStmt':
            raise Unsupported('switch without a compound body at %s' % f.loc(nid))
        sel = self.ev(fr, n['cond'])
        entries = []        # (label value or 'default', position in the body)
        stmts = []
        for c in f.nodes[body]['ch']:
            m = f.nodes[c]
            st = c
            while m['k'] in ('CaseStmt', 'DefaultStmt'):
                if m['k'] == 'CaseStmt':
                    lv = f.nodes[m['lhs']]
                    if 'cv' not in lv:
                        raise Unsupported('case label not constant at %s' % f.loc(c))
                    entries.append((int(lv['cv']), len(stmts)))
                    st = m.get('sub', -1)
                else:
                    entries.append(('default', len(stmts)))
                    st = m['ch'][0] if m['ch'] else -1
                if st < 0:
                    break
                m = f.nodes[st]
            if st >= 0:
                stmts.append(st)
        start = None
        if isinstance(sel, Poly) and sel.is_const():
            v = sel.const_value()
            for lab, pos in entries:
                if lab != 'default' and lab == v:
                    start = pos
            if start is None:
                for lab, pos in entries:
                    if lab == 'default':
                        start = pos
        else:
            labs = entries if any(l == 'default' for l, _ in entries) else entries + [('default', None)]
            lab, start = labs[self.choose(len(labs))]
            if lab != 'default' and isinstance(sel, Poly):
                self.eqs.append(sel - Poly.const(lab))
        if start is None:
            return
        try:
            for st in stmts[start:]:
                self.ex(fr, st)
        except _Break:
            pass

    # ------------------------------------------------------------------ conditions
    def cond(self, fr, nid, must_decide=False):
        f = fr.fn
        nid = f.strip_casts(nid)
        n = f.nodes[nid]
        k = n['k']
        if k in TRANSPARENT and n['ch']:
            return self.cond(fr, n['ch'][0], must_decide)
        if k == 'UnaryOperator' and n.get('op') == '!':
            return not self.cond(fr, n['ch'][0], must_decide)
        if k == 'BinaryOperator' and n['op'] == '&&':
            return self.cond(fr, n['ch'][0], must_decide) and self.cond(fr, n['ch'][1], must_decide)
        if k == 'BinaryOperator' and n['op'] == '||':
            return self.cond(fr, n['ch'][0], must_decide) or self.cond(fr, n['ch'][1], must_decide)
        if k == 'BinaryOperator' and n['op'] in ('==', '!=', '<', '<=', '>', '>='):
            a = self.ev(fr, n['ch'][0])
            b = self.ev(fr, n['ch'][1])
            if isinstance(a, Poly) and isinstance(b, Poly):
                d = a - b
                if d.is_const():
                    c = d.const_value()
                    return {'==': c == 0, '!=': c != 0, '<': c < 0, '<=': c <= 0, '>': c > 0, '>=': c >= 0}[n['op']]
                if must_decide:
                    raise Unsupported('loop condition not decided at %s' % f.loc(nid))
                if n['op'] in ('==', '!='):
                    eq = self.choose(2) == 0
                    if eq:
                        self.assume_equal(a, b)
                    return eq if n['op'] == '==' else not eq
            if must_decide:
                raise Unsupported('loop condition not decided at %s' % f.loc(nid))
            return self.choose(2) == 0
        v = self.ev(fr, nid)
        if isinstance(v, Poly) and v.is_const():
            return v.const_value() != 0
        if must_decide:
            raise Unsupported('loop condition not decided at %s' % f.loc(nid))
        # a boolean that was already decided on this path keeps its value
        if isinstance(v, Poly) and n.get('t', '').replace('const ', '').strip() == 'bool':
            for e in self.eqs:
                if (e - v).is_zero():
                    return False
                if (e - v + Poly.const(1)).is_zero():
                    return True
            r = self.choose(2) == 0
            self.eqs.append(v - Poly.const(1) if r else v)
            return r
        return self.choose(2) == 0

    def assume_equal(self, a, b):
        for x, y in ((a, b), (b, a)):
            # |z| == c  ->  z == c or z == -c
            if len(x.t) == 1 and y.is_const():
                (k, v), = x.t.items()
                if len(k) == 1 and k[0][1] == 1 and v == 1 and k[0][0] in self.absof:
                    z = self.absof[k[0][0]]
                    if self.choose(2) == 0:
                        self.eqs.append(z - y)
                    else:
                        self.eqs.append(z + y)
        self.eqs.append(a - b)

    # ------------------------------------------------------------------ expressions
    def ev(self, fr, nid):
        if nid is None or nid < 0:
            return None
        f = fr.fn
        n = f.nodes[nid]
        k = n['k']
        if 'cv' in n and k not in ('CallExpr', 'DeclRefExpr', 'MemberExpr'):
            try:
                return Poly.const(int(n['cv']))
            except ValueError:
                pass
        if k in TRANSPARENT:
            return self.ev(fr, n['ch'][0]) if n['ch'] else None
        if k in ('IntegerLiteral', 'CharacterLiteral'):
            return Poly.const(int(n['v']))
        if k == 'FloatingLiteral':
            try:
                return Poly.const(Fraction(n['v']))
            except (ValueError, ZeroDivisionError):
                return Poly.sym(self.newsym('lit'))
        if k == 'CXXBoolLiteralExpr':
            return Poly.const(1 if n['v'] == '1' else 0)
        if k == 'DeclRefExpr':
            if n.get('rk') in ('param', 'local', 'slocal'):
                key = self.lvalue(fr, nid)
                if key not in self.env and n.get('t', '').rstrip().endswith('*') and n.get('d') not in fr.refs:
                    self.env[key] = Ptr(key, 0)       # a pointer the function may step through its array
                return self.read(key)
            if 'cv' in n:
                return Poly.const(int(n['cv']))
            v = self.static_value(n)
            return v if v is not None else Poly.sym(str(n.get('q') or n.get('name')))
        if k == 'MemberExpr':
            if n.get('mk') in ('smember', 'enumerator') or 'cv' in n:
                if 'cv' in n:
                    return Poly.const(int(n['cv']))
                v = self.static_value(n)
                return v if v is not None else Poly.sym(str(n.get('q') or n.get('m')))
            return self.read(self.lvalue(fr, nid))
        if k == 'ArraySubscriptExpr':
            return self.read(self.lvalue(fr, nid))
        if k == 'UnaryOperator':
            op = n['op']
            if op in ('++', '--') and n.get('t', '').rstrip().endswith('*'):
                pv = self.ptr_value(fr, nid)
                if pv is None:
                    raise Unsupported('pointer step at %s' % f.loc(nid))
                return pv
            if op in ('++', '--'):
                key = self.lvalue(fr, n['ch'][0])
                v = self.read(key)
                nv = v + Poly.const(1 if op == '++' else -1)
                self.env[key] = nv
                return v if n.get('postfix') else nv
            if op == '*':
                return self.read(self.lvalue(fr, nid))
            v = self.ev(fr, n['ch'][0])
            if op == '-':
                return -v if isinstance(v, Poly) else None
            if op == '+':
                return v
            if op == '!':
                return Poly.const(0 if self.cond(fr, n['ch'][0]) else 1)
            return None
        if k in ('BinaryOperator', 'CompoundAssignOperator'):
            return self.binop(fr, nid, n)
        if k == 'ConditionalOperator':
            took = self.cond(fr, n['cond'])
            v = self.ev(fr, n['then']) if took else self.ev(fr, n['else'])
            if (f.file, nid) in self.watch or nid in self.watch:
                self.watched.append((nid, 'then' if took else 'else', v, f))
            return v
        if k in ('CallExpr', 'CXXMemberCallExpr', 'CXXOperatorCallExpr'):
            return self.call(fr, nid, n)
        if k == 'CXXThrowExpr':
            raise _Throw()
        if k == 'CXXDefaultArgExpr':
            return Poly.sym(self.newsym('default'))
        if k in ('CXXConstructExpr', 'CXXTemporaryObjectExpr'):
            if 'complex<' in n.get('t', ''):
                vals = [self.ev(fr, a) for a in n.get('args', []) if f.nodes[a]['k'] != 'CXXDefaultArgExpr']
                if not vals:
                    return Cx(Poly(), Poly())
                if len(vals) == 1:
                    return Cx.of(vals[0]) if isinstance(vals[0], (Poly, Cx)) else Poly.sym(self.newsym('object'))
                if all(isinstance(v, Poly) for v in vals[:2]):
                    return Cx(vals[0], vals[1])
            if len(n.get('args', [])) == 1:
                return self.ev(fr, n['args'][0])
            return Poly.sym(self.newsym('object'))
        return Poly.sym(self.newsym(k))

    def static_value(self, n):
        q = n.get('q')
        if q:
            v = self.prog.var_by_q(q)
            if v is not None and v.get('nodes') and v.get('init', -1) >= 0:
                r = v['nodes'][v['init']]
                if 'cv' in r:
                    return Poly.const(int(r['cv']))
                if 'fv' in r:
                    try:
                        return Poly.const(Fraction(r['fv']))
                    except (ValueError, ZeroDivisionError):
                        return None
        return None

    def pure(self, name, args):
        """the library is deterministic: one symbol per function and argument tuple, named after them."""
        if any(not isinstance(a, Poly) for a in args):
            return Poly.sym(self.newsym(name))
        # parity: f(-z) = -f(z) for odd f, f(-z) = f(z) for even f; atan2 is odd in its first argument
        if args and (name in ODD_FUNCTIONS or name in EVEN_FUNCTIONS or name == 'atan2') and not args[0].is_const() \
                and args[0].t and sorted(args[0].t.items())[0][1] < 0:
            flipped = self.pure(name, [-args[0]] + list(args[1:]))
            return flipped if name in EVEN_FUNCTIONS else -flipped
        if name == 'hypot':
            args = [(-a if (a.t and not a.is_const() and sorted(a.t.items())[0][1] < 0) else
                     (Poly.const(abs(a.const_value())) if a.is_const() else a)) for a in args]
        key = '%s(%s)' % (name, ', '.join(a.show() for a in args))
        if len(key) > 4000:
            # nested names grow geometrically inside iterations: name the symbol by a digest of its arguments (still
            # one symbol per function and argument tuple; sin and cos of one argument share the digest)
            import hashlib
            key = '%s#%s' % (name, hashlib.sha1(', '.join(a.show() for a in args).encode()).hexdigest()[:16])
        self.pure_cache[key] = Poly.sym(key)
        self.pure_args[key] = (name, list(args))
        return self.pure_cache[key]

    def arith(self, f, n, op, a, b):
        if not isinstance(a, Poly) or not isinstance(b, Poly):
            return Poly.sym(self.newsym('unk'))
        if op == '+':
            return a + b
        if op == '-':
            return a - b
        if op == '*':
            if self.round_products and not a.is_const() and not b.is_const():
                return Poly.sym(self.newsym('product'))
            return a * b
        if op == '/':
            if b.is_const() and b.const_value() != 0:
                if is_intlike(n.get('t', '')) and a.is_const():
                    x, y = a.const_value(), b.const_value()
                    if x.denominator == 1 and y.denominator == 1:
                        q = abs(int(x)) // abs(int(y))
                        return Poly.const(q if (x >= 0) == (y >= 0) else -q)
                return a.scale(1 / b.const_value())
            return a * self.pure('inv', [b])
        if op == '%' and a.is_const() and b.is_const() and b.const_value() != 0:
            x, y = int(a.const_value()), int(b.const_value())
            r = abs(x) % abs(y)
            return Poly.const(r if x >= 0 else -r)
        if op in ('&', '|', '^', '<<', '>>') and a.is_const() and b.is_const() and \
                a.const_value().denominator == 1 and b.const_value().denominator == 1:
            x, y = int(a.const_value()), int(b.const_value())
            return Poly.const({'&': x & y, '|': x | y, '^': x ^ y, '<<': x << y, '>>': x >> y}[op])
        if op in ('==', '!=', '<', '<=', '>', '>='):
            d = a - b
            if d.is_const():
                c = d.const_value()
                return Poly.const(1 if {'==': c == 0, '!=': c != 0, '<': c < 0, '<=': c <= 0, '>': c > 0,
                                        '>=': c >= 0}[op] else 0)
        return self.pure('op' + op, [a, b])

    def binop(self, fr, nid, n):
        f = fr.fn
        op = n['op']
        if op == ',':
            self.ev(fr, n['ch'][0])
            return self.ev(fr, n['ch'][1])
        if op in ('&&', '||') or (op in ('==', '!=', '<', '<=', '>', '>=')):
            return Poly.const(1 if self.cond(fr, nid) else 0)
        if op == '=':
            v = self.ev(fr, n['ch'][1])
            self.env[self.lvalue(fr, n['ch'][0])] = v
            return v
        if op.endswith('=') and len(op) >= 2:
            if op in ('+=', '-=') and f.nodes[f.strip_casts(n['ch'][0])].get('t', '').rstrip().endswith('*'):
                pv = self.ptr_value(fr, n['ch'][0])
                b = self.ev(fr, n['ch'][1])
                inner = f.nodes[f.strip_casts(n['ch'][0])]
                if pv is not None and isinstance(b, Poly) and b.is_const() and inner['k'] == 'DeclRefExpr':
                    d = int(b.const_value())
                    nv = Ptr(pv.base, pv.off + (d if op == '+=' else -d))
                    self.env[('v', inner['d'])] = nv
                    return nv
                raise Unsupported('pointer arithmetic at %s' % f.loc(nid))
            key = self.lvalue(fr, n['ch'][0])
            a = self.read(key)
            b = self.ev(fr, n['ch'][1])
            v = self.arith(f, n, op[:-1], a, b)
            self.env[key] = v
            return v
        a = self.ev(fr, n['ch'][0])
        b = self.ev(fr, n['ch'][1])
        return self.arith(f, n, op, a, b)

    # ------------------------------------------------------------------ calls
    def call(self, fr, nid, n):
        f = fr.fn
        ce = n.get('callee') or {}
        name = ce.get('name')
        q = ce.get('q') or ''
        args = list(n.get('args', []))
        off = 1 if (n.get('ckind') == 'operator' and ce.get('method')) else 0
        if q in self.summaries:
            return self.summaries[q](self, fr, n, args[off:])
        if not ce.get('inrepo') and (name in ('real', 'imag', 'abs', 'norm', 'conj') or str(name).startswith('operator')):
            r = self.complex_call(fr, nid, n, ce, name, args, off)
            if r is not NotImplemented:
                return r
        if n['k'] == 'CXXOperatorCallExpr' and name == 'operator[]' and len(args) == 2 and not ce.get('inrepo'):
            try:
                return self.read(self.lvalue(fr, nid))
            except Unsupported:
                pass
        if not ce.get('inrepo'):
            if name == 'remainder' and len(args) == 2:
                z, p = self.ev(fr, args[0]), self.ev(fr, args[1])
                if isinstance(p, Poly) and p.is_const() and isinstance(z, Poly):
                    ks = '@k(%s)' % z.show()
                    self.periods.add(ks)
                    return z + Poly.sym(ks).scale(p.const_value())
                if isinstance(p, Poly) and isinstance(z, Poly) and len(p.t) == 1 and not p.is_const():
                    # symbolic period (the ellipsoid area): z + P k
                    ks = '@k(%s)' % z.show()
                    self.periods.add(ks)
                    return z + Poly.sym(ks) * p
                return self.pure('remainder', [z, p])
            if name in ('fabs', 'abs') and len(args) == 1:
                z = self.ev(fr, args[0])
                if isinstance(z, Poly) and z.is_const():
                    return Poly.const(abs(z.const_value()))
                a = self.pure('abs', [z])
                if isinstance(z, Poly):
                    (k, _), = a.t.items()
                    self.absof[k[0][0]] = z
                return a
            if name == 'copysign' and len(args) == 2:
                a = self.ev(fr, args[0])
                b = self.ev(fr, args[1])
                if self.copysign_model == 'sgn' and isinstance(a, Poly) and isinstance(b, Poly):
                    # |a| sgn(b), with sgn an odd symbol: keeps the dependence on b instead of forking
                    mag = Poly.const(abs(a.const_value())) if a.is_const() else self.pure('abs', [a])
                    return mag * self.pure('sgn', [b])
                if isinstance(a, Poly) and isinstance(b, Poly) and len(a.t) == 1:
                    # copysign(g(b), b) with g odd and sign preserving on the range in question is g(b)
                    (k, v), = a.t.items()
                    if v > 0 and len(k) == 1 and k[0][1] == 1 and k[0][0] in self.pure_args:
                        nm, ar = self.pure_args[k[0][0]]
                        if nm in ODD_SIGN_PRESERVING and len(ar) == 1 and ar[0] == b:
                            return a
                return a if self.choose(2) == 0 else -a
            if name == 'fma' and len(args) == 3:
                a, b, c = [self.ev(fr, x) for x in args]
                return a * b + c
            if name == 'copy' and len(args) == 3:
                # std::copy(base, base + n, out) over arrays with a constant count
                a1 = f.nodes[f.strip_casts(args[1])]
                if a1['k'] == 'BinaryOperator' and a1.get('op') == '+':
                    cnt = self.ev(fr, a1['ch'][1])
                    try:
                        base, base2 = self.lvalue(fr, args[0]), self.lvalue(fr, a1['ch'][0])
                        a2 = f.nodes[f.strip_casts(args[2])]
                        while a2['k'] in ('CXXConstructExpr', 'MaterializeTemporaryExpr') and (a2.get('args') or a2.get('ch')):
                            a2 = f.nodes[f.strip_casts((a2.get('args') or a2['ch'])[0])]
                        if a2['k'] == 'CXXMemberCallExpr' and (a2.get('callee') or {}).get('name') == 'begin' and \
                                a2.get('obj', -1) >= 0:
                            out = self.lvalue(fr, a2['obj']) + ('vec',)      # the elements of a std::vector
                        else:
                            out = self.lvalue(fr, args[2])
                    except Unsupported:
                        base = None
                    if base is not None and base == base2 and isinstance(cnt, Poly) and cnt.is_const():
                        for kk in range(int(cnt.const_value())):
                            self.env[out + (kk,)] = self.read(base + (kk,))
                        return None
                raise Unsupported('std::copy with a non-constant range at %s' % f.loc(nid))
            if name == 'swap' and len(args) == 2:
                ka, kb = self.lvalue(fr, args[0]), self.lvalue(fr, args[1])
                va, vb = self.read(ka), self.read(kb)
                self.env[ka], self.env[kb] = vb, va
                return None
            if name in PURE and not any(f.nodes[f.strip_casts(a)]['k'] == 'UnaryOperator' and
                                        f.nodes[f.strip_casts(a)].get('op') == '&' for a in args):
                return self.pure(name, [self.ev(fr, a) for a in args])
            return self.opaque(fr, n, args[off:], ce)
        callee = self.prog.fns.get(ce.get('usr'))
        if callee is None or callee.d.get('body', -1) < 0 or fr.depth >= self.max_depth or \
                (self.inline is not None and q not in self.inline and not (self.inline_free and not callee.cls)) or \
                q in self.noinline:
            if name in PURE:
                return self.pure(name, [self.ev(fr, a) for a in args])
            return self.opaque(fr, n, args[off:], ce)
        # inline
        thiskey = fr.thiskey
        if n['k'] == 'CXXMemberCallExpr' and not n.get('objthis', True) and n.get('obj', -1) >= 0:
            try:
                thiskey = self.lvalue(fr, n['obj'])
            except Unsupported:
                thiskey = ('obj', self.newsym('o'))
        elif off and args:
            try:
                thiskey = self.lvalue(fr, args[0])
            except Unsupported:
                thiskey = ('obj', self.newsym('o'))
        refs = {}
        nf = Frame(callee, thiskey, refs, fr.depth + 1)
        for p, a in zip(callee.params, args[off:]):
            t = p.get('t', '')
            if p['pk'] in ('r', 'p') or '[' in t or t.rstrip().endswith('*'):
                try:
                    refs[p['d']] = self.lvalue(fr, a)
                    continue
                except Unsupported:
                    pass
            if p['pk'] == 'cr':
                try:
                    refs[p['d']] = self.lvalue(fr, a)
                    continue
                except Unsupported:
                    pass
            self.env[('v', p['d'])] = self.ev(fr, a)
        try:
            self.ex(nf, callee.d['body'])
        except _Return as r:
            return r.val
        return None

    def complex_call(self, fr, nid, n, ce, name, args, off):
        """operations of std::complex when an operand is a Cx; NotImplemented otherwise."""
        f = fr.fn
        if n['k'] == 'CXXMemberCallExpr' and name in ('real', 'imag') and n.get('obj', -1) >= 0 and not args:
            v = self.ev(fr, n['obj'])
            if isinstance(v, Cx):
                return v.re if name == 'real' else v.im
            return NotImplemented
        if n['k'] == 'CXXOperatorCallExpr' and ce.get('method') and name in ('operator=', 'operator+=', 'operator-=',
                                                                            'operator*=', 'operator/=') and len(args) == 2:
            try:
                key = self.lvalue(fr, args[0])
            except Unsupported:
                return NotImplemented
            cur = self.env.get(key)
            rhs = self.ev(fr, args[1])
            if not (isinstance(cur, Cx) or isinstance(rhs, Cx)) or not isinstance(rhs, (Cx, Poly)):
                return NotImplemented
            if name == 'operator=':
                nv = Cx.of(rhs)
            else:
                if not isinstance(cur, Cx):
                    return NotImplemented
                if name == 'operator+=':
                    nv = cur + rhs
                elif name == 'operator-=':
                    nv = cur - rhs
                elif name == 'operator*=':
                    nv = cur * rhs
                else:
                    if isinstance(rhs, Cx):
                        return NotImplemented
                    nv = cur.div_real(rhs, self)
            self.env[key] = nv
            return nv
        if name in ('operator+', 'operator-', 'operator*', 'operator/') and len(args) == 2:
            a, b = self.ev(fr, args[0]), self.ev(fr, args[1])
            if not (isinstance(a, Cx) or isinstance(b, Cx)) or not all(isinstance(v, (Cx, Poly)) for v in (a, b)):
                return NotImplemented
            if name == 'operator+':
                return Cx.of(a) + b
            if name == 'operator-':
                return Cx.of(a) - b
            if name == 'operator*':
                return Cx.of(a) * b
            if isinstance(b, Poly):
                return Cx.of(a).div_real(b, self)
            return NotImplemented
        if name == 'operator-' and len(args) == 1:
            a = self.ev(fr, args[0])
            return -a if isinstance(a, Cx) else NotImplemented
        if name in ('abs', 'norm') and len(args) == 1:
            a = self.ev(fr, args[0])
            if isinstance(a, Cx):
                return self.pure('c' + name, [a.re, a.im])
            if name == 'abs' and isinstance(a, Poly):
                if a.is_const():
                    return Poly.const(abs(a.const_value()))
                r = self.pure('abs', [a])
                (k, _), = r.t.items()
                self.absof[k[0][0]] = a
                return r
        return NotImplemented

    def opaque(self, fr, n, args, ce):
        """a call that is not interpreted: deterministic, so its result and its by-reference results are symbols
        named after the callee and the values of its by-value arguments."""
        f = fr.fn
        pk = ce.get('pk', [])
        outs = []
        vals = []
        for j, a in enumerate(args):
            an = f.nodes[f.strip_casts(a)]
            if an['k'] == 'UnaryOperator' and an.get('op') == '&':
                outs.append((j, an['ch'][0]))
                continue
            if j < len(pk) and pk[j] in ('r', 'p'):
                outs.append((j, a))
                continue
            vals.append(self.ev(fr, a))
        if all(isinstance(v, Poly) for v in vals):
            tag = '%s(%s)' % (ce.get('name'), ', '.join(v.show() for v in vals))
            if len(tag) > 4000:
                import hashlib
                tag = '%s#%s' % (ce.get('name'), hashlib.sha1(tag.encode()).hexdigest()[:16])
        else:
            tag = self.newsym(str(ce.get('name')))
        self.calls.append((ce.get('q'), vals, tag))
        for j, a in outs:
            try:
                key = self.lvalue(fr, a)
            except Unsupported:
                continue
            name = f.nodes[f.strip_casts(a)].get('name')
            if name in self.preset_outs:
                self.env[key] = Poly.const(self.preset_outs[name])
            else:
                self.env[key] = Poly.sym('%s.out%d' % (tag, j))
        return Poly.sym(tag)
