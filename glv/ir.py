"""In-memory view of the facts emitted by glfacts."""
import json
import os

TRANSPARENT = {'ParenExpr', 'ImplicitCastExpr', 'ExprWithCleanups',
               'MaterializeTemporaryExpr', 'CXXBindTemporaryExpr',
               'ConstantExpr', 'SubstNonTypeTemplateParmExpr'}


def strip_targs(q):
    """kissfft<double>::transform -> kissfft::transform (operator< etc. preserved)."""
    if '<' not in q:
        return q
    out = []
    depth = 0
    i = 0
    n = len(q)
    while i < n:
        c = q[i]
        if c == '<' and not q[:i].endswith('operator') and not q[:i].endswith('operator<'):
            depth += 1
        elif c == '>' and depth > 0:
            depth -= 1
        elif depth == 0:
            out.append(c)
        i += 1
    return ''.join(out)


def merge_units(paths, flags):
    funcs, recs, enums, vars_ = {}, {}, {}, {}
    units = []
    for p in paths:
        with open(p) as f:
            d = json.load(f)
        types = d['types']
        units.append(d['main'])

        def fix_nodes(nodes):
            for n in nodes:
                if n is None:
                    continue
                ce = n.get('callee')
                if ce and '<' in ce.get('q', ''):
                    ce['qfull'] = ce['q']
                    ce['q'] = strip_targs(ce['q'])
                if ce and '<' in ce.get('cls', ''):
                    ce['cls'] = strip_targs(ce['cls'])
                t = n.get('t')
                if isinstance(t, int):
                    n['t'] = types[t] if t >= 0 else ''
                for k in ('thrown', 'caught'):
                    if k in n and isinstance(n[k], int):
                        n[k] = types[n[k]] if n[k] >= 0 else ''
                if 'decls' in n:
                    for dd in n['decls']:
                        if isinstance(dd.get('t'), int):
                            dd['t'] = types[dd['t']]
        for fn in d['functions']:
            if fn['name'] == 'main' and not fn.get('method'):
                fn['usr'] = fn['usr'] + '@' + d['main']      # one main per executable
            if fn['usr'] in funcs:
                continue
            fix_nodes(fn['nodes'])
            fn['qfull'] = fn['q']
            fn['q'] = strip_targs(fn['q'])
            if fn.get('cls'):
                fn['clsfull'] = fn['cls']
                fn['cls'] = strip_targs(fn['cls'])
            fn['ret'] = types[fn['ret']] if fn['ret'] >= 0 else ''
            for pz in fn['params']:
                pz['t'] = types[pz['t']]
            for i in fn.get('inits', []):
                if isinstance(i.get('t'), int):
                    i['t'] = types[i['t']]
            fn['unit'] = d['main']
            funcs[fn['usr']] = fn
        for r in d['records']:
            if r['usr'] in recs:
                continue
            for fl in r['fields']:
                fl['t'] = types[fl['t']]
            recs[r['usr']] = r
        for e in d['enums']:
            enums.setdefault(e['usr'], e)
        for v in d['vars']:
            if 'nodes' in v:
                fix_nodes(v['nodes'])
            v['t'] = types[v['t']]
            old = vars_.get(v['usr'])
            if old is None or ('init' in v and 'init' not in old):
                if old is not None:
                    v['isdef'] = v.get('isdef') or old.get('isdef')
                vars_[v['usr']] = v
    return {'functions': funcs, 'records': recs, 'enums': enums, 'vars': vars_,
            'units': units}


class Fn:
    """A function body: flat node table + CFG."""

    def __init__(self, d):
        self.d = d
        self.usr = d['usr']
        self.q = d['q']
        self.name = d['name']
        self.nodes = d['nodes']
        self.file = d['file']
        self.line = d['line']
        self.params = d['params']
        self.cls = d.get('cls')
        self.is_method = d.get('method', False)
        self.is_const = d.get('const', False)
        self.is_static = d.get('static', False)
        self.is_ctor = d.get('ctor', False)
        self.is_dtor = d.get('dtor', False)
        self.access = d.get('access', 'none')
        self.cfg = d.get('cfg')
        self._parent = None
        self._blocks = None

    def __repr__(self):
        return '<Fn %s %s:%d>' % (self.q, os.path.basename(self.file), self.line)

    @property
    def relfile(self):
        return self.file

    def loc(self, nid=None):
        if nid is None or nid < 0:
            return '%s:%d' % (self.file, self.line)
        n = self.nodes[nid]
        return '%s:%d' % (n.get('f', self.file), n['l'])

    def n(self, i):
        return self.nodes[i]

    def kids(self, i):
        return self.nodes[i]['ch']

    def strip(self, i):
        """skip parens / implicit casts / cleanups."""
        while i is not None and i >= 0:
            n = self.nodes[i]
            k = n['k']
            if 'cv' in n:
                break
            if k in TRANSPARENT and n['ch']:
                i = n['ch'][0]
                continue
            if k in ('CXXFunctionalCastExpr', 'CStyleCastExpr', 'CXXStaticCastExpr') and \
                    n.get('ck') in ('NoOp', 'ConstructorConversion') and n['ch']:
                i = n['ch'][0]
                continue
            break
        return i

    def strip_casts(self, i):
        """strip() that also looks through value-preserving numeric casts."""
        while i is not None and i >= 0:
            j = self.strip(i)
            n = self.nodes[j]
            if n['k'] in ('CXXFunctionalCastExpr', 'CStyleCastExpr', 'CXXStaticCastExpr',
                          'ImplicitCastExpr') and n['ch'] and \
                    n.get('ck') in ('IntegralCast', 'IntegralToFloating', 'FloatingCast',
                                    'NoOp', 'LValueToRValue', 'FloatingToIntegral',
                                    'IntegralToBoolean'):
                i = n['ch'][0]
                if i == j:
                    break
                continue
            return j
        return i

    @property
    def parent(self):
        if self._parent is None:
            p = [-1] * len(self.nodes)
            for i, n in enumerate(self.nodes):
                if n is None:
                    continue
                for c in n['ch']:
                    if c >= 0:
                        p[c] = i
                for key in ('cond', 'then', 'else', 'init', 'inc', 'body', 'try', 'val',
                            'lhs', 'sub', 'obj'):
                    c = n.get(key)
                    if isinstance(c, int) and c >= 0 and p[c] < 0:
                        p[c] = i
                for c in n.get('handlers', []):
                    if p[c] < 0:
                        p[c] = i
                for c in n.get('args', []):
                    if c >= 0 and p[c] < 0:
                        p[c] = i
                for dd in n.get('decls', []):
                    c = dd.get('init')
                    if isinstance(c, int) and c >= 0 and p[c] < 0:
                        p[c] = i
            self._parent = p
        return self._parent

    def ancestors(self, i):
        p = self.parent
        i = p[i]
        while i >= 0:
            yield i
            i = p[i]

    def walk(self, i):
        """pre-order over the subtree of node i (evaluated children only)."""
        if i is None or i < 0:
            return
        st = [i]
        seen = set()
        while st:
            j = st.pop()
            if j in seen or j < 0:
                continue
            seen.add(j)
            yield j
            n = self.nodes[j]
            sub = list(n['ch'])
            for dd in n.get('decls', []):
                c = dd.get('init')
                if isinstance(c, int) and c >= 0:
                    sub.append(c)
            st.extend(reversed(sub))

    def all_nodes(self):
        for i, n in enumerate(self.nodes):
            if n is not None:
                yield i, n

    def roots(self):
        r = []
        for it in self.d.get('inits', []):
            if it['init'] >= 0:
                r.append(it['init'])
        if self.d.get('body', -1) >= 0:
            r.append(self.d['body'])
        return r

    def walk_all(self):
        for r in self.roots():
            for j in self.walk(r):
                yield j

    @property
    def blocks(self):
        if self._blocks is None:
            self._blocks = {b['id']: b for b in self.cfg['blocks']} if self.cfg else {}
        return self._blocks

    def param_index(self, d):
        for i, p in enumerate(self.params):
            if p['d'] == d:
                return i
        return None

    def src_text(self, nid):
        n = self.nodes[nid]
        f = n.get('f', self.file)
        try:
            with open(f, errors='replace') as fh:
                lines = fh.read().split('\n')
            return lines[n['l'] - 1].strip()
        except OSError:
            return ''


class Program:
    def __init__(self, raw):
        self.raw = raw
        self.fns = {u: Fn(d) for u, d in raw['functions'].items()}
        self.records = raw['records']
        self.rec_by_q = {}
        for r in self.records.values():
            self.rec_by_q.setdefault(r['q'], r)
        self.enums = raw['enums']
        self.vars = raw['vars']
        self.units = raw['units']
        self.flags = raw.get('flags', {})
        self.by_q = {}
        for f in self.fns.values():
            self.by_q.setdefault(f.q, []).append(f)
        self.inlined = 0
        self.resolve_helpers()

    # ------------------------------------------------------------------ wrapper resolution
    ID_KEYS = ('cond', 'then', 'else', 'obj', 'val', 'lhs', 'sub', 'init', 'inc', 'body', 'try')
    PURE_KINDS = {'ParenExpr', 'ImplicitCastExpr', 'ExprWithCleanups', 'MaterializeTemporaryExpr', 'CXXBindTemporaryExpr',
                  'ConstantExpr', 'CXXFunctionalCastExpr', 'CStyleCastExpr', 'CXXStaticCastExpr', 'DeclRefExpr',
                  'MemberExpr', 'CXXThisExpr', 'IntegerLiteral', 'FloatingLiteral', 'CXXBoolLiteralExpr',
                  'CharacterLiteral', 'UnaryOperator', 'BinaryOperator', 'ConditionalOperator', 'CallExpr',
                  'CXXMemberCallExpr', 'ArraySubscriptExpr', 'SubstNonTypeTemplateParmExpr', 'CXXOperatorCallExpr'}

    def _helper_root(self, g):
        """return expression of a helper whose body is `{ return e; }` with e free of side effects, else None."""
        from .build import REPO
        lam = g.name == 'operator()' and '(anonymous class)' in g.q
        local = (not g.is_method) and g.file.startswith(os.path.join(REPO, 'src') + os.sep) and g.file.endswith('.cpp')
        if not (lam or local):
            return None
        body = g.d.get('body', -1)
        if body is None or body < 0:
            return None
        b = g.nodes[body]
        if b['k'] != 'CompoundStmt' or len(b['ch']) != 1:
            return None
        r = g.nodes[b['ch'][0]]
        if r['k'] != 'ReturnStmt':
            return None
        root = r.get('val', -1)
        if root is None or root < 0:
            root = r['ch'][0] if r['ch'] else -1
        if root < 0:
            return None
        t = g.d.get('ret', '').replace('const ', '').strip()
        if not (t == 'bool' or t in ('int', 'unsigned int', 'double', 'float', 'long double')):
            return None
        for j in g.walk(root):
            n = g.nodes[j]
            if n['k'] not in self.PURE_KINDS:
                return None
            if n['k'] in ('BinaryOperator',) and n.get('op', '').endswith('=') and n['op'] not in ('==', '!=', '<=', '>='):
                return None
            if n['k'] == 'UnaryOperator' and n.get('op') in ('++', '--'):
                return None
            if n['k'] in ('CallExpr', 'CXXMemberCallExpr', 'CXXOperatorCallExpr'):
                ce = n.get('callee') or {}
                if any(k_ in ('r', 'p') for k_ in ce.get('pk', [])) or (ce.get('method') and not ce.get('mconst') and not ce.get('mstatic')):
                    return None
                if n['k'] == 'CXXOperatorCallExpr' and not (ce.get('method') and ce.get('mconst') and n.get('op', ce.get('name', '')) in ('[]', 'operator[]')):
                    # only the element read of a const container (`s[i]` on a const std::string / std::vector)
                    return None
        return root

    def _pure_arg(self, f, nid):
        for j in f.walk(nid):
            n = f.nodes[j]
            if n['k'] in ('CompoundAssignOperator', 'CXXOperatorCallExpr', 'CXXConstructExpr', 'LambdaExpr', 'CXXThrowExpr'):
                return False
            if n['k'] == 'BinaryOperator' and n.get('op') in ('=', ','):
                return False
            if n['k'] == 'UnaryOperator' and n.get('op') in ('++', '--'):
                return False
        return True

    def _clone(self, g, nid, f, pmap):
        n = g.nodes[nid]
        if n['k'] == 'DeclRefExpr' and n.get('rk') == 'param' and n.get('d') in pmap:
            return pmap[n['d']]
        m = dict(n)
        m['f'] = n.get('f', g.file)
        new_id = len(f.nodes)
        f.nodes.append(m)
        m['ch'] = [self._clone(g, c, f, pmap) if c >= 0 else c for c in n['ch']]
        if 'args' in n:
            # args are children too; keep the mapping consistent
            amap = dict(zip(n['ch'], m['ch']))
            m['args'] = [amap[a] if a in amap else self._clone(g, a, f, pmap) for a in n['args']]
        for k in self.ID_KEYS:
            v = n.get(k)
            if isinstance(v, int) and v >= 0:
                amap = dict(zip(n['ch'], m['ch']))
                m[k] = amap[v] if v in amap else self._clone(g, v, f, pmap)
        return new_id

    def resolve_helpers(self, rounds=2):
        """replace calls of one-line side-effect-free helpers (lambdas, file-local functions) by their return
        expression, so that every engine sees through a named predicate such as `inrange(x, lo, hi)` or
        `hascap(CAP_C1)` exactly as if it had been written in place."""
        roots = {}
        for g in self.fns.values():
            r = self._helper_root(g)
            if r is not None:
                roots[g.usr] = (g, r)
        n_inl = 0
        if not roots:
            return 0
        for _ in range(rounds):
            changed = False
            for f in list(self.fns.values()):
                for i in range(len(f.nodes)):
                    n = f.nodes[i]
                    if n is None or n.get('k') not in ('CallExpr', 'CXXOperatorCallExpr', 'CXXMemberCallExpr'):
                        continue
                    ce = n.get('callee') or {}
                    hit = roots.get(ce.get('usr'))
                    if hit is None or hit[0].usr == f.usr:
                        continue
                    g, root = hit
                    args = n.get('args', [])
                    off = 1 if (n['k'] == 'CXXOperatorCallExpr' and ce.get('method')) else 0
                    if n['k'] == 'CXXMemberCallExpr' and not n.get('objthis'):
                        continue
                    real_args = args[off:]
                    if len(real_args) < len(g.params) or not all(self._pure_arg(f, a) for a in real_args):
                        continue
                    pmap = {p['d']: real_args[pi] for pi, p in enumerate(g.params)}
                    new_root = self._clone(g, root, f, pmap)
                    repl = {'k': 'ParenExpr', 'ch': [new_root], 't': n.get('t', ''), 'l': n['l'], 'c': n.get('c', 0),
                            'el': n.get('el', n['l']), 'inlined': g.q}
                    if 'f' in n:
                        repl['f'] = n['f']
                    f.nodes[i] = repl
                    f._parent = None
                    n_inl += 1
                    changed = True
            if not changed:
                break
        self.inlined = n_inl
        return n_inl

    def fn(self, q):
        """all bodies with qualified name q (overloads)."""
        return self.by_q.get(q, [])

    def fn1(self, q, nparams=None):
        c = [f for f in self.fn(q) if nparams is None or len(f.params) == nparams]
        return c[0] if len(c) == 1 else None

    def lib_fns(self, dirs=('src', 'include')):
        from .build import REPO
        pre = tuple(os.path.join(REPO, d) + os.sep for d in dirs)
        return [f for f in self.fns.values() if f.file.startswith(pre)]

    def record(self, q):
        return self.rec_by_q.get(q)

    def enum_values(self, cls):
        """all enumerators declared in class scope cls -> int."""
        out = {}
        for e in self.enums.values():
            if e.get('parent') == cls or e['q'].rsplit('::', 1)[0] == cls:
                for c in e['enumerators']:
                    out[c['name']] = int(c['v'])
        return out

    def var_by_q(self, q):
        for v in self.vars.values():
            if v['q'] == q:
                return v
        return None
