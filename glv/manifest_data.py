"""Single source for MANIFEST.json."""

BASELINE = ("cmake -G Ninja -S /repo -B /repo/_build -DCMAKE_BUILD_TYPE=RelWithDebInfo > /dev/null && "
            "cmake --build /repo/_build -j16 > /dev/null && "
            "cmake --build /repo/_build --target testprograms -j16 > /dev/null && "
            "ctest --test-dir /repo/_build -j8 --timeout 900")

CHECKS = {
    'C07': dict(
        text="Decides the algebraic clauses of the property over the reals, by exact symbolic evaluation of the function bodies "
             "(polynomials with rational coefficients, every path): (G1) the constructor's _e2 = f(2-f), _e2m = 1-_e2; (G2) "
             "Geocentric::IntForward is the closed form X = (N+h)cos(phi)cos(lam), Y = (N+h)cos(phi)sin(lam), Z = ((1-e2)N+h)sin(phi), "
             "N = a/sqrt(1-e2 sin^2 phi); (G3) the matrix filled by Rotation is orthonormal with determinant +1 modulo s^2+c^2=1, its "
             "third column is d(X,Y,Z)/dh, its first (-sin lam, cos lam, 0), its second up x east; (G4) Rotate and Unrotate apply M "
             "and its transpose, each entry once; (G5) LocalCartesian::MatrixMultiply is Unrotate(_r) by columns; (G6) Reset stores "
             "Rotation(lat0, lon0) and Forward(lat0, lon0, h0), IntForward maps the origin to 0, and IntForward o IntReverse is the "
             "identity for that _r; (G7) the vector<real> overloads copy all nine entries. Plus the error clauses X1/X3/X4 for "
             "the two classes. These hold for every input because they are polynomial identities.",
        note="NOT decided: everything that involves rounding or the root selection of IntReverse - accuracy near the centre, on the "
             "axis, in the singular disc, at astronomical distances, |lat| <= 90 and the least-magnitude height. A kernel that is "
             "wrong over the reals is wrong in floating point; the converse is not claimed. Assumes A-UNITCIRCLE (the two results "
             "of one sincosd call lie on the unit circle).",
        technique="symbolic evaluation of the AST over exact polynomials (path-wise), polynomial identity checking modulo the "
                  "unit-circle relations; CFG typestate for the error clauses",
        ref="16"),
    'C16': dict(
        text="Decides, over the reals and for every path, the algebraic clauses of the primitives by exact symbolic evaluation: "
             "(CONS) Math::sum returns s, t with s + t = u + v; AngNormalize(x) = x and AngDiff's d + e = y - x modulo 360; "
             "Accumulator::Add, +=, -=, *= conserve _s + _t (Math::sum replaced by its contract in the callers, plain products read "
             "as rounded and fma as exact in operator*=); (QUAD) for every quadrant count q = -4..7 sincosd, sincosde, sind, cosd "
             "return the quarter-turn rotation of (sin, cos) of the reduced angle, the exact values at 30 and 45 degrees are on the "
             "unit circle and sind/cosd agree with sincosd; (OCT) on every path of atan2d the arguments given to atan2 are a signed "
             "permutation of (y, x) and the returned c +- atan2 is the angle of (x, y) modulo 360.",
        note="NOT decided: anything about rounding - that t is the exact rounding error, ulp accuracy, correct rounding at "
             "multiples of 30/45 degrees, signs of zero, the volatile guards, eatanhe/taupf/tauf, the accumulator's double-word "
             "precision. These are necessary conditions: a kernel that loses a term or takes the wrong quadrant over the reals is "
             "wrong in floating point.",
        technique="symbolic evaluation of the AST over exact polynomials with period symbols for remainder, path forking on "
                  "comparisons, contracts for callees; identity checking by Gaussian elimination over the path equalities",
        ref="16"),
    'C14': dict(
        text="Effect analysis over the whole library: for every const or static member function of every class "
             "in the property's quantifier (and the closure of their member types) the transitive may-write "
             "summary contains no mutable member, no pointee of a member and no static variable, except the "
             "objects the property itself excludes and Geoid state guarded by !_threadsafe on every path. "
             "Holds for every schedule because no shared location is ever written; no test can show that.",
        note="Decides absence of shared writes (data races need a write), not the values returned. Trusted: clang "
             "front end, glfacts, tables in glv/tables.py; assumes libstdc++/libm const-thread-safety, "
             "A-GEOID-FULLCACHE and A-KISSFFT-FACTORS (see evidence).",
        technique="static effect analysis (may-write summaries over the resolved call graph + path facts on the clang CFG)",
        ref="3.1"),
    'C13': dict(
        text="Library-wide structural decision of the error contract: (X1) every one of the ~240 throw sites "
             "constructs GeographicErr and every handler converts or is audited; (X3) commit-last typestate on "
             "the CFG of every public function with output arguments, compositional through callee summaries; "
             "(X4) Kleene evaluation of every throw guard with one argument set to NaN; (X5) witness "
             "interpretation of every validating constructor/setter over the partition {NaN, +-inf, 0, negative, "
             "out of range} with delegated constructors followed; (X6) every loop has a counter/container/stream "
             "bound or an audited termination argument; (X2b) strchr membership excludes NUL; (X8) no "
             "fast-math/no-exceptions flags; (X7) interval analysis of fixed-buffer and alphabet indexes in the five "
             "codecs. These hold for every input because they hold for every path. Added: (X3m) documented strong guarantee of NearestNeighbor::Initialize/Load; (X7c) with NaN and infinity tracked through the interval analysis, no floating value that may be NaN or infinite is converted to an integer or used to index in the codecs and UTMUPS; (X9) encoder buffers are completely filled for every precision; (X10) every accepted grid code decodes inside the domain; X4 sees through one-line boolean helpers and lambdas; X5 also offers latitude aliases modulo 360; (X12) every character of an accepted grid code is examined on every accepting path; (NAN2) no two-armed if that a NaN argument decides (every ordered comparison with NaN is false) sends the NaN into an arm that stores pure constants in the variables the other arm computes from that argument - with the argument's NaN followed through assignments and through locals passed by non-const reference (sincosd(lat, sphi, cphi)).",
        note="NOT decided: general memory safety, signed overflow, propagation of NaN to the outputs beyond the NAN2 clause (a NaN lost in min/max, in a table lookup or in a value computed without the argument is not seen), std-library "
             "logic errors other than X2b. Assumes A-ELLIPTIC-ARGS, A-SINGLETON-NOTHROW; bad_alloc is outside the "
             "contract. One known finding (Utility::readarray partial write).",
        technique="CFG typestate + call-graph may-throw/may-write summaries; Kleene/witness abstract evaluation of guards + interval analysis with NaN/infinity tracking, partial evaluation, path-wise range interpretation",
        ref="3.4"),
    'C04': dict(
        text="Decides the error clauses of the property for UTMUPS: a failing call leaves its output arguments "
             "unchanged (X3 commit-last typestate over Forward/Reverse/Transfer/DecodeZone/DecodeEPSG...), only "
             "GeographicErr is thrown (X1), and no guard throws because an argument is NaN (X4). Also (W1) every output argument written on some returning path is written on every returning path (DecodeEPSG, DecodeZone, Forward, Reverse, Transfer), (T4) the range and false-origin tables agree with the MGRS constants, and (X7c) no floating value that may be NaN or infinite is converted to an integer in StandardZone. Also (S2) the hemisphere-sign parity of the UPS projection and (SW1) boolean flags passed in parameter order.",
        note="Zone selection, false origins, ranges and the round trip are numerical/combinatorial and NOT decided "
             "by this check; it decides the 'fails cleanly / NaN does not throw' clause only.",
        technique="CFG typestate (commit-last) + Kleene NaN evaluation of throw guards + must-write dataflow (output totality) + constant-relation table check",
        ref="3.4, 4 (C04)"),
    'C05': dict(
        text="Decides the error clauses for MGRS: outputs committed last on every path of Forward/Reverse/Decode "
             "(X3), only GeographicErr (X1), NaN never raises (X4), the alphabet membership helper rejects "
             "NUL (X2b), the MGRS alphabets are injective and sized to their index ranges (T3), and an interval "
             "analysis (X7) proves every write into the fixed buffer mgrs1 and every decided alphabet index in range. Also (W1) output totality and (X9) buffer fill completeness: for every precision and on every path each of the characters of mgrs1 handed over was stored to. Also (T4) the range tables agree with the UTMUPS tables.",
        note="Digit truncation, band/row consistency and the accept/reject set of strings are NOT decided.",
        technique="CFG typestate (commit-last) + Kleene NaN evaluation + interval analysis of buffer/alphabet indexes + partial evaluation of buffer fills",
        ref="3.4, 4 (C05)"),
    'C10': dict(
        text="Decides the error clauses for the text parsers (DMS, Utility::val/fract/nummatch/ParseLine/date, "
             "GeoCoords::Reset): throw type (X1), outputs committed last (X3), NUL rejected by lookup (X2b); and the "
             "tools' clause (R-TOOL): in each of the 11 line-oriented tools every may-throw call of the per-line loop "
             "is inside a try whose std::exception handler emits an ERROR line, sets the non-zero status main returns, "
             "and a line terminator is written on both paths; and (S1) in the symbol-replacement sequence of DMS::Decode "
             "no earlier pattern occurs inside a later one (else a documented multi-byte symbol is mangled before it "
             "can match). Also (W1) output totality of the parsers' output arguments.",
        note="Closure of format->parse, carry normalisation and half-ulp fidelity are NOT decided.",
        technique="CFG typestate (commit-last) + throw-site audit",
        ref="3.4, 4 (C10)"),
    'C18': dict(
        text="Decides the error clauses for Geohash/GARS/Georef/OSGB: throw type (X1), outputs committed last (X3), "
             "NaN never raises (X4), NUL rejected by the alphabet lookup (X2b), alphabets injective and sized to "
             "their consumers (T3), and (X7) an interval analysis over the encoders - ranges established by the throwing "
             "guards, clamps and the documented range of AngNormalize - proves every write into the fixed char buffers "
             "and every decided alphabet index inside its array; an index whose attained range leaves the alphabet is "
             "a violation (this found Georef::Forward(lat, 180) emitting the terminating NUL). Added: (W1) output totality; (X9) buffer fill completeness of the four encoders for every precision and path; (X10) for every string length and accepting path of GARS/Georef/Geohash::Reverse the decoded position lies in -90 <= lat < 90, -180 <= lon < 180 (path-wise range interpretation, one full-range variable per looked-up character); (X7c) no possibly NaN/infinite value is converted to an integer (this found the crash for lon = +-inf). Also (X7r) the indexes that need a relation between two variables are proved by a linear-relational path analysis (29 sites of GARS/Georef/OSGB), and (X11) a numeric field the encoder emits digit by digit takes exactly the values the decoder accepts at those character positions. (X12) on every accepting path of GARS/Georef/Geohash::Reverse, for every string length, every character of the string has been looked up in an alphabet or covered by a find_first_not_of(alphabet, pos) == npos test (Geohash: up to the documented maxlen_, read from the tree) - this is the clause that Georef::Reverse(\"GJPJ5\") broke on the unchanged tree (fixed in 2a203ce).",
        note="Containing-cell arithmetic and the prefix property are NOT decided; of full consumption of the input only that every character is examined on every accepting path (X12), not that each is judged correctly. X7 leaves "
             "indexes that need relational reasoning undecided (listed in the evidence), never guessed.",
        technique="CFG typestate (commit-last) + Kleene NaN evaluation + interval analysis of buffer/alphabet indexes + partial evaluation of buffer fills + path-wise range interpretation of decoders (NaN/infinity tracked)",
        ref="3.4, 4 (C18)"),
    'C12': dict(
        text="Decides the mask/capability discipline for every path, mask and capability set at once: (M1) the six mask "
             "enums agree bit for bit, including the capability reinterpretation series->exact; (M2) every store to an "
             "output argument of GenDirect/GenInverse/GenPosition/Lengths (series, exact, rhumb) is on paths that "
             "establish that output's bit of the incoming mask - judged with a bit-level abstract value of every mask "
             "expression and gated-write summaries of callees; (M4) all ~90 forwarding overloads request what they "
             "return; (M3/L1/L2) a licence dataflow proves that no value initialised only under a capability bit, the "
             "exact flag or Init() reaches an output, a return value, a branch condition or an index on a path that "
             "does not establish it (this is what makes an unrequested / uncapable / uninitialised query return NaN "
             "or leave outputs untouched rather than a number); (M2c) conversely every requested output within the "
             "capabilities is written on every normally returning path; (M6) a member bound to a conditionally written "
             "output position is given a fresh value first (no stale third point). (M7) a placeholder-initialised local computed only under mask bits never reaches an output, a return value or a branch on a path that does not establish those bits, globally by the licence dataflow and locally among the statements of one block (so the value returned for one quantity cannot depend on which others were requested); (M8) the line factories of the two solvers derive the same named capabilities for every request. (M9) a value selected by mask & LONG_UNROLL flows only into lon2.",
        note="NOT decided: numerical equality of the alternative evaluation paths a mask selects, arc/distance position "
             "coincidence, the stored third point. Assumes A-ENUM-UNION (masks are unions of enumerators), A-LOOP-FILL. "
             "Initialisation conditions of members are derived from the constructors/LineInit by the tool, not frozen.",
        technique="bit-level abstract interpretation of masks on the clang CFG + conditional-initialisation (licence/taint) dataflow + witness interpretation of the sibling line factories",
        ref="3.2, 3.3"),
    'C02': dict(
        text="Decides two structural clauses: (L1) on the inverse path (GenInverse, InverseLine, Lengths, InverseStart, "
             "Lambda12, series and exact) no conditionally initialised value - series state when exact=true, the "
             "delegated solver when it was never built, a local that a masked callee did not write - reaches an output, "
             "a return value or a branch condition; (X6) every loop of the two solvers, including the Newton/bisection "
             "loop, has a counter cap. Also (M8) sibling agreement of the line factories (InverseLine adds DISTANCE exactly when DISTANCE_IN is requested, in both solvers).",
        note="NARROW: convergence, shortestness, symmetries and the canonicalisation bookkeeping are numerical and NOT decided.",
        technique="conditional-initialisation (licence/taint) dataflow over the clang CFG + loop classification",
        ref="3.3 L1, 3.4 X6, 4 (C02)"),
    'C08': dict(
        text="Decides the bookkeeping clauses of the polygon property for every edit history at once, over the three "
             "instantiations (Geodesic, GeodesicExact, Rhumb): (P1) the tentative queries and Compute cannot change "
             "the polygon - no const method can write object state (effect analysis, a compile-time fact kept one); "
             "(P2) polylines never write the area; (P3) Clear() resets every member AddPoint/AddEdge modify (derived "
             "write sets, no frozen list); (P4) every inverse edge is counted with transit of the same longitudes and "
             "every direct edge with transitdirect of its unrolled longitude, with LONG_UNROLL requested, never "
             "crosswise; (P5) every solver output that is consumed was requested by _mask as the constructor builds it.",
        note="NOT decided: that the accumulated sums are the area/perimeter, the accumulator arithmetic, the value of "
             "the crossing parity functions themselves.",
        technique="effect analysis + path-fact gating + call pairing over resolved callees + licence dataflow with bit-level masks",
        ref="3.7"),
    'C20': dict(
        text="Decides history independence of Geoid::height structurally: (K1) the cached cell data are a function of the "
             "cell key only - no value derived from the floating query position is cached, and every read of a cached "
             "value is on paths that establish equality of every key member with the current cell and !_threadsafe; "
             "(K2) key and values are updated together from the locals that produced the result; (K3) only height() "
             "and the constructor write them and the constructor leaves an impossible key; (K4) every write to mutable "
             "state from const methods is under !_threadsafe, and _threadsafe is set only after CacheAll()+close(); "
             "(K5) every stream use is inside a try converting to GeographicErr; (K6) the area cache is read "
             "big-endian; (T5) the three cubic least-squares tables are exact projectors on the 12-point stencil "
             "(integer algebra on the extracted tables, stencil order and Horner form). (K7) raster bounds by a linear-relational path analysis: on every path of height (rawval inlined) and CacheArea, for all raster sizes the constructor accepts and all positions, every file position is inside the raster, every cache access inside the cache and every block read inside one raster row and one cache row. (OV1) no 32-bit product is widened to 64 bits only after the multiplication (file-length validation).",
        note="NOT decided: that the gathered pixels are the right ones (longitude wrap, pole reflection, area-cache "
             "geometry), continuity/linearity as numbers, ConvertHeight, header validation arithmetic. Assumes "
             "A-GEOID-FULLCACHE and A-RAWVAL-BIGENDIAN.",
        technique="backward slicing + path facts on the clang CFG + effect analysis + exact integer table algebra + linear-relational path analysis (Fourier-Motzkin entailment) of raster indexes",
        ref="3.6, 3.5 T5"),
    'C17': dict(
        text="Decides the interface clause between the constructions and the solvers: in AzimuthalEquidistant, Gnomonic, "
             "CassiniSoldner and Intersect every output of a solver or line call that is consumed (stored to a result, "
             "returned, branched on, stored in a member) was requested by the mask that call passes - forwarding "
             "overloads are resolved to their constant masks - and, for lines built in place (Gnomonic::Reverse's line, "
             "CassiniSoldner's _meridian and perp), lies within the capabilities the line was constructed with. For "
             "NearestNeighbor (header-only, analysed through an explicit instantiation) the error clauses of the "
             "save/load sentence: throw type (X1), outputs committed last (X3), every loop bounded or audited (X6), and "
             "the documented strong guarantee of Initialize/Load - no member is written before the last may-throw "
             "point (X3m).",
        note="NARROW: projection geometry, intersection optimality/completeness, nearest-neighbour search and save/load are "
             "NOT decided. Lines received as parameters are assumed to have the documented capabilities (A-CAPS-PARAM). "
             "Four locals of Gnomonic::Reverse are audited (loop runs at least once).",
        technique="licence/taint dataflow with bit-level masks and line-capability typestate over the clang CFG",
        ref="3.2 M4/M5, 4 (C17)"),
    'C01': dict(
        text="Decides one structural necessary condition of the accuracy statement: the Maxima-generated series "
             "tables A1, C1, C1', A3, C3 of the active order agree, monomial by monomial as exact rationals, with the "
             "tables of every other order the source carries under #if (a Taylor coefficient cannot depend on the "
             "truncation order). A wrong high-order coefficient - the first risk the property names - breaks an equation. "
             "Also (L1) the exact=true delegation licence on the direct path and (M1) the enum agreement on which "
             "exact=true lines depend. Also (M8) the line factories of Geodesic and GeodesicExact (Line, GenDirectLine, DirectLine, ArcDirectLine, InverseLine) pass the same named capabilities to the line they construct, for every requested set and both values of arcmode (witness interpretation of the integer code).",
        note="NARROW: does not decide that the result lies on the geodesic, ranges of longitude/azimuth or circuit "
             "counting. Consistent tables need not be the right series. Layout descriptions in glv/rules/tab.py "
             "are trusted (they must consume each table exactly or the check is inconclusive).",
        technique="contradiction rule over sibling constant tables (exact rational comparison of AST initialisers across build configurations)",
        ref="3.5 T1, 4 (C01)"),
    'C03': dict(
        text="Sibling agreement (as C01) for the tables behind m12, M12, M21 and S12: A2, C2 and the C4 area series; plus the "
             "mask discipline restricted to these outputs: written only when requested (M2), requested wherever an "
             "overload returns them (M4), computed only from capability state that was initialised (M3). Also (M7) mask independence of intermediates: a placeholder-initialised local (AB1, A1, A2, m0x) computed only under mask bits G1 never reaches an output on a path that does not establish G1.",
        note="NARROW: Jacobi-equation values, addition rules, the DST area of the exact solver are not decided.",
        technique="contradiction rule over sibling constant tables (exact rational comparison across series orders)",
        ref="3.5 T1, 4 (C03)"),
    'C06': dict(
        text="Sibling agreement of the Krueger tables b1, alp, bet of TransverseMercator across orders 4..8, and the "
             "exact=true delegation licence: Forward/Reverse consume the series members only when !exact.",
        note="NARROW: conformality, inverse accuracy and the exact form are not decided.",
        technique="contradiction rule over sibling constant tables (exact rational comparison across series orders)",
        ref="3.5 T1, 4 (C06)"),
    'C09': dict(
        text="Sibling agreement of the rhumb area matrix (orders 4..8) and of the AuxLatitude blocks and radius series "
             "the rhumb code converts through (orders 4, 6, 8). Also (F1) every call from Rhumb / RhumbLine into AuxLatitude / DAuxLatitude passes the solver's own _exact flag (never the default, which silently selects the order-6 series).",
        note="NARROW: every numerical clause (course, length, area value, pole handling) is not decided.",
        technique="contradiction rule over sibling constant tables (exact rational comparison across series orders)",
        ref="3.5 T1, 4 (C09)"),
    'C15': dict(
        text="Sibling agreement of all 30 AuxLatitude conversion blocks and both radius series (533 monomials) and "
             "consistency of the ptrs[] offsets with the layout the consumer loop implies (T2); and (F1) every call from "
             "Ellipsoid into AuxLatitude passes exact = true, as the class documents (17 call sites). F1 also covers the calls from Rhumb / RhumbLine (own _exact flag).",
        note="NARROW: values of the conversions, Ellipsoid and EllipticFunction are not decided. 273 order-6 monomials "
             "have a single sibling (order 8).",
        technique="contradiction rule over sibling constant tables + layout consistency of offset table",
        ref="3.5 T1/T2, 4 (C15)"),
}

CHECKS['C11'] = dict(
    text="Decides three structural clauses for PolarStereographic, LambertConformalConic and AlbersEqualArea: (S2) a parity "
         "type system proves that Forward/Reverse treat the southern aspect as the exact mirror image of the northern one - "
         "under the reflection (sign, lat, y, gamma) -> (-sign, -lat, -y, -gamma) every output has the parity the mirror "
         "symmetry requires, i.e. each hemisphere-sign factor is applied exactly once (24 outputs); (D1) every setter that "
         "rewrites a member re-establishes each member the constructors derive from it (dependences read from Init); (X5) "
         "the constructors and SetScale reject every bad cell of a, f, k0, the standard latitudes (incl. aliases mod 360) "
         "and sin/cos pairs; plus the error clauses X1/X3 for these classes. Also (H1) a homogeneity-degree analysis: every scale-carrying member (degrees read from the constructors: _k0, _scale, _nrho0, _drhomax, _k2) has degree 0 in the old scale after SetScale.",
    note="NARROW: agreement with the textbook formulas, conformality/equal-area, the 10 nm round trips, the divided-difference "
         "accuracy and the value SetScale establishes are numerical and NOT decided. S2 and D1 each found a genuine defect "
         "(fixed: c2e6538, 98d65ff).",
    technique="parity (even/odd) type inference over the AST + member def-use dependence vs setter write sets + witness interpretation of constructor guards",
    ref="3.9, 4 (C11)")
CHECKS['C19'] = dict(
    text="Decides structural clauses of the harmonic/gravity/magnetic code: (DSP) every run-time to compile-time dispatch "
         "agrees with itself - inside `case K` the normalisation template argument of SphericalEngine::Value/Circle is K, "
         "the coefficient-set count L equals the extent of the coefficient array passed, the gradient flag matches whether "
         "the caller's gradient outputs are bound (72 obligations over SphericalHarmonic, 1, 2); (I1) request-flag "
         "independence: inside `if (gradp)` / `if (diffp)` no value that was defined before and feeds a result returned for "
         "both settings is overwritten (so the potential is the same number with and without the gradient); and the error "
         "clauses for the model readers (X1 throw type, X3 outputs committed last, X6 loops bounded). Also (CAP1) inside GravityCircle every evaluation of an engine member or NaN-guarded scalar is on paths that establish the capability bits under which GravityModel::Circle created it; (X2v) every vector size readcoeffs computes from an accepted header is non-negative; (SW1) no swapped arguments.",
    note="NARROW: the Clenshaw sums, time interpolation, rotation to ENU, normal-gravity constants and circle/direct "
         "agreement as numbers are NOT decided. I1 found a genuine defect (fixed: cd4324e).",
    technique="case-region / template-argument agreement over the AST + def-use check of flag-guarded regions + CFG typestate",
    ref="3.10, 4 (C19)")

NOT_APPLICABLE = {
}

PENDING = ['C11', 'C19', 'C01', 'C02', 'C03', 'C04', 'C05', 'C06', 'C08', 'C09', 'C10', 'C12', 'C13', 'C15', 'C17', 'C18', 'C20']


CLEN_TEXT = (" (CLEN) The Clenshaw summations the series go through (Geodesic::SinCosSeries / AuxLatitude::Clenshaw / DST::eval, "
             "integral) return, for every length 0..9, the defining trigonometric sum - a polynomial identity modulo sin^2+cos^2=1 "
             "decided by symbolic evaluation.")

LINT_TEXT = (" Over the property's anchor files the check also runs the repository's contradiction rules, each with a positive "
             "control: SW1 swapped same-named arguments, OV1 product overflowing before widening, N1 fold before use, D3 stale "
             "sine/cosine after its angle is corrected, CP1/CP2 consistent renaming between sibling clones (statements of a block, whole functions of a class), NB1 normalised string "
             "copy supersedes the raw argument, ZQ1 quotients that vanish together stay guarded after their operands are "
             "reassigned, PRT1 sibling switches partition their labels alike, TW1 twin guards agree on fabs, DS1 no update of a scalar local by its own value (x += e) is dead, DEAD1 no arm of an else-if chain is excluded by the earlier conditions of its chain, DZ1 no unguarded division by a member that an accepted argument (the sphere, a limiting cone) makes zero, ANG1 degrees and "
             "radians are not mixed, ONE1 a signed angular difference is not bounded on one side only, POS1 a string position is not passed as a substring length, SWP1 sine/cosine companions are exchanged together, SC1 sincosd results land in the variables named for them, AUX1 the auxiliary-latitude kind of a variable's name "
             "agrees with the enumerator it is converted from / to (unit inference: no radian value reaches a degree-argument function or vice versa, none is "
             "converted twice, degrees are never added to or compared with radians).")

EXTRA_TEXT = {
    'C08': " (AREA) symbolic evaluation of AreaReduce for crossings -1..3, reverse and sign: on every path the result is "
           "+-area + (crossings odd ? area0/2 : 0) modulo area0; (CONS) the accumulator the sums are kept in conserves _s + _t "
           "under Add, +=, -=, *=.",
    'C15': " (ECONST) the ellipsoid constants of AuxLatitude/Ellipsoid/DAuxLatitude equal their defining rational functions of (a, f); "
           "(SYMM, ALT) symmetry of the divided differences and agreement of the alternative forms of DParametric; (PRT1) "
           "ToAuxiliary/FromAuxiliary give every auxiliary-latitude kind its own arm.",
    'C01': " (ECONST) the solver constructors' _e2, _f1, _n, _b, _ep2 equal their definitions; (M8b, SIB1) the series and exact "
           "solver/line classes normalise alike and do not differ by the signature of a slip.",
    'C02': " (ECONST, M8b, SIB1) as for C01, on the inverse path.",
    'C03': " (ECONST, M8b, SIB1) as for C01, for the line classes.",
    'C12': " (M8b, SIB1, SIB2) sibling agreement of the series and exact classes (normalisers, shared assignments, order of "
           "dependent statements).",
    'C19': " (SIB1, SIB2) SphericalEngine::Value and SphericalEngine::Circle, which share almost all of their assignments, "
           "do not differ by the signature of a slip and order their dependent statements alike. (X7 conversions) no time or "
           "other floating value that may be NaN or infinite is converted to an integer in the magnetic/gravity classes "
           "(found and fixed: MagneticModel converted floor(t / dt0) before clamping). (DZ1) no division by a member that an "
           "accepted argument makes zero (found after a seeding agent's report and fixed: NormalGravity::Jn divided by _e2 "
           "for the sphere).",
    'C13': " (X7 conversions, library-wide) in every library function no floating value that may be NaN or infinite where it is "
           "converted is converted to an integer (43 conversions examined by the interval analysis with NaN/infinity flags); "
           "this found and fixed seven undefined conversions (Geoid::height, Geoid::CacheArea, MagneticModel, DMS::Encode, "
           "MGRS::LatitudeBand via StandardZone and MGRS::Forward, Intersect::All). X4 judges a private member by the "
           "arguments its call sites can pass. (IDX1) a fixed-size local array is not indexed by a counter that grows around "
           "the enclosing loop and is compared with no constant there (99 indexes, 97 proved by intervals; found after a "
           "seeding agent's report and fixed: DMS::Decode(\"1:2:3:4:5\") wrote past ipieces[3]). (DZ1) no division by a member "
           "that an accepted argument makes zero without a test on the path.",
    'C20': " (X7 conversions) no floating value that may be NaN or infinite is converted to an integer in Geoid "
           "(found and fixed: height(lat, inf) and CacheArea with a latitude outside [-90, 90]).",
    'C04': " (OFFS) Symbolic evaluation of UTMUPS::Forward/Reverse: the false easting/northing entries added after projecting are "
           "the ones subtracted before unprojecting, indexed alike by (projection, hemisphere). (H2) Scale homogeneity: x, y and k returned by TransverseMercator/PolarStereographic::Forward have degree 1 in "
           "the scale k0 on every path, gamma degree 0; Reverse returns k of degree 1 and angles of degree 0.",
    'C06': " (TMC) On every path of TransverseMercator::Forward/Reverse the complex Clenshaw accumulators equal zeta +- sum "
           "coeff[j] sin(2j zeta) and 1 +- sum 2j coeff[j] cos(2j zeta) (symbolic evaluation with std::complex over "
           "polynomials, order 6 unrolled), and x, y are a1 k0 times their parts with the hemisphere signs. (H2) Scale homogeneity of TransverseMercator and TransverseMercatorExact Forward/Reverse: x, y, k of degree 1 in "
           "k0 and gamma, lat, lon of degree 0 on every path (a scale applied in one branch only is a mixed degree).",
    'C11': " (LIM1) the special arm of `v != 0 ? general : special` equals the limit of the general arm (Laurent expansion of the "
           "symbolically evaluated body) at the 7 sites of the conic projections where that is elementary. (H2) Scale homogeneity of the outputs of PolarStereographic and LambertConformalConic Forward/Reverse. (SYMM) "
           "symmetry of the divided-difference helpers of LambertConformalConic and AlbersEqualArea. (ECONST) derived ellipsoid "
           "constants of the seven constructors.",
    'C10': " (IDX1) the component index of DMS::InternalDecode stays inside ipieces[3]/fpieces[3] (see C13). (RW1) In the chain of literal rewrites of DMS::Decode a pattern that contains the product character of other "
           "rewrites (the pair '' -> \") comes after all of them, and a pattern containing another pattern comes before it.",
    'C09': " (SYMM) the 17 divided-difference helpers return, path for path, the same expression with their two points exchanged; "
           "(ALT) the tan/cot forms of DParametric are the same function. (ZQ1) found and fixed: DAuxLatitude::DParametric evaluated a 0/0 quotient after taking reciprocals of its "
           "operands (exact rhumb area NaN for east-west courses).",
}


def manifest():
    checks = []
    for pid in sorted(CHECKS):
        c = dict(CHECKS[pid])
        c['text'] = c['text'] + EXTRA_TEXT.get(pid, '') + (CLEN_TEXT if pid in ('C01', 'C02', 'C03', 'C08', 'C09', 'C12', 'C15')
                                                             else '') + LINT_TEXT
        checks.append({
            'property_id': pid,
            'quick_cmd': 'bin/glcheck %s --tier quick' % pid,
            'thorough_cmd': 'bin/glcheck %s --tier thorough' % pid,
            'evidence_file': 'evidence/%s.json' % pid,
            'replay_cmd_template': 'bin/glcheck --replay {path}',
            'engine': 'glcheck',
            'level_claimed': {'category': 'other', 'text': c['text'], 'design_ref': 'DESIGN.md section ' + c['ref']},
            'level_note': c['note'],
            'technique': c['technique'],
        })
    na = [{'property_id': k, 'reason': v} for k, v in sorted(NOT_APPLICABLE.items())]
    for p in PENDING:
        if p not in CHECKS:
            na.append({'property_id': p, 'reason': 'check designed (DESIGN.md) but not yet implemented in this commit; not claimed'})
    return {
        'version': 1,
        'setup_cmd': 'bin/glcheck --setup',
        'hooks': {
            'guard': 'GEOGRAPHICLIB_VERIF',
            'enable': 'none needed: the analysis reads the unmodified sources (no hooks in /repo)',
            'baseline_off_cmd': BASELINE,
            'source_commits': [],
            'add_only': True,
        },
        'engines': [{'name': 'glcheck', 'path': 'bin/glcheck',
                     'serves_properties': sorted(CHECKS),
                     'kind_free_text': 'libTooling fact extractor (tool/glfacts.cc) + python rule engines (glv/): '
                                       'path facts on the clang CFG, bit-level mask domain, call-graph summaries'}],
        'checks': checks,
        'not_applicable': sorted(na, key=lambda x: x['property_id']),
        'notes': 'Static analysis only. exit 0 = all obligations discharged (or only known findings); '
                 'exit 1 = VIOLATION lines; exit 2 = analysis broken/inconclusive.',
    }
