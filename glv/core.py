"""Reports, known findings, evidence files, exit codes."""
import json
import os
import time

from .build import VERIF, AnalysisBroken

KNOWN = os.path.join(VERIF, 'known_findings.json')


class Finding:
    def __init__(self, rule, fn, symbol, loc, msg, detail=None):
        self.rule = rule          # e.g. 'E1'
        self.fn = fn              # qualified function / class (stable key)
        self.symbol = symbol      # member / variable / call (stable key)
        self.loc = loc            # file:line (diagnostic only)
        self.msg = msg
        self.detail = detail or {}

    def key(self):
        return (self.rule, self.fn, self.symbol)

    def as_dict(self):
        return {'rule': self.rule, 'function': self.fn, 'symbol': self.symbol,
                'loc': self.loc, 'msg': self.msg, 'detail': self.detail}


class RuleResult:
    """outcome of one rule on one scope."""

    def __init__(self, rule, title):
        self.rule = rule
        self.title = title
        self.obligations = 0
        self.discharged = 0
        self.findings = []
        self.notes = []
        self.samples = []
        self.instances = {}     # name -> count (with floors)
        self.assumptions = []
        self.analysed = {}      # what was analysed (functions, call sites ...)
        self.broken = []        # reasons why this rule could not decide (instance floors, vanished anchors)

    def ob(self, ok, sample=None):
        self.obligations += 1
        if ok:
            self.discharged += 1
        if sample is not None and len(self.samples) < 6:
            self.samples.append(sample)

    def fail(self, fn, symbol, loc, msg, detail=None):
        self.findings.append(Finding(self.rule, fn, symbol, loc, msg, detail))

    def note(self, s):
        self.notes.append(s)

    def floor(self, name, count, minimum):
        """a rule that matches fewer instances than confirmed by hand is broken: the check as a whole is then
        inconclusive (exit 2) - unless a rule reports a violation, which stands."""
        self.instances[name] = {'count': count, 'floor': minimum}
        if count < minimum and not self.findings:
            self.broken.append('rule %s: %s matched %d instances, floor is %d' % (self.rule, name, count, minimum))


def load_known():
    if not os.path.exists(KNOWN):
        return {'known': [], 'fixed': []}
    with open(KNOWN) as f:
        return json.load(f)


def known_match(known, prop, finding):
    for k in known.get('known', []):
        if prop not in k.get('properties', [k.get('property')]):
            continue
        if k['rule'] == finding.rule.split('@')[0] and k['key']['function'] == finding.fn and \
                k['key']['symbol'] == finding.symbol:
            return k
    return None


def write_evidence(prop, tier, results, violations, known_hits, wall, extra=None):
    evdir = os.environ.get('GLV_EVIDENCE') or os.path.join(VERIF, 'evidence')   # trial runs against scratch trees
    os.makedirs(evdir, exist_ok=True)
    obligations = sum(r.obligations for r in results)
    discharged = sum(r.discharged for r in results)
    samples = []
    for r in results:
        for s in r.samples[:4]:
            samples.append(dict({'rule': r.rule}, **s) if isinstance(s, dict) else {'rule': r.rule, 'case': s})
    assumptions = []
    for r in results:
        for a in r.assumptions:
            if a not in assumptions:
                assumptions.append(a)
    rules = []
    for r in results:
        rules.append({'rule': r.rule, 'title': r.title, 'obligations': r.obligations,
                      'discharged': r.discharged, 'instances': r.instances,
                      'analysed': r.analysed, 'notes': r.notes[:40],
                      'findings': [f.as_dict() for f in r.findings]})
    expl = '; '.join('%s: %s' % (r.rule, r.title) for r in results)
    cov = {
        'explanation': 'static rules decided on the current /repo tree (AST/CFG facts from glfacts; '
                       'nothing executed). ' + expl,
        'obligations': obligations,
        'discharged': discharged,
        'samples': samples or [{'note': 'no obligations'}],
        'rules': rules,
        'checker_cmd': 'bin/glcheck %s --tier %s' % (prop, tier),
        'trusted_base': ['clang 14 front end and CFG builder', 'tool/glfacts.cc',
                         'rule tables in glv/tables.py'],
        'known_findings_reported': known_hits,
    }
    if extra:
        cov.update(extra)
    ev = {
        'property_id': prop,
        'tier': tier,
        'seed': int(os.environ.get('VERIF_SEED', '0') or 0),
        'level': 'other',
        'coverage': cov,
        'assumptions': assumptions,
        'wall_s': round(wall, 2),
        'violations': violations,
    }
    path = os.path.join(evdir, prop + '.json')
    with open(path + '.tmp', 'w') as f:
        json.dump(ev, f, indent=1, sort_keys=False)
    os.replace(path + '.tmp', path)
    return path


def write_replay(prop, idx, finding, tier):
    d = os.path.join(os.environ.get('GLV_EVIDENCE') or os.path.join(VERIF, 'evidence'), 'replay')
    os.makedirs(d, exist_ok=True)
    path = os.path.join(d, '%s-%d.json' % (prop, idx))
    with open(path, 'w') as f:
        json.dump({'property': prop, 'tier': tier, 'finding': finding.as_dict(),
                   'rerun': 'bin/glcheck %s --tier %s' % (prop, tier)}, f, indent=1)
    return path
