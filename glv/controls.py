"""Positive controls: the rules whose expected count on the real tree is zero must report the
violating constructs of fixtures/controls.cpp, through the same extractor and the same rule code."""
import os

from . import build, effects, flow
from .build import AnalysisBroken, VERIF

FIXTURE = os.path.join(VERIF, 'fixtures', 'controls.cpp')
NS = 'GeographicLib::'


class FixtureCtx:
    def __init__(self):
        self.prog = build.extract_single(FIXTURE, roots=[VERIF + '/fixtures/', build.REPO + '/'])
        self.repo = build.REPO
        self.tier = 'quick'
        self._sum = None
        self._flows = {}

    @property
    def summaries(self):
        if self._sum is None:
            self._sum = effects.Summaries(self.prog)
        return self._sum

    def flow(self, fn):
        fl = self._flows.get(fn.usr)
        if fl is None:
            fl = flow.Flow(fn)
            self._flows[fn.usr] = fl
        return fl

    def lib_fns(self):
        return [f for f in self.prog.fns.values() if f.file == FIXTURE]

    def rel(self, p):
        return p


# rule -> (function suffix, symbol substring) expected among the findings
EXPECT = {
    'E1': [('FixtureShared', '_memo'), ('FixtureShared', '_p'), ('FixtureShared::Counter', 'calls')],
    'E3': [('FixtureShared::Cast', 'cast@')],
    'E4': [('FixtureShared::Counter', 'calls'), ('FixtureShared::Frozen', 'first')],
    'X1': [('FixtureShared::ThrowsOther', 'throw@'), ('FixtureShared::Swallow', 'catch@')],
    'X2b': [('FixtureShared::Lookup', 'strchr')],
    'X3': [('FixtureShared::WriteThenThrow', 'out')],
    'X4': [('FixtureShared::NanThrows', 'lat@'), ('FixtureShared::NanThrowsViaHelper', 'lon@')],
    'NAN2': [('FixtureShared::NanToPole', 'lat@')],
    'X9': [('FixtureShared::HalfFilled', 'buf')],
    'X10': [('FixtureShared::Decode', 'lat')],
    'X12': [('FixtureShared::DecodeLoose', 'char[2] of 3')],
    'S2': [('FixtureConic::Forward', 'gamma')],
    'D1': [('FixtureConic::SetScale', '_nrho0')],
    'H1': [('FixtureConic::SetScale', '_k0')],
    'H2': [('FixtureConic::Forward', 'y')],
    'I1': [('FixtureHarm::T', 'invR')],
    'DSP': [('FixtureHarm::Value', 'Engine<FULL>')],
    'SW1': [('FixtureLint::Use', 'Cell(m,n)'), ('FixtureLint::Wrap', 'Inner(exact as extendp)')],
    'N1': [('FixtureLint::Fold', 'lon->sincosd')],
    'D3': [('FixtureLint::Newton', 'ssig/sig')],
    'OV1': [('FixtureLint::LengthOk', 'product@')],
    'NB1': [('FixtureLint::IsNan', 's/t')],
    'RW1': [('FixtureLint::Canon', "replace(b'\\xc2\\xb0')"), ('FixtureLint::Canon', 'replace(b"\'\'")')],
    'ZQ1': [('FixtureLint::Dratio', 'tx/ty')],
    'PRT1': [('FixtureLint::From', 'case [[1, 2]]')],
    'TW1': [('FixtureLint::Far', 'dlon')],
    'ANG1': [('FixtureLint::Units', 'units')],
    'ONE1': [('FixtureLint::InZone', 'dlon')],
    'AUX1': [('FixtureLint::Rect', 'chi1 as phi')],
    'CP2': [('FixtureLint::AltSum', '_a/_alt_a')],
    'SWP1': [('FixtureLint::Order', 'sphi1,sphi2')],
    'SC1': [('FixtureLint::Radius', 'calp,salp')],
    'POS1': [('FixtureLint::Trim', 'end')],
    'DZ1': [('FixtureSphere::Jn', '/_e2')],
    'DEAD1': [('FixtureLint::Hemi', 'arm@')],
    'DS1': [('FixtureLint::Accum', 'wt@')],
    'CP1': [('FixtureLint::Pad', 'easting/northing')],
    'X7r': [('FixtureShared::HalfFilled', 'alpha_')],
    'K7': [('FixtureRaster::probe', 'B1 filepos column')],
    'W1': [('FixtureShared::HalfWritten', 'northp')],
    'X6': [('FixtureShared::Spin', 'loop@')],
    'X7': [('FixtureShared::Pick', 'alphabet')],
    'IDX1': [('FixtureShared::Pieces', 'piece[k]')],
}

_cache = {}


def run_controls(rules):
    """raises AnalysisBroken if a requested rule misses its positive control; returns a summary."""
    want = [r for r in rules if r in EXPECT]
    if not want:
        return {}
    if 'ctx' not in _cache:
        _cache['ctx'] = FixtureCtx()
    fx = _cache['ctx']
    from .rules import eff, exc
    out = {}
    for r in want:
        if r == 'E1':
            res = eff.rule_E1(fx, scope=[NS + 'FixtureShared'], floor=1)
        elif r == 'E3':
            res = eff.rule_E3(fx, floor=0)
        elif r == 'E4':
            res = eff.rule_E4(fx, floor=0, prefix=os.path.dirname(FIXTURE))
        elif r == 'X1':
            res = exc.rule_X1(fx, None)[0]
        elif r == 'X2b':
            res = exc.rule_X2b(fx)
        elif r == 'X3':
            res = exc.rule_X3(fx, None)[0]
        elif r == 'X4':
            res = exc.rule_X4(fx, None)[0]
        elif r == 'NAN2':
            res = exc.rule_NAN2(fx, None)[0]
        elif r == 'X6':
            res = exc.rule_X6(fx, None)[0]
        elif r == 'X9':
            from .rules import fill
            res = fill.rule_X9(fx, files=('controls.cpp',))[0]
        elif r == 'X10':
            from .rules import decode
            res = decode.rule_X10(fx, [NS + 'FixtureShared::Decode'], maxlen=4)[0]
        elif r == 'X12':
            from .rules import decode
            from .core import RuleResult
            res = RuleResult('X12', 'control')
            decode.rule_X10(fx, [NS + 'FixtureShared::DecodeLoose'], maxlen=5, x12=res)
        elif r == 'S2':
            from .rules import parity
            res = parity.rule_S2(fx, [NS + 'FixtureConic'])[0]
        elif r == 'H1':
            from .rules import homog
            res = homog.rule_H1(fx, [NS + 'FixtureConic'])[0]
        elif r == 'H2':
            from .rules import homog
            res = homog.rule_H2(fx, [NS + 'FixtureConic'])[0]
        elif r == 'D1':
            from .rules import derived
            res = derived.rule_D1(fx, [NS + 'FixtureConic'])[0]
        elif r == 'I1':
            from .rules import indep
            res = indep.rule_I1(fx, {NS + 'FixtureHarm'})[0]
        elif r == 'DSP':
            from .rules import dispatch
            res = dispatch.rule_DSP(fx)[0]
        elif r == 'SW1':
            from .rules import lint
            res = lint.rule_SW1(fx, None)[0]
        elif r == 'N1':
            from .rules import lint
            res = lint.rule_N1(fx, None)[0]
        elif r == 'NB1':
            from .rules import lint
            res = lint.rule_NB1(fx, None)[0]
        elif r == 'RW1':
            from .rules import rewrite
            res = rewrite.rule_RW1(fx, None)[0]
        elif r == 'ZQ1':
            from .rules import lint
            res = lint.rule_ZQ1(fx, None)[0]
        elif r == 'PRT1':
            from .rules import lint
            res = lint.rule_PRT1(fx, None)[0]
        elif r == 'TW1':
            from .rules import lint
            res = lint.rule_TW1(fx, None)[0]
        elif r == 'ANG1':
            from .rules import angles
            res = angles.rule_ANG1(fx, None)[0]
        elif r == 'ONE1':
            from .rules import lint
            res = lint.rule_ONE1(fx, None)[0]
        elif r == 'AUX1':
            from .rules import angles
            res = angles.rule_AUX1(fx, None)[0]
        elif r == 'CP2':
            from .rules import lint
            res = lint.rule_CP2(fx, None)[0]
        elif r == 'SWP1':
            from .rules import lint
            res = lint.rule_SWP1(fx, None)[0]
        elif r == 'SC1':
            from .rules import lint
            res = lint.rule_SC1(fx, None)[0]
        elif r == 'POS1':
            from .rules import lint
            res = lint.rule_POS1(fx, None)[0]
        elif r == 'DZ1':
            from .rules import lint
            res = lint.rule_DZ1(fx, None)[0]
        elif r == 'DEAD1':
            from .rules import lint
            res = lint.rule_DEAD1(fx, None)[0]
        elif r == 'DS1':
            from .rules import lint
            res = lint.rule_DS1(fx, None)[0]
        elif r == 'CP1':
            from .rules import lint
            res = lint.rule_CP1(fx, None)[0]
        elif r == 'D3':
            from .rules import lint
            res = lint.rule_D3(fx, None)[0]
        elif r == 'OV1':
            from .rules import lint
            res = lint.rule_OV1(fx, None)[0]
        elif r == 'X7r':
            from .rules import relidx
            res = relidx.rule_X7r(fx, ('controls.cpp',), values=range(0, 6))[0]
        elif r == 'K7':
            from .rules import geoidbounds
            res = geoidbounds.rule_K7(fx, cls=NS + 'FixtureRaster', entries=('probe',), with_ctor=False)[0]
        elif r == 'W1':
            from .rules import total
            res = total.rule_W1(fx, None)[0]
        elif r == 'X7':
            from .rules import bounds
            res = bounds.rule_X7(fx, files=('controls.cpp',))[0]
        elif r == 'IDX1':
            from .rules import bounds
            res = bounds.rule_IDX1(fx, files=('controls.cpp',))[0]
        else:
            continue
        got = [(f.fn, f.symbol) for f in res.findings]
        for fn_sfx, sym in EXPECT[r]:
            if not any(g[0].endswith(fn_sfx) and sym in g[1] for g in got):
                raise AnalysisBroken('positive control of rule %s not reported (%s / %s); findings: %s'
                                     % (r, fn_sfx, sym, got))
        out[r] = len(EXPECT[r])
    return out
