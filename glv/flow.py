"""FLOW engine: path facts over the clang CFG, with a bit-level domain for masks.

State at a program point = a bounded set of *alternatives*; each alternative is
a conjunction (frozenset) of literals (atom, polarity).  An atom is the
canonical string of a side-effect-free condition, or a bit atom
'b:<var>:<k>' = "bit k of the value <var> had on entry to the function".
"""
import itertools

MAXALT = 32
NBITS = 20

FALSE = frozenset()
TRUE = frozenset([frozenset()])
# optional whole-program knowledge: callee usr -> set of member names of *this it may write
MEMBER_WRITES = {}

ASSIGN_OPS = {'=', '+=', '-=', '*=', '/=', '%=', '&=', '|=', '^=', '<<=', '>>='}
PURE_FREE = {'isnan', 'isfinite', 'isinf', 'signbit', 'fabs', 'abs', 'floor', 'ceil', 'fmin',
             'fmax', 'min', 'max', 'sqrt', 'hypot', 'copysign', 'remainder', 'fmod', 'round',
             'trunc', 'lround', 'size', 'length', 'empty'}


def lit_neg(l):
    return (l[0], not l[1])


def dnf_and(a, b, cap=64):
    if a == FALSE or b == FALSE:
        return FALSE
    out = set()
    for x in a:
        for y in b:
            z = x | y
            if any((l[0], not l[1]) in z for l in z):
                continue
            out.add(z)
    return _simplify(out, cap)


def dnf_or(a, b, cap=64):
    return _simplify(set(a) | set(b), cap)


def _simplify(s, cap):
    # absorption: drop any conjunction that is a superset of another
    s = sorted(s, key=len)
    out = []
    for c in s:
        if any(o <= c for o in out):
            continue
        out.append(c)
    if len(out) > cap:
        return None  # unknown
    return frozenset(out)


def dnf_not(a, cap=64):
    if a is None:
        return None
    if a == FALSE:
        return TRUE
    if a == TRUE:
        return FALSE
    res = TRUE
    for conj in a:
        neg = frozenset(frozenset([lit_neg(l)]) for l in conj)
        res = dnf_and(res, neg, cap)
        if res is None:
            return None
    return res


def _licence_atom(a):
    if a.startswith('b:') or a.startswith('eq:'):
        return True
    if a.startswith('u:'):
        return False
    if '(' in a:
        return (a.endswith('(this)') and a.count('(') == 1) or a.startswith('isnan(') or \
            a.startswith('std::isnan(') or a.startswith('isfinite(')
    return True


def _merge_compl(s):
    s = set(s)
    changed = True
    while changed and len(s) > 1:
        changed = False
        for c in sorted(s, key=len):
            for l in c:
                c2 = (c - {l}) | {(l[0], not l[1])}
                if c2 in s:
                    s.discard(c)
                    s.discard(c2)
                    s.add(c - {l})
                    changed = True
                    break
            if changed:
                break
    out = []
    for c in sorted(s, key=len):
        if any(o <= c for o in out):
            continue
        out.append(c)
    return out


class BV:
    """abstract unsigned value: per bit a DNF over literals (None = unknown)."""
    __slots__ = ('bits',)

    def __init__(self, bits):
        self.bits = tuple(bits)

    @staticmethod
    def const(v):
        v &= (1 << NBITS) - 1 if v >= 0 else v & ((1 << NBITS) - 1)
        return BV(TRUE if (v >> k) & 1 else FALSE for k in range(NBITS))

    @staticmethod
    def sym(name):
        return BV(frozenset([frozenset([('b:%s:%d' % (name, k), True)])]) for k in range(NBITS))

    @staticmethod
    def unknown(tag):
        return BV(frozenset([frozenset([('u:%s:%d' % (tag, k), True)])]) for k in range(NBITS))

    def __eq__(self, o):
        return isinstance(o, BV) and self.bits == o.bits

    def __hash__(self):
        return hash(self.bits)

    def band(self, o):
        return BV(_opq(dnf_and(a, b)) for a, b in zip(self.bits, o.bits))

    def bor(self, o):
        return BV(_opq(dnf_or(a, b)) for a, b in zip(self.bits, o.bits))

    def bnot(self):
        return BV(_opq(dnf_not(a)) for a in self.bits)

    def ite(self, c, o):
        """c ? self : o   (c a DNF)."""
        nc = dnf_not(c)
        out = []
        for a, b in zip(self.bits, o.bits):
            if a == b:
                out.append(a)
                continue
            if c is None or nc is None:
                out.append(_opq(None))
                continue
            x = dnf_and(c, a)
            y = dnf_and(nc, b)
            out.append(_opq(None if x is None or y is None else dnf_or(x, y)))
        return BV(out)

    def nonzero(self):
        r = FALSE
        for b in self.bits:
            r = dnf_or(r, b)
            if r is None:
                return None
        return r

    def is_const(self):
        return all(b in (TRUE, FALSE) for b in self.bits)

    def const_value(self):
        return sum((1 << k) for k, b in enumerate(self.bits) if b == TRUE)

    def show(self):
        out = []
        for k, b in enumerate(self.bits):
            if b == FALSE:
                continue
            if b == TRUE:
                out.append('%d:1' % k)
            else:
                out.append('%d:%s' % (k, '|'.join('&'.join(('' if p else '!') + a for a, p in sorted(c)) for c in b)))
        return '{' + ' '.join(out) + '}'


_opq_counter = itertools.count()


def _opq(d):
    if d is None:
        return frozenset([frozenset([('u:opq%d' % next(_opq_counter), True)])])
    return d


def is_intlike(t):
    t = t.replace('const ', '').strip()
    return t in ('unsigned int', 'int', 'unsigned', 'long', 'unsigned long', 'bool',
                 'long long', 'unsigned long long', 'short', 'unsigned short') or t.startswith('enum ')


class Canon:
    """canonical strings for side-effect free expressions."""

    def __init__(self, fn):
        self.fn = fn
        self.cache = {}

    def of(self, nid):
        if nid is None or nid < 0:
            return None
        if nid in self.cache:
            return self.cache[nid]
        r = self._of(nid)
        self.cache[nid] = r
        return r

    def _of(self, nid):
        fn = self.fn
        nid = fn.strip(nid)
        n = fn.nodes[nid]
        k = n['k']
        if 'cv' in n and k not in ('DeclRefExpr', 'MemberExpr'):
            return (n['cv'], frozenset())
        if k == 'ImplicitCastExpr' or k in ('CXXFunctionalCastExpr', 'CStyleCastExpr', 'CXXStaticCastExpr'):
            if n['ch']:
                return self.of(n['ch'][0])
            return None
        if k == 'DeclRefExpr':
            if n.get('rk') in ('enumerator',):
                return (n.get('cv', n['name']), frozenset())
            return ('v:' + n['d'], frozenset([n['d']]))
        if k == 'CXXThisExpr':
            return ('this', frozenset())
        if k == 'MemberExpr':
            if n.get('mk') == 'enumerator':
                return (n.get('cv', n['m']), frozenset())
            if n.get('mk') == 'smember':
                return ('s:' + n.get('q', n['m']), frozenset([n['md']]))
            if n.get('thisbase'):
                key = 'this.' + n['m']
                return (key, frozenset([key]))
            b = self.of(n['ch'][0]) if n['ch'] else None
            if b is None:
                return None
            return (b[0] + '.' + n['m'], b[1])
        if k in ('IntegerLiteral', 'FloatingLiteral', 'CXXBoolLiteralExpr', 'CharacterLiteral'):
            return (n['v'], frozenset())
        if k == 'UnaryOperator':
            if n['op'] in ('++', '--'):
                return None
            a = self.of(n['ch'][0])
            if a is None:
                return None
            return ('(%s%s)' % (n['op'], a[0]), a[1])
        if k in ('BinaryOperator', 'CompoundAssignOperator'):
            if n['op'] in ASSIGN_OPS or n['op'] == ',':
                return None
            a = self.of(n['ch'][0])
            b = self.of(n['ch'][1])
            if a is None or b is None:
                return None
            op = n['op']
            if op == '>':
                a, b, op = b, a, '<'
            elif op == '>=':
                a, b, op = b, a, '<='
            elif op in ('==', '!=', '+', '*', '&', '|') and b[0] < a[0]:
                a, b = b, a
            return ('(%s%s%s)' % (a[0], op, b[0]), a[1] | b[1])
        if k == 'ArraySubscriptExpr':
            a = self.of(n['ch'][0])
            b = self.of(n['ch'][1])
            if a is None or b is None:
                return None
            return ('%s[%s]' % (a[0], b[0]), a[1] | b[1])
        if k in ('CallExpr', 'CXXMemberCallExpr', 'CXXOperatorCallExpr'):
            ce = n.get('callee')
            if not ce:
                return None
            pure = False
            if ce.get('method'):
                pure = ce.get('mconst') or ce.get('mstatic')
            else:
                pure = ce['name'] in PURE_FREE or (ce.get('inrepo') and all(p in ('v', 'cr', 'cp') for p in ce['pk']))
            if ce.get('method') and ce.get('mstatic') and not all(p in ('v', 'cr', 'cp') for p in ce['pk']):
                pure = False
            if not pure:
                return None
            parts = []
            men = frozenset()
            if n.get('ckind') == 'member':
                if n.get('objthis'):
                    parts.append('this')
                    men = men | frozenset(['this.*'])
                else:
                    o = self.of(n.get('obj', -1))
                    if o is None:
                        return None
                    parts.append(o[0])
                    men = men | o[1]
            for a in n.get('args', []):
                c = self.of(a)
                if c is None:
                    return None
                parts.append(c[0])
                men = men | c[1]
            return ('%s(%s)' % (ce['q'], ','.join(parts)), men)
        if k == 'ConditionalOperator':
            c = self.of(n['cond'])
            a = self.of(n['then'])
            b = self.of(n['else'])
            if c is None or a is None or b is None:
                return None
            return ('(%s?%s:%s)' % (c[0], a[0], b[0]), c[1] | a[1] | b[1])
        if k == 'CXXBoolLiteralExpr':
            return (n['v'], frozenset())
        return None


def var_key(fn, nid):
    """key of a scalar variable reference (for the mask environment)."""
    nid = fn.strip(nid)
    n = fn.nodes[nid]
    if n['k'] == 'DeclRefExpr' and n.get('rk') in ('param', 'local'):
        return 'v:' + n['d']
    if n['k'] == 'MemberExpr' and n.get('mk') == 'field':
        if n.get('thisbase'):
            return 'this.' + n['m']
        b = fn.strip(n['ch'][0]) if n['ch'] else -1
        if b >= 0:
            bn = fn.nodes[b]
            if bn['k'] == 'DeclRefExpr' and bn.get('rk') in ('param', 'local'):
                return 'o:%s.%s' % (bn['d'], n['m'])
    return None


class Flow:
    def __init__(self, fn, entry_facts=None, entry_env=None, member_env=None):
        """entry_facts: alternatives assumed at function entry (from call sites).
        member_env: 'this.x' -> BV for members with known constant/derived values."""
        self.fn = fn
        self.canon = Canon(fn)
        self.entry_facts = entry_facts if entry_facts is not None else frozenset([frozenset()])
        self.entry_env = dict(entry_env or {})
        self.member_env = dict(member_env or {})
        self.pos = {}          # node id -> (block id, index)
        self.env_in = {}
        self.facts_in = {}
        self._elts = {}
        self.mentions = {}     # atom -> frozenset(keys)
        self.eqs = {}          # equivalence atom -> (atom, atom)
        if fn.cfg:
            self._index()
            self._solve_env()
            self._solve_facts()

    # ----------------------------------------------------------- structure
    def _index(self):
        fn = self.fn
        self.preds = {b: [] for b in fn.blocks}
        for bid, b in fn.blocks.items():
            els = []
            for e in b['els']:
                if isinstance(e, dict):
                    els.append(('init', e['init']))
                else:
                    els.append(('stmt', e))
                    self.pos.setdefault(e, (bid, len(els) - 1))
            self._elts[bid] = els
            for s in b['succ']:
                if s is not None:
                    self.preds[s['b']].append(bid)
        # reverse post-order from entry
        order = []
        seen = set()
        st = [(fn.cfg['entry'], iter(self._succs(fn.cfg['entry'])))]
        seen.add(fn.cfg['entry'])
        while st:
            b, it = st[-1]
            adv = False
            for s in it:
                if s not in seen:
                    seen.add(s)
                    st.append((s, iter(self._succs(s))))
                    adv = True
                    break
            if not adv:
                order.append(b)
                st.pop()
        self.rpo = list(reversed(order))
        self.reachable = seen

    def _succs(self, bid):
        return [s['b'] for s in self.fn.blocks[bid]['succ'] if s is not None]

    def locate(self, nid):
        """(block, index) where node nid is evaluated (nearest element)."""
        if nid in self.pos:
            return self.pos[nid]
        # descend: first evaluated descendant; else ascend
        fn = self.fn
        for j in fn.walk(nid):
            if j in self.pos:
                return self.pos[j]
        for a in fn.ancestors(nid):
            if a in self.pos:
                return self.pos[a]
        return None

    # ----------------------------------------------------------- mask env
    def _init_env(self):
        env = {}
        for p in self.fn.params:
            if is_intlike(p['t']) and p['pk'] == 'v':
                env['v:' + p['d']] = BV.sym('in:' + p['name'])
        env.update(self.entry_env)
        return env

    def eval_bv(self, nid, env):
        fn = self.fn
        nid = fn.strip(nid)
        n = fn.nodes[nid]
        k = n['k']
        if 'cv' in n:
            try:
                return BV.const(int(n['cv']))
            except ValueError:
                pass
        if k in ('ImplicitCastExpr', 'CXXFunctionalCastExpr', 'CStyleCastExpr', 'CXXStaticCastExpr'):
            if n.get('ck') in ('IntegralCast', 'LValueToRValue', 'NoOp') and n['ch']:
                return self.eval_bv(n['ch'][0], env)
            if n.get('ck') == 'IntegralToBoolean' and n['ch']:
                inner = self.eval_bv(n['ch'][0], env)
                nz = inner.nonzero()
                return BV([_opq(nz)] + [FALSE] * (NBITS - 1))
            return BV.unknown('n%d' % nid)
        vk = var_key(fn, nid)
        if vk is not None:
            if vk in env:
                return env[vk]
            if vk in self.member_env:
                return self.member_env[vk]
            if vk.startswith('this.'):
                return BV.sym(vk)
            if vk.startswith('o:'):
                return BV.sym(vk)
            return BV.unknown('n%d' % nid)
        if k in ('BinaryOperator', 'CompoundAssignOperator'):
            op = n['op']
            if op == '&':
                return self.eval_bv(n['ch'][0], env).band(self.eval_bv(n['ch'][1], env))
            if op == '|':
                return self.eval_bv(n['ch'][0], env).bor(self.eval_bv(n['ch'][1], env))
            if op == ',':
                return self.eval_bv(n['ch'][1], env)
            if op in ('=', '&=', '|='):
                # value of an assignment expression
                r = self.eval_bv(n['ch'][1], env)
                if op == '=':
                    return r
                l = self.eval_bv(n['ch'][0], env)
                return l.band(r) if op == '&=' else l.bor(r)
        if k == 'UnaryOperator' and n['op'] == '~':
            return self.eval_bv(n['ch'][0], env).bnot()
        if k == 'ConditionalOperator':
            self._partial = False
            c = self.cond_dnf(n['cond'], env)
            if self._partial:
                c = None
            return self.eval_bv(n['then'], env).ite(c, self.eval_bv(n['else'], env))
        return BV.unknown('n%d' % nid)

    def _env_transfer_node(self, nid, env):
        """effect of evaluating element nid on the mask env (in place)."""
        fn = self.fn
        n = fn.nodes[nid]
        k = n['k']
        if k in ('BinaryOperator', 'CompoundAssignOperator') and n['op'] in ASSIGN_OPS:
            vk = var_key(fn, n['ch'][0])
            if vk is not None and (vk in env or is_intlike(n.get('t', ''))):
                if n['op'] == '=':
                    env[vk] = self.eval_bv(n['ch'][1], env)
                elif n['op'] == '&=':
                    env[vk] = self.eval_bv(n['ch'][0], env).band(self.eval_bv(n['ch'][1], env))
                elif n['op'] == '|=':
                    env[vk] = self.eval_bv(n['ch'][0], env).bor(self.eval_bv(n['ch'][1], env))
                else:
                    env[vk] = BV.unknown('n%d' % nid)
        elif k == 'UnaryOperator' and n['op'] in ('++', '--'):
            vk = var_key(fn, n['ch'][0])
            if vk is not None and vk in env:
                env[vk] = BV.unknown('n%d' % nid)
        elif k == 'DeclStmt':
            for d in n['decls']:
                if is_intlike(d['t']) and d.get('pk') == 'v' and not d.get('static_local'):
                    if 'init' in d and d['init'] >= 0:
                        env['v:' + d['d']] = self.eval_bv(d['init'], env)
                    else:
                        env['v:' + d['d']] = BV.unknown('n%d' % nid)
        elif k in ('CallExpr', 'CXXMemberCallExpr', 'CXXOperatorCallExpr', 'CXXConstructExpr'):
            ce = n.get('callee') or {}
            pk = ce.get('pk', [])
            args = n.get('args', [])
            off = 1 if (n.get('ckind') == 'operator' and ce.get('method')) else 0
            for i, a in enumerate(args):
                j = i - off
                kind = pk[j] if 0 <= j < len(pk) else 'v'
                if kind in ('r', 'p'):
                    vk = var_key(fn, a)
                    if vk is None:
                        an = fn.nodes[fn.strip(a)]
                        if an['k'] == 'UnaryOperator' and an['op'] == '&':
                            vk = var_key(fn, an['ch'][0])
                    if vk is not None and vk in env:
                        env[vk] = BV.unknown('n%d' % nid)
            if n.get('ckind') == 'member' and n.get('objthis') and not ce.get('mconst') and not ce.get('mstatic'):
                mw = MEMBER_WRITES.get(ce.get('usr'))
                for vk in list(env):
                    if vk.startswith('this.') and (mw is None or vk[5:] in mw):
                        env[vk] = BV.unknown('n%d.%s' % (nid, vk))

    def _env_transfer_init(self, idx, env):
        it = self.fn.d['inits'][idx]
        if it.get('kind') == 'member' and it['init'] >= 0:
            init = self.fn.nodes[it['init']]
            if is_intlike(init.get('t', '')):
                env['this.' + it['m']] = self.eval_bv(it['init'], env)

    def _solve_env(self):
        fn = self.fn
        entry = fn.cfg['entry']
        self.env_in = {entry: self._init_env()}
        work = list(self.rpo)
        inwork = set(work)
        iters = 0
        while work:
            iters += 1
            if iters > 5000:
                break
            b = work.pop(0)
            inwork.discard(b)
            if b not in self.env_in:
                continue
            env = dict(self.env_in[b])
            for kind, e in self._elts[b]:
                if kind == 'stmt':
                    self._env_transfer_node(e, env)
                else:
                    self._env_transfer_init(e, env)
            for s in self._succs(b):
                old = self.env_in.get(s)
                if old is None:
                    new = dict(env)
                else:
                    new = {}
                    for vk in set(old) | set(env):
                        a, c = old.get(vk), env.get(vk)
                        if a is None or c is None:
                            continue  # declared on one path only: out of scope at join
                        if a == c:
                            new[vk] = a
                        else:
                            new[vk] = BV(x if x == y else frozenset([frozenset([('u:phi%d:%s:%d' % (s, vk, kk), True)])])
                                         for kk, (x, y) in enumerate(zip(a.bits, c.bits)))
                if old != new:
                    self.env_in[s] = new
                    if s not in inwork:
                        work.append(s)
                        inwork.add(s)

    def env_at(self, nid):
        loc = self.locate(nid)
        if loc is None:
            return {}
        b, idx = loc
        env = dict(self.env_in.get(b, {}))
        for kind, e in self._elts[b][:idx]:
            if kind == 'stmt':
                self._env_transfer_node(e, env)
            else:
                self._env_transfer_init(e, env)
        return env

    # ----------------------------------------------------------- conditions
    def cond_dnf(self, nid, env):
        """DNF for 'condition nid is true' (None = unknown)."""
        return self.cond2(nid, env)[0]

    def cond2(self, nid, env):
        """(DNF implied by cond true, DNF implied by cond false); None = nothing known.
        Both are *implied* facts (necessary conditions), so partial knowledge is sound."""
        fn = self.fn
        n = fn.nodes[nid]
        k = n['k']
        if k == 'ImplicitCastExpr' and n.get('ck') == 'IntegralToBoolean':
            inner = fn.strip(n['ch'][0])
            bv = self.eval_bv(inner, env)
            nz = bv.nonzero()
            if nz is not None and self._useful(nz):
                return nz, dnf_not(nz)
            return self._atom2(nid)
        if k in ('ImplicitCastExpr', 'CXXFunctionalCastExpr', 'ParenExpr', 'ExprWithCleanups',
                 'MaterializeTemporaryExpr', 'CXXBindTemporaryExpr', 'ConstantExpr') and n['ch']:
            return self.cond2(n['ch'][0], env)
        if k == 'UnaryOperator' and n['op'] == '!':
            p, q = self.cond2(n['ch'][0], env)
            return q, p
        if k == 'BinaryOperator':
            op = n['op']
            if op in ('&&', '||'):
                ap, an = self.cond2(n['ch'][0], env)
                bp, bn = self.cond2(n['ch'][1], env)

                def both(x, y):   # conjunction, partial allowed
                    if x is None or y is None:
                        self._partial = True
                    if x is None:
                        return y
                    if y is None:
                        return x
                    return dnf_and(x, y)

                def either(x, y):  # disjunction, needs both
                    if x is None or y is None:
                        return None
                    return dnf_or(x, y)
                if op == '&&':
                    return both(ap, bp), either(an, bn)
                return either(ap, bp), both(an, bn)
            if op in ('==', '!='):
                l, r = fn.nodes[fn.strip(n['ch'][0])], fn.nodes[fn.strip(n['ch'][1])]
                # (x & M) == M : every bit of M is set in x
                if 'cv' in r and int(r['cv']) > 0 and l['k'] == 'BinaryOperator' and l.get('op') == '&' and \
                        is_intlike(l.get('t', '')):
                    mval = int(r['cv'])
                    sides = [fn.nodes[fn.strip(c)] for c in l['ch']]
                    if any('cv' in sd and int(sd['cv']) == mval for sd in sides) and mval < (1 << NBITS):
                        bv = self.eval_bv(n['ch'][0], env)
                        allset = TRUE
                        for kbit in range(NBITS):
                            if (mval >> kbit) & 1:
                                allset = dnf_and(allset, bv.bits[kbit]) if allset is not None else None
                        if allset is not None and self._useful(allset):
                            nall = dnf_not(allset)
                            return (allset, nall) if op == '==' else (nall, allset)
                if 'cv' in r and int(r['cv']) == 0 and is_intlike(l.get('t', '')) and l.get('t') != 'bool':
                    bv = self.eval_bv(n['ch'][0], env)
                    nz = bv.nonzero()
                    if nz is not None and self._useful(nz):
                        return (nz, dnf_not(nz)) if op == '!=' else (dnf_not(nz), nz)
                # general bit-vector equality (x & m) == m with a mask m that is itself selected by a condition
                if is_intlike(l.get('t', '')) and is_intlike(r.get('t', '')) and l.get('t') != 'bool' and \
                        r.get('t') != 'bool' and 'cv' not in r and 'cv' not in l:
                    lb = self.eval_bv(n['ch'][0], env)
                    rb = self.eval_bv(n['ch'][1], env)
                    diff = [(a, b) for a, b in zip(lb.bits, rb.bits) if a != b]
                    opaque = any(lt[0].startswith('u:') for a, b in diff for d_ in (a, b) if d_ not in (TRUE, FALSE)
                                 for c_ in d_ for lt in c_)
                    if diff and len(diff) <= 8 and not opaque:
                        eq = TRUE
                        for a, b in diff:
                            na, nb = dnf_not(a), dnf_not(b)
                            x = None if na is None or nb is None else dnf_or(dnf_and(a, b), dnf_and(na, nb))
                            eq = None if (eq is None or x is None) else dnf_and(eq, x)
                            if eq is None:
                                break
                        if eq is not None and self._useful(eq):
                            neq = dnf_not(eq)
                            return (eq, neq) if op == '==' else (neq, eq)
        if k == 'CXXBoolLiteralExpr':
            return (TRUE, FALSE) if n['v'] == '1' else (FALSE, TRUE)
        if 'cv' in n:
            return (TRUE, FALSE) if int(n['cv']) != 0 else (FALSE, TRUE)
        if k == 'DeclRefExpr' and n.get('rk') == 'local' and n.get('t', '').replace('const ', '') == 'bool':
            bd = self._bool_def(n['d'])
            if bd is not None:
                a, b = self._atom2(nid)
                p, q = bd

                def both(x, y):
                    if x is None:
                        return y
                    if y is None:
                        return x
                    return dnf_and(x, y)
                return both(a, p), both(b, q)
        return self._atom2(nid)

    def _bool_def(self, d):
        """(pos, neg) of the initialiser of a bool local that is defined exactly once (a named test)."""
        c = getattr(self, '_booldefs', None)
        if c is None:
            c = self._booldefs = {}
            fn = self.fn
            cnt = {}
            init = {}
            for i, n in fn.all_nodes():
                if n['k'] == 'DeclStmt':
                    for dd in n['decls']:
                        if dd['t'].replace('const ', '') == 'bool' and dd.get('init', -1) >= 0 and not dd.get('static_local'):
                            init[dd['d']] = (i, dd['init'])
                elif n['k'] in ('BinaryOperator', 'CompoundAssignOperator') and n.get('op') in ASSIGN_OPS:
                    ln = fn.nodes[fn.strip(n['ch'][0])]
                    if ln['k'] == 'DeclRefExpr':
                        cnt[ln['d']] = cnt.get(ln['d'], 0) + 1
                elif n['k'] == 'UnaryOperator' and n.get('op') == '&':
                    ln = fn.nodes[fn.strip(n['ch'][0])]
                    if ln['k'] == 'DeclRefExpr':
                        cnt[ln['d']] = cnt.get(ln['d'], 0) + 1
            self._boolinit = {k: v for k, v in init.items() if not cnt.get(k)}
        if d in c:
            return c[d]
        c[d] = None
        bi = self._boolinit.get(d)
        if bi is not None:
            decl, init = bi
            loc = self.locate(decl)
            if loc is not None:
                env = self.env_at(decl)
                self._partial = False
                p, q = self.cond2(init, env)
                # mask facts are position independent (they speak about incoming values); any other atom is kept
                # only if nothing it mentions is assigned after the declaration of the named test (lexically later
                # in the function: from then on the usual kill-on-assignment of the fact dataflow takes over at the
                # point of use, so only writes between the definition and the use could invalidate it)
                later = self._keys_written_after(decl)

                def keep(x):
                    if x is None:
                        return None
                    r = frozenset(frozenset(l for l in cj if l[0].startswith('b:') or self._atom_stable_after(l[0], later))
                                  for cj in x)
                    return None if (frozenset() in r or not r) else r
                c[d] = (keep(p), keep(q))
        return c[d]

    def _keys_written_after(self, decl):
        """{key: first line} of variables assigned lexically after statement decl (loops: anywhere in an enclosing loop)."""
        fn = self.fn
        dl = fn.nodes[decl]['l']
        loops = [a for a in fn.ancestors(decl) if fn.nodes[a]['k'] in ('ForStmt', 'WhileStmt', 'DoStmt', 'CXXForRangeStmt')]
        inloop = set()
        for a in loops:
            inloop |= set(fn.walk(a))
        out = {}
        for i, n in fn.all_nodes():
            if n['l'] < dl and i not in inloop:
                continue
            for k in self.written_keys(i):
                out.setdefault(k, n['l'])
        return out

    def _atom_stable_after(self, atom, later):
        """no variable the atom mentions is written before the end of the statement that first tests the named
        bool; approximated by: the first write is at least two lines below the declaration's uses... conservatively:
        the mentioned variables are never written after the declaration except inside branches guarded by the named
        test itself (handled by the dataflow kill).  Here: accept only atoms none of whose variables is written at
        all after the declaration, or only written on lines after every read of the bool."""
        men = self.mentions.get(atom)
        if not men:
            return False
        for k in men:
            if k in later or (k.startswith('this.') and 'this.*' in later):
                # written later: acceptable only if after the last read of any named test (see _last_bool_read)
                if later.get(k, later.get('this.*')) <= self._last_bool_read():
                    return False
        return True

    def _last_bool_read(self):
        r = getattr(self, '_lbr', None)
        if r is None:
            fn = self.fn
            names = set(self._boolinit)
            r = 0
            for i, n in fn.all_nodes():
                if n['k'] == 'DeclRefExpr' and n.get('d') in names:
                    r = max(r, n['l'])
            self._lbr = r
        return r

    def _atom2(self, nid):
        c = self.canon.of(nid)
        if c is None:
            return None, None
        atom, men = c
        self.mentions[atom] = men
        return frozenset([frozenset([(atom, True)])]), frozenset([frozenset([(atom, False)])])

    @staticmethod
    def _useful(d):
        # a DNF consisting only of opaque atoms carries no information
        if d in (TRUE, FALSE):
            return True
        return any(not l[0].startswith('u:') for c in d for l in c)

    # ----------------------------------------------------------- facts
    def _kill(self, alts, keys):
        if not keys:
            return alts
        out = set()
        for a in alts:
            out.add(frozenset(l for l in a if not self._mentions(l[0], keys)))
        return frozenset(out)

    def _mentions(self, atom, keys):
        m = self.mentions.get(atom)
        if not m:
            return False
        for kx in keys:
            if kx in m:
                return True
            if kx == 'this.*' and any(x.startswith('this.') for x in m):
                return True
            if kx.startswith('this.') and 'this.*' in m:
                return True
        return False

    def written_keys(self, nid):
        """variable keys whose value may change when element nid is evaluated."""
        fn = self.fn
        n = fn.nodes[nid]
        k = n['k']
        keys = []
        if k in ('BinaryOperator', 'CompoundAssignOperator') and n['op'] in ASSIGN_OPS:
            keys += self._lvalue_keys(n['ch'][0])
        elif k == 'UnaryOperator' and n['op'] in ('++', '--'):
            keys += self._lvalue_keys(n['ch'][0])
        elif k in ('CallExpr', 'CXXMemberCallExpr', 'CXXOperatorCallExpr', 'CXXConstructExpr'):
            ce = n.get('callee') or {}
            pk = ce.get('pk', [])
            args = n.get('args', [])
            off = 1 if (n.get('ckind') == 'operator' and ce.get('method')) else 0
            for i, a in enumerate(args):
                j = i - off
                kind = pk[j] if 0 <= j < len(pk) else ('r' if j < 0 and not ce.get('mconst') else 'v')
                if ce.get('variadic') and j >= len(pk):
                    kind = 'p'
                if kind in ('r', 'p'):
                    keys += self._lvalue_keys(a)
            if n.get('ckind') == 'member' and not ce.get('mconst') and not ce.get('mstatic'):
                if n.get('objthis'):
                    mw = MEMBER_WRITES.get(ce.get('usr'))
                    if mw is None:
                        keys.append('this.*')
                    else:
                        keys.extend('this.' + m for m in mw)
                elif 'obj' in n:
                    keys += self._lvalue_keys(n['obj'])
        return keys

    def _lvalue_keys(self, nid):
        fn = self.fn
        nid = fn.strip(nid)
        n = fn.nodes[nid]
        if n['k'] == 'UnaryOperator' and n['op'] in ('&', '*'):
            return self._lvalue_keys(n['ch'][0])
        if n['k'] == 'ArraySubscriptExpr':
            return self._lvalue_keys(n['ch'][0])
        if n['k'] == 'DeclRefExpr':
            return [n['d']]
        if n['k'] == 'MemberExpr':
            if n.get('thisbase'):
                return ['this.' + n['m']]
            if n['ch']:
                return self._lvalue_keys(n['ch'][0])
        if n['k'] == 'CXXThisExpr':
            return ['this.*']
        return []

    def _gen(self, alts, e, init):
        """facts established by an assignment of a boolean: K = constant, or K = R (equivalence)."""
        fn = self.fn
        if init is not None:
            if init['init'] < 0:
                return alts
            rhs = init['init']
            latom = 'this.' + init['m']
            lmen = frozenset([latom])
            lt = fn.nodes[rhs].get('t', '')
        else:
            n = fn.nodes[e]
            if n['k'] != 'BinaryOperator' or n.get('op') != '=':
                return alts
            lc = self.canon.of(n['ch'][0])
            if lc is None:
                return alts
            latom, lmen = lc
            rhs = n['ch'][1]
            lt = n.get('t', '')
        if lt.replace('const ', '') != 'bool':
            return alts
        rn = fn.nodes[fn.strip(rhs)]
        self.mentions[latom] = lmen
        if 'cv' in rn or rn['k'] == 'CXXBoolLiteralExpr':
            v = (int(rn['cv']) != 0) if 'cv' in rn else (rn['v'] == '1')
            return frozenset(a | frozenset([(latom, v)]) for a in alts)
        rc = self.canon.of(rhs)
        if rc is None or rc[0] == latom:
            return alts
        ratom, rmen = rc
        self.mentions[ratom] = rmen
        eq = 'eq:%s=%s' % (latom, ratom)
        self.mentions[eq] = lmen | rmen
        self.eqs[eq] = (latom, ratom)
        out = set()
        for a in alts:
            z = set(a)
            z.add((eq, True))
            for pol in (True, False):
                if (ratom, pol) in a:
                    z.add((latom, pol))
            out.add(frozenset(z))
        return frozenset(out)

    def _eq_close(self, z):
        if not self.eqs:
            return z
        z = set(z)
        for (a, pol) in list(z):
            if a in self.eqs and pol:
                x, y = self.eqs[a]
                for p2 in (True, False):
                    if (x, p2) in z:
                        z.add((y, p2))
                    if (y, p2) in z:
                        z.add((x, p2))
        return frozenset(z)

    def _solve_facts(self):
        fn = self.fn
        entry = fn.cfg['entry']
        self.facts_in = {entry: self.entry_facts}
        work = list(self.rpo)
        inwork = set(work)
        iters = 0
        while work:
            iters += 1
            if iters > 4000:
                # give up: no facts anywhere (sound)
                self.facts_in = {b: frozenset([frozenset()]) for b in fn.blocks}
                return
            b = work.pop(0)
            inwork.discard(b)
            if b not in self.facts_in:
                continue
            alts = self.facts_in[b]
            env = dict(self.env_in.get(b, {}))
            for kind, e in self._elts[b]:
                if kind == 'stmt':
                    alts = self._kill(alts, self.written_keys(e))
                    alts = self._gen(alts, e, None)
                    self._env_transfer_node(e, env)
                else:
                    it = fn.d['inits'][e]
                    if it.get('kind') == 'member':
                        alts = self._kill(alts, ['this.' + it['m']])
                        alts = self._gen(alts, None, it)
                    self._env_transfer_init(e, env)
            blk = fn.blocks[b]
            succ = blk['succ']
            cond = blk.get('cond')
            tk = blk.get('termk')
            outs = []
            if cond is not None and len(succ) == 2 and tk not in ('SwitchStmt', 'CXXTryStmt'):
                d, nd = self.cond2(cond, env)
                for s, dd in ((succ[0], d), (succ[1], nd)):
                    if s is None:
                        continue
                    if dd is None:
                        outs.append((s['b'], alts))
                    else:
                        outs.append((s['b'], self._conj(alts, dd)))
            else:
                for s in succ:
                    if s is not None:
                        outs.append((s['b'], alts))
            for sb, na in outs:
                if not na:
                    continue  # infeasible edge
                old = self.facts_in.get(sb)
                new = na if old is None else self._join(old, na)
                if old != new:
                    self.facts_in[sb] = new
                    if sb not in inwork:
                        work.append(sb)
                        inwork.add(sb)

    def _conj(self, alts, d):
        out = set()
        for a in alts:
            for c in d:
                z = self._eq_close(a | c)
                if any((l[0], not l[1]) in z for l in z):
                    continue
                out.add(z)
        return self._bound(out)

    def _join(self, a, b):
        return self._bound(set(a) | set(b))

    @staticmethod
    def _bound(s):
        s = set(s)
        # absorption (an alternative with fewer literals subsumes)
        out = []
        for c in sorted(s, key=len):
            if any(o <= c for o in out):
                continue
            out.append(c)
        if len(out) > MAXALT:
            # first forget the atoms that can never serve as a licence (comparisons of values),
            # merge what becomes equal, and only then fall back to the common literals
            proj = set()
            for c in out:
                proj.add(frozenset(l for l in c if _licence_atom(l[0])))
            proj = _merge_compl(proj)
            if len(proj) <= MAXALT:
                return frozenset(proj)
            common = frozenset.intersection(*out)
            return frozenset([common])
        return frozenset(out)

    def edge_conds(self, b):
        """[(succ block, DNF implied by taking that edge or None)] for block b."""
        c = getattr(self, '_edge_cache', None)
        if c is None:
            c = self._edge_cache = {}
        if b in c:
            return c[b]
        fn = self.fn
        blk = fn.blocks[b]
        succ = blk['succ']
        cond = blk.get('cond')
        tk = blk.get('termk')
        out = []
        if cond is not None and len(succ) == 2 and tk not in ('SwitchStmt', 'CXXTryStmt'):
            env = dict(self.env_in.get(b, {}))
            for kind, e in self._elts[b]:
                if kind == 'stmt':
                    self._env_transfer_node(e, env)
                else:
                    self._env_transfer_init(e, env)
            d, nd = self.cond2(cond, env)
            for s_, dd in ((succ[0], d), (succ[1], nd)):
                if s_ is not None:
                    out.append((s_['b'], dd))
        else:
            for s_ in succ:
                if s_ is not None:
                    out.append((s_['b'], None))
        c[b] = out
        return out

    def assigned_keys(self):
        c = getattr(self, '_assigned', None)
        if c is None:
            c = set()
            for b, els in self._elts.items():
                for kind, e in els:
                    if kind == 'stmt':
                        c.update(self.written_keys(e))
                    else:
                        it = self.fn.d['inits'][e]
                        if it.get('kind') == 'member':
                            c.add('this.' + it['m'])
            self._assigned = c
        return c

    def stable_from(self, atom, b):
        """atom cannot change on any path starting at the successors of block b."""
        if atom.startswith('b:'):
            return True
        if atom.startswith('u:') or atom.startswith('eq:'):
            return False
        m = self.mentions.get(atom)
        if m is None:
            return False
        wb = self._writes_by_block()
        reach = self._reach_from(b)
        for blk in reach:
            for k in wb.get(blk, ()):
                for mk in m:
                    if mk == k or (mk == 'this.*' and k.startswith('this.')) or (k == 'this.*' and mk.startswith('this.')):
                        return False
        return True

    def _writes_by_block(self):
        c = getattr(self, '_wbb', None)
        if c is None:
            c = {}
            for b, els in self._elts.items():
                ks = set()
                for kind, e in els:
                    if kind == 'stmt':
                        ks.update(self.written_keys(e))
                    else:
                        it = self.fn.d['inits'][e]
                        if it.get('kind') == 'member':
                            ks.add('this.' + it['m'])
                c[b] = ks
            self._wbb = c
        return c

    def _reach_from(self, b):
        c = getattr(self, '_reach', None)
        if c is None:
            c = self._reach = {}
        if b in c:
            return c[b]
        seen = set()
        st = list(self._succs(b))
        while st:
            x = st.pop()
            if x in seen:
                continue
            seen.add(x)
            st.extend(self._succs(x))
        c[b] = seen
        return seen

    def stable_atom(self, atom):
        """an atom whose truth cannot change during the function."""
        if atom.startswith('b:'):
            return True
        if atom.startswith('u:'):
            return False
        m = self.mentions.get(atom)
        if m is None:
            return False
        asg = self.assigned_keys()
        for k in m:
            if k in asg:
                return False
            if k == 'this.*' and any(a.startswith('this.') for a in asg):
                return False
            if k.startswith('this.') and 'this.*' in asg:
                return False
        return True

    def facts_at(self, nid):
        """alternatives holding just before node nid is evaluated."""
        loc = self.locate(nid)
        if loc is None:
            return frozenset([frozenset()])
        b, idx = loc
        alts = self.facts_in.get(b)
        if alts is None:
            return frozenset()  # unreachable
        for kind, e in self._elts[b][:idx]:
            if kind == 'stmt':
                alts = self._kill(alts, self.written_keys(e))
                alts = self._gen(alts, e, None)
            else:
                it = self.fn.d['inits'][e]
                if it.get('kind') == 'member':
                    alts = self._kill(alts, ['this.' + it['m']])
                    alts = self._gen(alts, None, it)
        return alts

    def reachable_node(self, nid):
        loc = self.locate(nid)
        if loc is None:
            return True
        return loc[0] in self.facts_in and bool(self.facts_in[loc[0]])

    def entails(self, nid, lit):
        """does every path to nid establish literal lit?"""
        alts = self.facts_at(nid)
        return all(lit in a for a in alts)

    def entails_any(self, nid, lits):
        alts = self.facts_at(nid)
        return all(any(l in a for l in lits) for a in alts)

    def must_facts(self, nid):
        alts = self.facts_at(nid)
        if not alts:
            return None  # unreachable
        return frozenset.intersection(*alts)
