"""SYMM: divided differences are symmetric in their two points.

The divided-difference helpers D f(x, y) = (f(y) - f(x)) / (y - x) of DAuxLatitude, LambertConformalConic and
AlbersEqualArea take the two points (x, y) and, some of them, precomputed companions (sx, sy), (cx, cy), (hx, hy).
By definition D f(x, y) = D f(y, x).  Each helper is evaluated symbolically (glv/sympoly.py) as written and with
the roles of the two points exchanged; the two multisets of (assumed equalities, returned expression) over all
paths must coincide.  Parity of the elementary functions is built into the symbols (sin(-z) = -sin(z), ...), and
copysign(a, b) is read as |a| sgn(b), so that `isinf(y) ? copysign(1, x)` for `copysign(1, y)` is not symmetric.
Helpers already shown symmetric are used as symmetric symbols inside the helpers that call them.
"""
import re

from ..core import RuleResult
from ..build import AnalysisBroken
from ..sympoly import SymEval, Poly, Unsupported

NS = 'GeographicLib::'
PAIR = {'x': 'y', 'y': 'x', 'sx': 'sy', 'sy': 'sx', 'cx': 'cy', 'cy': 'cx', 'hx': 'hy', 'hy': 'hx'}
CLASSES = ('DAuxLatitude', 'LambertConformalConic', 'AlbersEqualArea')
# written as f[1, x, y] = (Df(1, y) - Df(x, y)) / (1 - x): symmetric only after algebra on transcendental terms
EXCLUDED = {'DDatanhee', 'DDatanhee0', 'DDatanhee1', 'DDatanhee2'}


def _candidates(ctx):
    out = {}
    for f in sorted(ctx.lib_fns(), key=lambda x: (x.file, x.line)):
        if f.d.get('body', -1) < 0 or not f.cls or f.cls.split('::')[-1] not in CLASSES:
            continue
        names = [p['name'] for p in f.params]
        if not f.name.startswith('D') or f.name in EXCLUDED or names[:2] != ['x', 'y'] or any(n not in PAIR for n in names):
            continue
        out.setdefault(f.q, f)
    return out


def _sig(paths, names):
    out = []
    for p in paths:
        if p.outcome != 'return' or p.ret is None:
            continue
        # decisions on predicates (isinf(x), isnan(x + y), ...) order the cases but are not part of the value
        eqs = [min(e.show(), (-e).show()) for e in p.eqs
               if not re.fullmatch(r'(-1 \+ )?-?(isinf|isnan|isfinite|signbit)\(.*\)', e.show())]
        v = p.ret.show()
        if any(e.subst('y', Poly.sym('x')).is_zero() and not e.is_zero() for e in p.eqs):
            for a in names:
                if a in ('y', 'sy', 'cy', 'hy'):
                    v = re.sub(r'\b%s\b' % a, PAIR[a], v)
                    eqs = [re.sub(r'\b%s\b' % a, PAIR[a], e) for e in eqs]
        out.append((tuple(sorted(eqs)), v))
    return sorted(out)


def rule_SYMM(ctx):
    res = RuleResult('SYMM', 'divided differences are symmetric: every helper D f(x, y[, sx, sy, ...]) of DAuxLatitude, '
                             'LambertConformalConic and AlbersEqualArea returns, path for path, the same expression when its two '
                             'points are exchanged (symbolic evaluation over the reals, parity of elementary functions built in)')
    cands = _candidates(ctx)
    if len(cands) < 12:
        raise AnalysisBroken('SYMM: only %d divided-difference helpers found' % len(cands))
    proven = {}
    npaths = 0

    def summary_for(q, f):
        names = [p['name'] for p in f.params]

        def summ(ev, fr, n, args):
            vals = [ev.ev(fr, a) for a in args]
            if any(not isinstance(v, Poly) for v in vals):
                return Poly.sym(ev.newsym(f.name))
            sw = [vals[names.index(PAIR[nm])] for nm in names]
            a, b = [v.show() for v in vals], [v.show() for v in sw]
            pick = a if a <= b else b
            return Poly.sym('%s(%s)' % (f.name, ', '.join(pick)))
        return summ

    def decide(q, stack=()):
        nonlocal npaths
        if q in proven:
            return proven[q]
        f = cands[q]
        # callees that are candidates themselves go first
        for i, n in f.all_nodes():
            ce = n.get('callee')
            if ce and ce.get('q') in cands and ce['q'] != q and ce['q'] not in stack:
                decide(ce['q'], stack + (q,))
        summ = {c: summary_for(c, cands[c]) for c, ok in proven.items() if ok}
        names = [p['name'] for p in f.params]
        try:
            e1 = SymEval(ctx.prog, summaries=summ, max_depth=2, max_paths=6000)
            e1.copysign_model = 'sgn'
            a = e1.explore(f)
            e2 = SymEval(ctx.prog, summaries=summ, max_depth=2, max_paths=6000)
            e2.copysign_model = 'sgn'
            b = e2.explore(f, preset={('v', p['d']): Poly.sym(PAIR[p['name']]) for p in f.params})
        except Unsupported as e:
            raise AnalysisBroken('SYMM: %s not evaluated: %s' % (q, e))
        sa, sb = _sig(a, names), _sig(b, names)
        npaths += len(sa)
        ok = bool(sa) and sa == sb
        proven[q] = ok
        res.ob(ok, {'fn': q, 'paths': len(sa), 'at': f.loc()})
        if not ok:
            da = [x for x in sa if x not in sb][:1]
            db = [x for x in sb if x not in sa][:1]
            res.fail(q, f.name, f.loc(),
                     '%s(x, y) and %s(y, x) differ: e.g. assuming %s the first returns %s where the exchanged call returns %s'
                     % (f.name, f.name, list(da[0][0]) if da else '-', da[0][1][:140] if da else '-', db[0][1][:140] if db else '-'))
        return ok
    for q in sorted(cands):
        decide(q)
    res.analysed.update({'helpers': len(cands), 'paths': npaths})
    return res, len(cands), npaths


def rule_ALT(ctx):
    """DParametric: the alternative evaluations selected for numerical range agree as functions."""
    from ..sympoly import clear_inverses
    res = RuleResult('ALT', 'alternative evaluations agree: DAuxLatitude::DParametric chooses between a form in tan(phi) and a '
                            'form in cot(phi) by the size of the tangents; within the coincident case (tx == ty) and within the '
                            'general case the two forms are the same function of the original tangents over the reals (rational '
                            'identity; atan2 compared through the ratio of its arguments)')
    f = [g for g in ctx.prog.fns.values() if g.q == NS + 'DAuxLatitude::DParametric' and g.d.get('body', -1) >= 0]
    if not f:
        raise AnalysisBroken('ALT: DAuxLatitude::DParametric not found')
    f = f[0]
    try:
        paths = [p for p in SymEval(ctx.prog, max_depth=2, max_paths=400).explore(f) if p.outcome == 'return' and p.ret is not None]
    except Unsupported as e:
        raise AnalysisBroken('ALT: DParametric not evaluated: %s' % e)
    coincident = [p for p in paths if p.eqs]
    general = [p for p in paths if not p.eqs]
    if len(coincident) < 2 or len(general) < 2:
        raise AnalysisBroken('ALT: expected at least two coincident and two general paths, found %d and %d' % (len(coincident), len(general)))
    npairs = 0

    def same_rational(p, q):
        pa = dict(p.pure_args)
        pa.update(q.pure_args)
        return clear_inverses(p.ret - q.ret, pa).is_zero()

    def atan_quotient(p):
        """ret = atan2(Y1, X1) * inv(atan2(Y2, X2)) -> ((Y1, X1), (Y2, X2)) or None"""
        if len(p.ret.t) != 1:
            return None
        (mono, c), = p.ret.t.items()
        if c != 1 or len(mono) != 2:
            return None
        num = den = None
        for s, e in mono:
            nm, ar = p.pure_args.get(s, (None, None))
            if nm == 'atan2' and e == 1:
                num = ar
            elif nm == 'inv' and e == 1 and len(ar[0].t) == 1:
                inner = next(iter(ar[0].symbols()))
                if p.pure_args.get(inner, (None,))[0] == 'atan2':
                    den = p.pure_args[inner][1]
        return (num, den) if num and den else None
    from ..sympoly import rebuild
    # identify the second angle with the first (that is what every coincident path assumed, directly or through the
    # reciprocals) and compare the forms as rational functions of one tangent
    syms = sorted({s_ for p in coincident for s_ in p.ret.symbols() | {x for a_ in p.pure_args.values() for q_ in a_[1]
                                                                       if isinstance(q_, Poly) for x in q_.symbols()}})
    m1 = [s_ for s_ in syms if s_.startswith(f.params[0]['name'] + '.')]
    mapping = {f.params[1]['name'] + s_[len(f.params[0]['name']):]: Poly.sym(s_) for s_ in m1}
    forms = []
    for p in coincident:
        out_args = {}
        forms.append((rebuild(p.ret, mapping, p.pure_args, out_args), out_args, p))
    base = forms[0]
    for v, oa, p in forms[1:]:
        npairs += 1
        try:
            ok = clear_inverses(v - base[0], {**base[1], **oa}).is_zero()
        except Unsupported:
            ok = False
        res.ob(ok, {'case': 'coincident tangents', 'forms': [base[0].show()[:80], v.show()[:80]]})
        if not ok:
            res.fail(f.q, 'tx == ty', f.loc(), 'in the coincident case the form %s and the form %s are different functions of '
                     'the tangent' % (base[0].show()[:100], v.show()[:100]))
    quot = [(p, atan_quotient(p)) for p in general]
    aq = [x for x in quot if x[1]]
    if len(aq) < 2:
        raise AnalysisBroken('ALT: the general case of DParametric is not a quotient of two atan2 on two paths')
    (p0, ((Y1, X1), (Y2, X2))) = aq[0]
    for p, ((y1, x1), (y2, x2)) in aq[1:]:
        npairs += 1
        pa = {**p0.pure_args, **p.pure_args}
        ok = False
        for sg in (1, -1):
            try:
                if clear_inverses(Y1 * x1 - (y1 * X1).scale(sg), pa).is_zero() and \
                        clear_inverses(Y2 * x2 - (y2 * X2).scale(sg), pa).is_zero():
                    ok = True
            except Unsupported:
                pass
        res.ob(ok, {'case': 'general', 'forms': [p0.ret.show()[:80], p.ret.show()[:80]]})
        if not ok:
            res.fail(f.q, 'general', f.loc(), 'in the general case the two quotients of atan2 have different argument ratios: '
                     '%s versus %s' % (p0.ret.show()[:120], p.ret.show()[:120]))
    res.analysed.update({'paths': len(paths), 'pairs_compared': npairs})
    return res, npairs
