"""ROT: the rotation / rigid-motion clause of Geocentric and LocalCartesian, decided over the reals (sympoly).

  G1  Geocentric constructor: _e2 = f(2 - f), _e2m = 1 - _e2.
  G2  Geocentric::IntForward is the closed form  X = (N + h) cos(phi) cos(lam), Y = (N + h) cos(phi) sin(lam),
      Z = ((1 - e2) N + h) sin(phi),  N = a / sqrt(1 - e2 sin(phi)^2)  - as polynomials in the sincosd results.
  G3  Rotation(sphi, cphi, slam, clam, M) fills all nine entries; with sphi^2 + cphi^2 = slam^2 + clam^2 = 1 the
      matrix is orthonormal with determinant +1; its third column is d(X, Y, Z)/dh of G2 (up), its first column is
      (-slam, clam, 0) (east) and its second column is up x east (north).
  G4  Rotate and Unrotate apply M and its transpose: the coefficient matrices are single entries of M, each used
      once, and B[i][j] = A[j][i].
  G5  LocalCartesian::MatrixMultiply(M) replaces M by Unrotate(_r) applied to each column of M.
  G6  LocalCartesian: Reset stores Rotation at (lat0, lon0) in _r and Forward(lat0, lon0, h0) in the origin; IntForward
      maps the origin to (0, 0, 0); IntForward after IntReverse is the identity (the coefficient matrix of the
      composition is the Gram matrix of _r, which is the identity for the _r of Reset).

  G7  the four public overloads taking std::vector<real>& M copy all nine entries of the computed matrix.

Assumption A-UNITCIRCLE: the two results of one Math::sincosd call are a point of the unit circle.
"""
from fractions import Fraction

from ..core import RuleResult
from ..build import AnalysisBroken
from ..sympoly import SymEval, Poly, Unsupported, reduce_units

NS = 'GeographicLib::'
OPAQUE = {NS + 'Math::sincosd', NS + 'Math::LatFix', NS + 'Math::AngNormalize', NS + 'Math::hypot3'}


def _fn(ctx, q, nparams=None):
    c = [f for f in ctx.prog.fns.values() if f.q == q and f.d.get('body', -1) >= 0 and
         (nparams is None or len(f.params) == nparams)]
    if not c:
        raise AnalysisBroken('ROT: no body found for %s' % q)
    return sorted(c, key=lambda f: (f.file, f.line))[0]


def _param(f, name):
    for p in f.params:
        if p['name'] == name:
            return p['d']
    raise AnalysisBroken('ROT: %s has no parameter %s' % (f.q, name))


def _explore(ctx, f, **kw):
    try:
        return SymEval(ctx.prog, **kw).explore(f)
    except Unsupported as e:
        raise AnalysisBroken('ROT: %s not evaluated: %s' % (f.q, e))


def _unit_pairs(polys):
    """(sin, cos) symbol pairs: the out1/out2 results of one sincosd call."""
    syms = set()
    for p in polys:
        syms |= p.symbols()
    pairs = []
    for s in sorted(syms):
        if s.startswith('sincosd(') and s.endswith('.out1') and s[:-1] + '2' in syms | {s[:-1] + '2'}:
            pairs.append((s, s[:-1] + '2'))
    return pairs


def _mat(env, base):
    return [env.get(base + (k,)) for k in range(9)]


def rule_ROT(ctx):
    res = RuleResult('ROT', 'rotation and rigid motion over the reals: closed form of Geocentric::IntForward; Rotation is an '
                            'orthonormal right-handed east-north-up frame whose up axis is d(X,Y,Z)/dh; Rotate/Unrotate are '
                            'transposes; MatrixMultiply is Unrotate by columns; LocalCartesian maps its origin to 0 and '
                            'IntForward o IntReverse is the identity')
    nob = 0
    ONE = Poly.const(1)

    def ob(ok, what, f, detail=None):
        nonlocal nob
        nob += 1
        res.ob(ok, {'obligation': what, 'fn': f.q, 'at': f.loc()})
        if not ok:
            res.fail(f.q, what.split(':')[0], f.loc(), '%s does not hold over the reals%s' % (what, (': ' + detail) if detail else ''))

    # ---- G1
    ctor = _fn(ctx, NS + 'Geocentric::Geocentric', 2)
    ret = [p for p in _explore(ctx, ctor) if p.outcome == 'return']
    if not ret:
        raise AnalysisBroken('ROT: Geocentric constructor has no returning path')
    fsym = Poly.sym('f')
    for p in ret:
        e2, e2m = p.env.get(('this', '_e2')), p.env.get(('this', '_e2m'))
        ob(e2 is not None and (e2 - fsym * (Poly.const(2) - fsym)).is_zero(), 'G1: _e2 == f (2 - f)', ctor, e2.show() if e2 else None)
        ob(e2 is not None and e2m is not None and (e2m - ONE + e2).is_zero(), 'G1: _e2m == 1 - _e2', ctor, e2m.show() if e2m else None)
    # ---- G2, G3 through IntForward (Rotation inlined)
    fwd = _fn(ctx, NS + 'Geocentric::IntForward')
    paths = [p for p in _explore(ctx, fwd, noinline=OPAQUE) if p.outcome == 'return']
    Md = _param(fwd, 'M')
    withM = [p for p in paths if all(('v', Md, k) in p.env for k in range(9))]
    if not withM:
        raise AnalysisBroken('ROT: no path of Geocentric::IntForward fills M')
    a, e2, e2m, h = Poly.sym('_a'), Poly.sym('_e2'), Poly.sym('_e2m'), Poly.sym('h')
    for p in paths:
        X, Y, Z = [p.env.get(('v', _param(fwd, nm))) for nm in ('X', 'Y', 'Z')]
        pairs = _unit_pairs([X, Y, Z])
        if len(pairs) != 2:
            raise AnalysisBroken('ROT: expected the results of two sincosd calls in X, Y, Z; found %s' % pairs)
        (s1, c1), (s2, c2) = pairs
        # which pair is the latitude: Z contains only the latitude pair
        lat = (s1, c1) if s1 in Z.symbols() else (s2, c2)
        lam = (s2, c2) if lat == (s1, c1) else (s1, c1)
        sphi, cphi, slam, clam = [Poly.sym(x) for x in lat + lam]
        # N: a * inv(sqrt(1 - e2 sphi^2))
        N = None
        for key, (nm, args) in p.pure_args.items():
            if nm == 'inv' and args and len(args[0].t) == 1:
                inner = next(iter(args[0].symbols()))
                if inner in p.pure_args and p.pure_args[inner][0] == 'sqrt':
                    rad = p.pure_args[inner][1][0]
                    if (rad - (ONE - e2 * sphi * sphi)).is_zero():
                        N = a * Poly.sym(key)
        ob(N is not None, 'G2: N == a / sqrt(1 - e2 sin(phi)^2)', fwd)
        if N is None:
            continue
        ob((X - (N + h) * cphi * clam).is_zero(), 'G2: X == (N + h) cos(phi) cos(lam)', fwd, X.show()[:160])
        ob((Y - (N + h) * cphi * slam).is_zero(), 'G2: Y == (N + h) cos(phi) sin(lam)', fwd, Y.show()[:160])
        ob((Z - (e2m * N + h) * sphi).is_zero(), 'G2: Z == ((1 - e2) N + h) sin(phi)', fwd, Z.show()[:160])
        if p not in withM:
            continue
        M = _mat(p.env, ('v', Md))
        units = [lat, lam]
        R = lambda q: reduce_units(q, units)
        col = lambda j: [M[j], M[3 + j], M[6 + j]]
        for i in range(3):
            for j in range(i, 3):
                dot = sum((x * y for x, y in zip(col(i), col(j))), Poly())
                ob((R(dot) - Poly.const(1 if i == j else 0)).is_zero(),
                   'G3: columns %d and %d of the rotation are ortho%s' % (i, j, 'normal' if i == j else 'gonal'), fwd, R(dot).show()[:120])
        det = M[0] * (M[4] * M[8] - M[5] * M[7]) - M[1] * (M[3] * M[8] - M[5] * M[6]) + M[2] * (M[3] * M[7] - M[4] * M[6])
        ob((R(det) - ONE).is_zero(), 'G3: determinant of the rotation == +1', fwd, R(det).show()[:120])
        up = [X.coeff_of('h'), Y.coeff_of('h'), Z.coeff_of('h')]
        ob(all((u - m).is_zero() for u, m in zip(up, col(2))), 'G3: third column == d(X, Y, Z)/dh (up)', fwd)
        ob(all((u - m).is_zero() for u, m in zip([-slam, clam, Poly()], col(0))), 'G3: first column == (-sin(lam), cos(lam), 0) (east)', fwd)
        u, e = col(2), col(0)
        cross = [u[1] * e[2] - u[2] * e[1], u[2] * e[0] - u[0] * e[2], u[0] * e[1] - u[1] * e[0]]
        ob(all((R(c - m)).is_zero() for c, m in zip(cross, col(1))), 'G3: second column == up x east (north)', fwd)
    # ---- G4
    rot, unrot = _fn(ctx, NS + 'Geocentric::Rotate'), _fn(ctx, NS + 'Geocentric::Unrotate')

    def coeffs(f, ins, outs):
        p = [q for q in _explore(ctx, f) if q.outcome == 'return']
        if len(p) != 1:
            raise AnalysisBroken('ROT: %s has %d paths' % (f.q, len(p)))
        A = []
        for o in outs:
            v = p[0].env.get(('v', _param(f, o)))
            if v is None:
                raise AnalysisBroken('ROT: %s does not set %s' % (f.q, o))
            rest = v
            row = []
            for i in ins:
                c = v.coeff_of(i)
                row.append(c)
                rest = rest - c * Poly.sym(i)
            if not rest.is_zero():
                raise AnalysisBroken('ROT: %s.%s is not linear in its inputs' % (f.q, o))
            A.append(row)
        return A
    A = coeffs(rot, ['x', 'y', 'z'], ['X', 'Y', 'Z'])
    B = coeffs(unrot, ['X', 'Y', 'Z'], ['x', 'y', 'z'])
    names = sorted(x.show() for r in A for x in r)
    ob(names == sorted('M[%d]' % k for k in range(9)), 'G4: Rotate uses every entry of M exactly once', rot, str(names))
    ob(all((B[i][j] - A[j][i]).is_zero() for i in range(3) for j in range(3)), 'G4: Unrotate is the transpose of Rotate', unrot,
       str([[x.show() for x in r] for r in B]))
    # ---- G5
    mm = _fn(ctx, NS + 'LocalCartesian::MatrixMultiply')
    p = [q for q in _explore(ctx, mm) if q.outcome == 'return']
    if len(p) != 1:
        raise AnalysisBroken('ROT: MatrixMultiply has %d paths' % len(p))
    Mp = _mat(p[0].env, ('v', mm.params[0]['d']))
    okmm = all(x is not None for x in Mp)
    if okmm:
        for c in range(3):
            for i in range(3):
                exp = Poly()
                for j in range(3):
                    exp = exp + B[i][j].subst(next(iter(B[i][j].symbols())),
                                              Poly.sym('_r[%s' % next(iter(B[i][j].symbols())).split('[')[1])) * Poly.sym('M[%d]' % (3 * j + c))
                okmm = okmm and (Mp[3 * i + c] - exp).is_zero()
    ob(okmm, 'G5: MatrixMultiply(M) == Unrotate(_r) applied to the columns of M', mm)
    # ---- G6
    INL = {NS + 'Geocentric::Rotate', NS + 'Geocentric::Unrotate', NS + 'LocalCartesian::MatrixMultiply', NS + 'Geocentric::Rotation'}
    lf, lr, rs = _fn(ctx, NS + 'LocalCartesian::IntForward'), _fn(ctx, NS + 'LocalCartesian::IntReverse'), _fn(ctx, NS + 'LocalCartesian::Reset')
    pr = [q for q in _explore(ctx, rs, inline=INL) if q.outcome == 'return']
    if len(pr) != 1:
        raise AnalysisBroken('ROT: LocalCartesian::Reset has %d paths' % len(pr))
    rmat = _mat(pr[0].env, ('this', '_r'))
    ob(all(x is not None for x in rmat), 'G6: Reset fills _r', rs)
    org = [pr[0].env.get(('this', m)) for m in ('_x0', '_y0', '_z0')]
    fcall = [c for c in pr[0].calls if c[0] in (NS + 'Geocentric::Forward', NS + 'Geocentric::IntForward')]
    okorg = len(fcall) == 1 and all(o is not None and o.show() == '%s.out%d' % (fcall[0][2], 3 + i) for i, o in enumerate(org))
    okorg = okorg and [v.show() for v in fcall[0][1]] == [pr[0].env[('this', m)].show() for m in ('_lat0', '_lon0', '_h0')]
    ob(okorg, 'G6: the origin is Geocentric::Forward(_lat0, _lon0, _h0)', rs)
    pairs = _unit_pairs([x for x in rmat if x is not None])
    scall = [c for c in pr[0].calls if c[0] == NS + 'Math::sincosd']
    okr = len(pairs) == 2 and len(scall) == 2 and \
        sorted(v.show() for c in scall for v in c[1]) == sorted(pr[0].env[('this', m)].show() for m in ('_lat0', '_lon0'))
    ob(okr, 'G6: _r is built from sincosd(_lat0) and sincosd(_lon0)', rs)
    pf = [q for q in _explore(ctx, lf, inline=INL) if q.outcome == 'return']
    pv = [q for q in _explore(ctx, lr, inline=INL) if q.outcome == 'return']
    if not pf or not pv:
        raise AnalysisBroken('ROT: LocalCartesian::IntForward/IntReverse have no returning path')
    for q in pf:
        call = [c for c in q.calls if c[0] == NS + 'Geocentric::IntForward']
        if len(call) != 1:
            raise AnalysisBroken('ROT: LocalCartesian::IntForward does not call Geocentric::IntForward once')
        outs = ['%s.out%d' % (call[0][2], 3 + i) for i in range(3)]
        xyz = [q.env.get(('v', _param(lf, nm))) for nm in ('x', 'y', 'z')]
        at0 = []
        for v in xyz:
            for o, m in zip(outs, ('_x0', '_y0', '_z0')):
                v = v.subst(o, Poly.sym(m))
            at0.append(v)
        ob(all(v.is_zero() for v in at0), 'G6: IntForward maps the origin to (0, 0, 0)', lf, str([v.show()[:60] for v in at0]))
        for r in pv:
            rc = [c for c in r.calls if c[0] == NS + 'Geocentric::IntReverse']
            if len(rc) != 1:
                raise AnalysisBroken('ROT: LocalCartesian::IntReverse does not call Geocentric::IntReverse once')
            geo = rc[0][1]
            comp = []
            for v in xyz:
                for o, g in zip(outs, geo):
                    v = v.subst(o, g)
                comp.append(v)
            # instantiate _r with the matrix of Reset and reduce with the unit circle
            inst = []
            for v in comp:
                for k in range(9):
                    v = v.subst('_r[%d]' % k, rmat[k] if rmat[k] is not None else Poly.sym('_r[%d]' % k))
                inst.append(reduce_units(v, pairs))
            ok = all((v - Poly.sym(nm)).is_zero() for v, nm in zip(inst, ('x', 'y', 'z')))
            ob(ok, 'G6: IntForward o IntReverse == identity (with the _r of Reset)', lf, str([v.show()[:80] for v in inst]))
    # ---- G7: the vector<real>& M overloads hand over all nine entries
    nwrap = 0
    for q in (NS + 'Geocentric::Forward', NS + 'Geocentric::Reverse', NS + 'LocalCartesian::Forward', NS + 'LocalCartesian::Reverse'):
        for f in sorted((f for f in ctx.prog.fns.values() if f.q == q and f.d.get('body', -1) >= 0 and f.params and
                         'vector' in f.params[-1].get('t', '')), key=lambda f: (f.file, f.line)):
            nwrap += 1
            Mv = ('v', f.params[-1]['d'], 'vec')
            filled = [p_ for p_ in _explore(ctx, f, inline=set()) if p_.outcome == 'return' and
                      any(k[:3] == Mv for k in p_.env)]
            if not filled:
                raise AnalysisBroken('ROT: %s never copies a matrix into M' % f.q)
            ok = all(p_.env.get(Mv + (k,)) is not None and p_.env[Mv + (k,)].show() == 't[%d]' % k for p_ in filled for k in range(9))
            ob(ok, 'G7: the nine entries computed in t are all copied to the vector M', f)
    if nwrap != 4:
        raise AnalysisBroken('ROT: expected four vector<real>& M overloads, found %d' % nwrap)
    res.analysed.update({'obligations_by_clause': nob})
    res.assumptions.append('A-UNITCIRCLE: the two results of one Math::sincosd call satisfy s^2 + c^2 = 1')
    res.assumptions.append('decided over the reals: rounding, the singular sets of IntReverse and the choice of root are not covered')
    return res, nob
