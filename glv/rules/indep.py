"""I1: the value of a result does not depend on whether additional results were requested.

Several evaluators take a bool argument that asks for extra outputs (gradp: the gradient as well as the
potential; diffp: the secular variation as well as the field).  The primary results - the return value and the
outputs written for both settings - must be the same numbers either way.  Structurally: inside the region
guarded by `if (flag)` no variable may be overwritten that was defined before the region and feeds a primary
result after it (unless the else-branch defines it as well: two complete alternatives, e.g. the overloads of
the harmonic sum with and without gradient).  A scratch variable reused for a gradient term inside the region
and then read again for the potential is exactly that shape.
"""
from ..core import RuleResult
from ..flow import ASSIGN_OPS


def _is_param_ref(f, nid, d):
    n = f.nodes[f.strip_casts(nid)]
    return n['k'] == 'DeclRefExpr' and n.get('d') == d


def _written_var(f, i):
    """(decl id, name, kind) written by node i, or None.  kind: 'local' / 'param'."""
    n = f.nodes[i]
    if (n['k'] in ('BinaryOperator', 'CompoundAssignOperator') and n.get('op') in ASSIGN_OPS) or \
            (n['k'] == 'UnaryOperator' and n.get('op') in ('++', '--')):
        ln = f.nodes[f.strip(n['ch'][0])]
        if ln['k'] == 'DeclRefExpr' and ln.get('rk') in ('local', 'param'):
            return [(ln['d'], ln['name'], ln['rk'])]
    if n.get('callee') and n.get('args'):
        ce = n['callee']
        pk = ce.get('pk', [])
        off = 1 if (n.get('ckind') == 'operator' and ce.get('method')) else 0
        out = []
        for ai, a in enumerate(n['args'][off:]):
            if ai < len(pk) and pk[ai] in ('r', 'p'):
                an = f.nodes[f.strip(a)]
                if an['k'] == 'DeclRefExpr' and an.get('rk') in ('local', 'param'):
                    out.append((an['d'], an['name'], an['rk']))
        return out or None
    return None


def rule_I1(ctx, classes):
    res = RuleResult('I1', 'request-flag independence: inside `if (flag)` for a flag that only asks for additional outputs '
                           '(gradient, secular variation) no variable is overwritten that was defined before and feeds a '
                           'primary result afterwards')
    nflags = 0
    nregions = 0
    for f in sorted(ctx.lib_fns(), key=lambda x: (x.file, x.line)):
        if f.cls not in classes or f.d.get('body', -1) < 0:
            continue
        bools = [p for p in f.params if p['t'].replace('const ', '') == 'bool' and p['pk'] == 'v']
        outs = {p['d']: p['name'] for p in f.params if p['pk'] in ('r', 'p')}
        if not bools:
            continue
        # position helpers
        sub_of = {}

        def subtree(i):
            s = sub_of.get(i)
            if s is None:
                s = sub_of[i] = set(f.walk(i))
            return s
        ifs = [(i, n) for i, n in f.all_nodes() if n['k'] == 'IfStmt']
        # bool locals defined once as a conjunction that contains a parameter: `const bool dograd = gradp && _gradp;`
        implied = {}
        for i, n in f.all_nodes():
            if n['k'] == 'DeclStmt':
                for d in n['decls']:
                    if d['t'].replace('const ', '') == 'bool' and d.get('init', -1) >= 0:
                        conj = []
                        st = [d['init']]
                        while st:
                            j = f.strip_casts(st.pop())
                            jn = f.nodes[j]
                            if jn['k'] == 'BinaryOperator' and jn.get('op') == '&&':
                                st += jn['ch']
                            elif jn['k'] == 'DeclRefExpr' and jn.get('rk') == 'param':
                                conj.append(jn['d'])
                        if conj and not any((m['k'] in ('BinaryOperator', 'CompoundAssignOperator') and m.get('op') in ASSIGN_OPS
                                             and f.nodes[f.strip(m['ch'][0])].get('d') == d['d']) for _, m in f.all_nodes()):
                            implied[d['d']] = set(conj)

        def guards(cond, pd):
            if _is_param_ref(f, cond, pd):
                return True
            cn = f.nodes[f.strip_casts(cond)]
            return cn['k'] == 'DeclRefExpr' and cn.get('rk') == 'local' and pd in implied.get(cn.get('d'), ())
        for p in bools:
            regions = [(i, n) for i, n in ifs if guards(n['cond'], p['d']) and n.get('then', -1) >= 0]
            if not regions:
                continue
            then_nodes = set()
            for i, n in regions:
                then_nodes |= subtree(n['then'])
            # outputs stored only under the flag
            stores = {}
            for i, n in f.all_nodes():
                w = _written_var(f, i)
                for d, name, kind in (w or []):
                    if d in outs:
                        stores.setdefault(d, []).append(i)
            only_under = {d for d, sites in stores.items() if sites and all(s in then_nodes for s in sites)}
            if not only_under:
                continue          # not a request flag: it changes the primary results by design
            nflags += 1
            primary_outs = set(outs) - only_under
            for ri, rn in regions:
                nregions += 1
                tset = subtree(rn['then'])
                eset = subtree(rn['else']) if rn.get('else', -1) is not None and rn.get('else', -1) >= 0 else set()
                declared_inside = set()
                for j in tset:
                    jn = f.nodes[j]
                    if jn['k'] == 'DeclStmt':
                        declared_inside |= {d['d'] for d in jn['decls']}
                written = {}
                for j in tset:
                    for d, name, kind in (_written_var(f, j) or []):
                        if d not in declared_inside and d not in only_under:
                            written.setdefault(d, (name, j))
                else_written = set()
                for j in eset:
                    for d, name, kind in (_written_var(f, j) or []):
                        else_written.add(d)
                whole = subtree(ri)
                endl = rn.get('el', rn['l'])
                for d, (name, site) in sorted(written.items(), key=lambda x: x[1][1]):
                    if d in else_written:
                        res.ob(True, None)
                        continue
                    # defined before the region?
                    defined_before = d in outs or d in {pp['d'] for pp in f.params}
                    for j, jn in f.all_nodes():
                        if j in whole or jn['l'] > rn['l']:
                            continue
                        if jn['k'] == 'DeclStmt' and any(dd['d'] == d and dd.get('init', -1) >= 0 for dd in jn['decls']):
                            defined_before = True
                        for dd, nm, kd in (_written_var(f, j) or []):
                            if dd == d:
                                defined_before = True
                    if not defined_before:
                        res.ob(True, None)
                        continue
                    # an unconditional plain reassignment after the region ends the life of the overwritten value
                    until = None
                    par = f.parent[ri]
                    if par >= 0 and f.nodes[par]['k'] == 'CompoundStmt':
                        sibs = f.nodes[par]['ch']
                        for sj in sibs[sibs.index(ri) + 1:]:
                            sn = f.nodes[f.strip(sj)]
                            if sn['k'] == 'BinaryOperator' and sn.get('op') == '=':
                                ln = f.nodes[f.strip(sn['ch'][0])]
                                if ln['k'] == 'DeclRefExpr' and ln.get('d') == d and \
                                        not any(f.nodes[x]['k'] == 'DeclRefExpr' and f.nodes[x].get('d') == d
                                                for x in f.walk(sn['ch'][1])):
                                    until = sn['l']
                                    break
                    hit = _feeds_primary(f, d, whole, endl, then_nodes, primary_outs, set(), 0, until)
                    ok = hit is None
                    res.ob(ok, {'fn': f.q, 'flag': p['name'], 'variable': name, 'overwritten_at': f.loc(site),
                                'feeds': None if ok else f.loc(hit)} if (not ok or nregions % 3 == 1) else None)
                    if not ok:
                        res.fail(f.q, name, f.loc(site),
                                 '%s is defined before `if (%s)`, overwritten inside it at %s and then read at %s for a '
                                 'result that is returned whether or not %s is set: the result depends on the request'
                                 % (name, p['name'], f.loc(site).rsplit('/', 1)[-1], f.loc(hit).rsplit('/', 1)[-1], p['name']))
    res.analysed.update({'request_flags': nflags, 'guarded_regions': nregions})
    return res, nflags, nregions


def _feeds_primary(f, d, exclude, after_line, flag_nodes, primary_outs, seen, depth, until=None):
    """node id of a read of variable d after line after_line (outside `exclude` and outside flag-guarded regions)
    whose value reaches the return value or a primary output; None if there is none."""
    if d in seen or depth > 6:
        return None
    seen = seen | {d}
    for j, jn in f.all_nodes():
        if jn['k'] != 'DeclRefExpr' or jn.get('d') != d or j in exclude or j in flag_nodes:
            continue
        if jn['l'] < after_line or (until is not None and jn['l'] >= until):
            continue
        # is it a read?  (not the bare left-hand side of '=')
        par = f.parent[j]
        pn = f.nodes[par] if par >= 0 else None
        if pn is not None and pn['k'] == 'BinaryOperator' and pn.get('op') == '=' and f.strip(pn['ch'][0]) == j:
            continue
        # enclosing statement
        top = j
        sink = None
        for a in f.ancestors(j):
            an = f.nodes[a]
            if an['k'] == 'ReturnStmt':
                return j
            if an['k'] in ('BinaryOperator', 'CompoundAssignOperator') and an.get('op') in ASSIGN_OPS:
                ln = f.nodes[f.strip(an['ch'][0])]
                if ln['k'] == 'DeclRefExpr':
                    if ln.get('d') in primary_outs:
                        return j
                    if ln.get('rk') == 'local' and (ln['d'] != d or an['op'] != '='):
                        sink = (ln['d'], an['l'])
                        if ln['d'] == d:
                            sink = None
                            # compound update of itself (T = (T/..) ..): keep following the same variable
                            r = _feeds_primary(f, d, exclude | set(f.walk(a)), an['l'], flag_nodes, primary_outs,
                                               seen - {d}, depth + 1)
                            if r is not None:
                                return j
                        break
            if an['k'] == 'DeclStmt':
                for dd in an['decls']:
                    if dd.get('init', -1) >= 0 and j in set(f.walk(dd['init'])):
                        sink = (dd['d'], an['l'])
                break
            if an['k'] in ('CompoundStmt', 'IfStmt', 'ForStmt', 'WhileStmt'):
                break
            top = a
        if sink is not None:
            r = _feeds_primary(f, sink[0], set(), sink[1], flag_nodes, primary_outs, seen, depth + 1)
            if r is not None:
                return j
    return None
