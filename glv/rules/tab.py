"""R-TAB: constant tables (T1 sibling truncations, T2 ptrs, T3 alphabets, T4 constants, T5 Geoid)."""
import os
from concurrent.futures import ThreadPoolExecutor
from fractions import Fraction as F

from .. import build
from ..build import AnalysisBroken
from ..core import RuleResult

NS = 'GeographicLib::'


# ------------------------------------------------------------------ exact evaluation of initialisers
def rat(fn_nodes, nid):
    n = fn_nodes[nid]
    k = n['k']
    if k == 'IntegerLiteral':
        return F(int(n['v']))
    if k == 'FloatingLiteral':
        return F(n['v']) if 'E' not in n['v'] and 'e' not in n['v'] else F(float(n['v']))
    if k in ('ImplicitCastExpr', 'CXXFunctionalCastExpr', 'CStyleCastExpr', 'CXXStaticCastExpr', 'ParenExpr',
             'ExprWithCleanups', 'MaterializeTemporaryExpr', 'ConstantExpr'):
        if n['ch']:
            return rat(fn_nodes, n['ch'][0])
    if k == 'UnaryOperator' and n['op'] in ('-', '+'):
        v = rat(fn_nodes, n['ch'][0])
        return -v if n['op'] == '-' else v
    if k == 'BinaryOperator' and n['op'] in ('/', '*', '+', '-'):
        a = rat(fn_nodes, n['ch'][0])
        b = rat(fn_nodes, n['ch'][1])
        if n['op'] == '/':
            return a / b
        if n['op'] == '*':
            return a * b
        if n['op'] == '+':
            return a + b
        return a - b
    if 'cv' in n:
        return F(int(n['cv']))
    raise AnalysisBroken('table element is not an exact rational: %s at line %s' % (k, n.get('l')))


def static_table(prog, fq, name):
    """values of the function-local static array `name` in function fq (list of Fractions)."""
    fs = prog.fn(fq)
    for f in fs:
        for i, n in f.all_nodes():
            if n['k'] != 'DeclStmt':
                continue
            for d in n['decls']:
                if d['name'] == name and d.get('static_local') and d.get('init', -1) >= 0:
                    init = f.nodes[d['init']]
                    while init['k'] != 'InitListExpr' and init['ch']:
                        init = f.nodes[init['ch'][0]]
                    if init['k'] != 'InitListExpr':
                        raise AnalysisBroken('%s::%s is not initialised by a list' % (fq, name))
                    return [rat(f.nodes, c) for c in init['ch']], f.loc(d['init'])
    raise AnalysisBroken('anchor vanished: static table %s in %s' % (name, fq))


# ------------------------------------------------------------------ layouts (from the consumer loops)
def dec_A1(v, N, tag):
    m = N // 2
    if len(v) != m + 2:
        raise AnalysisBroken('%s: layout does not consume the table (order %d)' % (tag, N))
    return {(tag, 2 * (m - j)): v[j] / v[m + 1] for j in range(m + 1)}


def dec_C1(v, N, tag):
    o = 0
    r = {}
    for l in range(1, N + 1):
        m = (N - l) // 2
        d = v[o + m + 1]
        for j in range(m + 1):
            r[(tag, l, l + 2 * (m - j))] = v[o + j] / d
        o += m + 2
    if o != len(v):
        raise AnalysisBroken('%s: layout does not consume the table (order %d)' % (tag, N))
    return r


def dec_A3(v, N, tag):
    o = 0
    r = {}
    for j in range(N - 1, -1, -1):
        m = min(N - j - 1, j)
        d = v[o + m + 1]
        for i in range(m + 1):
            r[(tag, j, m - i)] = v[o + i] / d
        o += m + 2
    if o != len(v):
        raise AnalysisBroken('%s: layout does not consume the table (order %d)' % (tag, N))
    return r


def dec_C3(v, N, tag):
    o = 0
    r = {}
    for l in range(1, N):
        for j in range(N - 1, l - 1, -1):
            m = min(N - j - 1, j)
            d = v[o + m + 1]
            for i in range(m + 1):
                r[(tag, l, j, m - i)] = v[o + i] / d
            o += m + 2
    if o != len(v):
        raise AnalysisBroken('%s: layout does not consume the table (order %d)' % (tag, N))
    return r


def dec_C4(v, N, tag):
    o = 0
    r = {}
    for l in range(N):
        for j in range(N - 1, l - 1, -1):
            m = N - j - 1
            d = v[o + m + 1]
            for i in range(m + 1):
                r[(tag, l, j, m - i)] = v[o + i] / d
            o += m + 2
    if o != len(v):
        raise AnalysisBroken('%s: layout does not consume the table (order %d)' % (tag, N))
    return r


def dec_krueger(v, N, tag):
    o = 0
    r = {}
    for l in range(1, N + 1):
        m = N - l
        d = v[o + m + 1]
        for j in range(m + 1):
            r[(tag, l, l + m - j)] = v[o + j] / d
        o += m + 2
    if o != len(v):
        raise AnalysisBroken('%s: layout does not consume the table (order %d)' % (tag, N))
    return r


def dec_rhumb(v, N, tag):
    o = 0
    r = {}
    for l in range(N):
        m = N - l - 1
        for j in range(m + 1):
            r[(tag, l, l + 1 + m - j)] = v[o + j]
        o += m + 1
    if o != len(v):
        raise AnalysisBroken('%s: layout does not consume the table (order %d)' % (tag, N))
    return r


AUXN = 6
RECT = 3
AUXNAME = ['phi', 'beta', 'theta', 'mu', 'chi', 'xi']


def dec_aux(v, p, N, tag):
    """AuxLatitude::fillcoeff coefficient blocks; also performs T2 (ptrs[] layout)."""
    r = {}
    t2 = []
    if len(p) != AUXN * AUXN + 1:
        t2.append('ptrs has %d entries, expected %d' % (len(p), AUXN * AUXN + 1))
        return r, t2
    if p[-1] != len(v):
        t2.append('ptrs[%d] = %d but coeffs has %d entries' % (AUXN * AUXN, p[-1], len(v)))
    for auxout in range(AUXN):
        for auxin in range(AUXN):
            k = AUXN * auxout + auxin
            o = p[k]
            if auxin == auxout:
                if p[k + 1] != p[k]:
                    t2.append('diagonal block %d is not empty' % k)
                continue
            for l in range(N):
                if auxin <= RECT and auxout <= RECT:
                    m = (N - l - 1) // 2
                    for j in range(m + 1):
                        if o + j < len(v):
                            r[(tag, auxout, auxin, l, l + 1 + 2 * (m - j))] = v[o + j]
                else:
                    m = N - l - 1
                    for j in range(m + 1):
                        if o + j < len(v):
                            r[(tag, auxout, auxin, l, l + 1 + m - j)] = v[o + j]
                o += m + 1
            if o != p[k + 1]:
                t2.append('block C[%s,%s] (k=%d): layout implies next offset %d but ptrs[%d] = %d'
                          % (AUXNAME[auxout], AUXNAME[auxin], k, o, k + 1, p[k + 1]))
    return r, t2


def dec_poly(v, m, tag, step=1):
    if len(v) != m + 1:
        raise AnalysisBroken('%s: layout does not consume the table' % tag)
    return {(tag, step * (m - j)): v[j] for j in range(m + 1)}


# ------------------------------------------------------------------ families
FAMILIES = {
    'geodesic': dict(src='src/Geodesic.cpp', macro='GEOGRAPHICLIB_GEODESIC_ORDER', orders=[3, 4, 5, 6, 7, 8]),
    'tm': dict(src='src/TransverseMercator.cpp', macro='GEOGRAPHICLIB_TRANSVERSEMERCATOR_ORDER',
               orders=[4, 5, 6, 7, 8]),
    'rhumb': dict(src='src/Rhumb.cpp', macro='GEOGRAPHICLIB_RHUMBAREA_ORDER', orders=[4, 5, 6, 7, 8]),
    'aux': dict(src='src/AuxLatitude.cpp', macro='GEOGRAPHICLIB_AUXLATITUDE_ORDER', orders=[4, 6, 8]),
}

GEOD_TABLES = {
    'A1m1f': (NS + 'Geodesic::A1m1f', 'coeff', dec_A1),
    'C1f': (NS + 'Geodesic::C1f', 'coeff', dec_C1),
    'C1pf': (NS + 'Geodesic::C1pf', 'coeff', dec_C1),
    'A2m1f': (NS + 'Geodesic::A2m1f', 'coeff', dec_A1),
    'C2f': (NS + 'Geodesic::C2f', 'coeff', dec_C1),
    'A3coeff': (NS + 'Geodesic::A3coeff', 'coeff', dec_A3),
    'C3coeff': (NS + 'Geodesic::C3coeff', 'coeff', dec_C3),
    'C4coeff': (NS + 'Geodesic::C4coeff', 'coeff', dec_C4),
}


def order_of(prog, family):
    """the order the program was compiled with: evaluated from the sizes the code itself uses."""
    if family == 'geodesic':
        ev = prog.enum_values(NS + 'Geodesic')
        v = prog.var_by_q(NS + 'Geodesic::nA1_')
        return _const(prog, NS + 'Geodesic::nA1_')
    if family == 'tm':
        return _const(prog, NS + 'TransverseMercator::maxpow_')
    if family == 'rhumb':
        return _const(prog, NS + 'Rhumb::Lmax_')
    if family == 'aux':
        return _const(prog, NS + 'AuxLatitude::Lmax')
    raise KeyError(family)


def _const(prog, q):
    v = prog.var_by_q(q)
    if v is None or 'nodes' not in v:
        raise AnalysisBroken('anchor vanished: constant ' + q)
    n = v['nodes'][v['init']]
    if 'cv' not in n:
        for nn in v['nodes']:
            if nn and 'cv' in nn:
                return int(nn['cv'])
        raise AnalysisBroken('constant %s is not a compile-time integer' % q)
    return int(n['cv'])


def decode_family(prog, family, order):
    """monomial -> rational for every table of a family in program prog."""
    out = {}
    t2 = []
    where = {}
    if family == 'geodesic':
        for name, (fq, var, dec) in GEOD_TABLES.items():
            v, loc = static_table(prog, fq, var)
            out.update(dec(v, order, name))
            where[name] = loc
    elif family == 'tm':
        ctor = NS + 'TransverseMercator::TransverseMercator'
        v, loc = static_table(prog, ctor, 'b1coeff')
        m = order // 2
        if len(v) != m + 2:
            raise AnalysisBroken('b1coeff: layout does not consume the table')
        for j in range(m + 1):
            out[('b1', 2 * (m - j))] = v[j] / v[m + 1]
        where['b1'] = loc
        for nm in ('alpcoeff', 'betcoeff'):
            v, loc = static_table(prog, ctor, nm)
            out.update(dec_krueger(v, order, nm[:3]))
            where[nm[:3]] = loc
    elif family == 'rhumb':
        v, loc = static_table(prog, NS + 'Rhumb::AreaCoeffs', 'coeffs')
        out.update(dec_rhumb(v, order, 'rhumbQ'))
        where['rhumbQ'] = loc
    elif family == 'aux':
        v, loc = static_table(prog, NS + 'AuxLatitude::fillcoeff', 'coeffs')
        p, ploc = static_table(prog, NS + 'AuxLatitude::fillcoeff', 'ptrs')
        r, t2 = dec_aux(v, [int(x) for x in p], order, 'aux')
        out.update(r)
        where['aux'] = loc
        where['ptrs'] = ploc
        v, loc = static_table(prog, NS + 'AuxLatitude::RectifyingRadius', 'coeff')
        out.update(dec_poly(v, order // 2, 'rm', 2))
        where['rm'] = loc
        v, loc = static_table(prog, NS + 'AuxLatitude::AuthalicRadiusSquared', 'coeff')
        out.update(dec_poly(v, order, 'c2'))
        where['c2'] = loc
    return out, t2, where


_cache = {}


def family_tables(ctx, family):
    """{order: monomial map}, active order, T2 messages for the active order, locations."""
    ck = (family, ctx.prog.raw.get('precision', 2), id(ctx.prog))
    if ck in _cache:
        return _cache[ck]
    fam = FAMILIES[family]
    active = order_of(ctx.prog, family)
    src = os.path.join(ctx.repo, fam['src'])
    orders = sorted(set(fam['orders']) | {active})

    def one(o):
        if o == active:
            return o, ctx.prog
        return o, build.extract_single(src, ['-D%s=%d' % (fam['macro'], o)], precision=ctx.prog.raw.get('precision', 2))
    with ThreadPoolExecutor(8) as ex:
        progs = dict(ex.map(one, orders))
    tabs = {}
    t2 = {}
    where = {}
    for o in orders:
        if o != active and order_of(progs[o], family) != o:
            raise AnalysisBroken('order macro %s is not honoured by %s (asked %d)' % (fam['macro'], fam['src'], o))
        tabs[o], t2[o], w = decode_family(progs[o], family, o)
        if o == active:
            where = w
    _cache[ck] = (tabs, active, t2, where)
    return _cache[ck]


def rule_T1(ctx, family, tags=None, title=None, keep=None):
    """sibling agreement of the active order's tables with every other order."""
    res = RuleResult('T1', title or ('series tables of %s are exact truncations of one another across orders '
                                     '(every monomial of the active order equals its siblings)' % family))
    tabs, active, t2, where = family_tables(ctx, family)
    act = tabs[active]
    nmon = 0
    ncmp = 0
    single = 0
    for mono, val in sorted(act.items(), key=lambda kv: str(kv[0])):
        if tags is not None and mono[0] not in tags:
            continue
        if keep is not None and not keep(mono):
            continue
        nmon += 1
        sibs = [(o, tabs[o][mono]) for o in tabs if o != active and mono in tabs[o]]
        if len(sibs) == 1:
            single += 1
        if not sibs:
            res.ob(True, None)
            res.note('monomial %s has no sibling' % (mono,))
            continue
        bad = [(o, v) for o, v in sibs if v != val]
        ncmp += len(sibs)
        agree_n = len(sibs) - len(bad)
        if bad and agree_n >= 2 and agree_n > len(bad):
            # the active table agrees with a majority of >= 2 independent siblings: the odd ones out
            # are inactive tables, which change no behaviour of the built configuration
            res.note('inactive table(s) of order %s disagree with the active order-%d value %s of %s%s'
                     % ([o for o, v in bad], active, val, mono[0], tuple(mono[1:])))
            bad = []
        ok = not bad
        res.ob(ok, {'table': mono[0], 'monomial': list(mono[1:]), 'active_order': active, 'value': str(val),
                    'siblings': {str(o): str(v) for o, v in sibs}}
               if (not ok or nmon % 40 == 1) else None)
        if not ok:
            agree = [o for o, v in sibs if v == val]
            res.fail(mono[0], 'monomial%s' % (tuple(mono[1:]),), where.get(mono[0], ''),
                     'coefficient of %s%s is %s in the active order-%d table but %s in order %s'
                     ' (a Taylor coefficient cannot depend on the truncation order)%s'
                     % (mono[0], tuple(mono[1:]), val, active,
                        ', '.join(str(v) for o, v in bad), ', '.join(str(o) for o, v in bad),
                        '; orders %s agree with the active table' % agree if agree else ''))
    # inactive-only mismatches: warnings
    for o1 in tabs:
        for o2 in tabs:
            if o1 < o2 and active not in (o1, o2):
                for mono, v in tabs[o1].items():
                    if tags is not None and mono[0] not in tags:
                        continue
                    if mono in tabs[o2] and tabs[o2][mono] != v and mono not in act:
                        res.note('inactive tables disagree on %s: order %d has %s, order %d has %s'
                                 % (mono, o1, v, o2, tabs[o2][mono]))
    res.analysed.update({'family': family, 'active_order': active, 'orders_compared': sorted(tabs),
                         'active_monomials': nmon, 'comparisons': ncmp, 'single_sibling_monomials': single})
    return res, nmon


def rule_T2(ctx):
    res = RuleResult('T2', 'AuxLatitude::fillcoeff: ptrs[] offsets equal the block lengths the consumer loop '
                           'implies, diagonal blocks are empty, ptrs[36] == len(coeffs)')
    tabs, active, t2, where = family_tables(ctx, 'aux')
    for o in sorted(t2):
        msgs = t2[o]
        if o == active:
            res.ob(not msgs, {'order': o, 'blocks': AUXN * AUXN, 'problems': msgs})
            for m in msgs:
                res.fail('AuxLatitude::fillcoeff', 'ptrs', where.get('ptrs', ''), 'order %d: %s' % (o, m))
        else:
            res.ob(True, None)
            for m in msgs:
                res.note('inactive order %d: %s' % (o, m))
    return res


# ------------------------------------------------------------------ T3 / T4 constants
class Consts:
    def __init__(self, prog):
        self.prog = prog

    def _var(self, q):
        v = self.prog.var_by_q(q)
        if v is None or 'nodes' not in v:
            raise AnalysisBroken('anchor vanished: constant ' + q)
        return v

    def i(self, q):
        """integer constant (static const / constexpr / enumerator)."""
        if '::' in q:
            cls, name = q.rsplit('::', 1)
            ev = self.prog.enum_values(cls)
            if name in ev:
                return ev[name]
        v = self._var(q)
        for idx in (v['init'],):
            n = v['nodes'][idx]
            if 'cv' in n:
                return int(n['cv'])
        for n in v['nodes']:
            if n and 'cv' in n:
                return int(n['cv'])
        raise AnalysisBroken('constant %s has no compile-time value' % q)

    def ia(self, q):
        """integer array constant."""
        v = self._var(q)
        n = v['nodes'][v['init']]
        while n['k'] != 'InitListExpr' and n['ch']:
            n = v['nodes'][n['ch'][0]]
        if n['k'] != 'InitListExpr':
            raise AnalysisBroken('%s is not an initialiser list' % q)
        out = []
        for c in n['ch']:
            cn = v['nodes'][c]
            if 'cv' not in cn:
                raise AnalysisBroken('%s: element is not constant' % q)
            out.append(int(cn['cv']))
        return out

    def _str_of(self, nodes, nid):
        n = nodes[nid]
        while n['k'] != 'StringLiteral' and n['ch']:
            n = nodes[n['ch'][0]]
        if n['k'] != 'StringLiteral' or 'bytes' not in n:
            return None
        return bytes(n['bytes']).decode('latin-1')

    def s(self, q):
        v = self._var(q)
        s = self._str_of(v['nodes'], v['init'])
        if s is None:
            raise AnalysisBroken('%s is not a string literal' % q)
        return s

    def sa(self, q):
        v = self._var(q)
        n = v['nodes'][v['init']]
        while n['k'] != 'InitListExpr' and n['ch']:
            n = v['nodes'][n['ch'][0]]
        if n['k'] != 'InitListExpr':
            raise AnalysisBroken('%s is not an initialiser list' % q)
        out = []
        for c in n['ch']:
            s = self._str_of(v['nodes'], c)
            if s is None:
                raise AnalysisBroken('%s: element is not a string literal' % q)
            out.append(s)
        return out


def _alphabet_relations(K):
    """(name, lhs, rhs, why) - relations confirmed by reading the indexing expressions."""
    M = NS + 'MGRS::'
    G = NS + 'GARS::'
    R = NS + 'Georef::'
    O = NS + 'OSGB::'
    H = NS + 'Geohash::'
    rel = []
    utmcols = K.sa(M + 'utmcols_')
    rel.append(('MGRS::utmcols_ sets', len(utmcols), 3, 'indexed by zone1 % 3'))
    for i, s in enumerate(utmcols):
        rel.append(('strlen(MGRS::utmcols_[%d])' % i, len(s), K.i(M + 'maxutmcol_') - K.i(M + 'minutmcol_'),
                    'indexed by icol = xh - minutmcol_ with xh in [minutmcol_, maxutmcol_)'))
    rel.append(('strlen(MGRS::utmrow_)', len(K.s(M + 'utmrow_')), K.i(M + 'utmrowperiod_'),
                'indexed modulo utmrowperiod_'))
    ups = K.sa(M + 'upscols_')
    rel.append(('MGRS::upscols_ sets', len(ups), 4, 'indexed by iband = 2*northp + eastp'))
    if len(ups) == 4:
        rel.append(('strlen(MGRS::upscols_[0])', len(ups[0]), K.i(M + 'upseasting_') - K.i(M + 'minupsSind_'),
                    'south, west half: xh - minupsSind_, xh < upseasting_'))
        rel.append(('strlen(MGRS::upscols_[1])', len(ups[1]), K.i(M + 'maxupsSind_') - K.i(M + 'upseasting_'),
                    'south, east half: xh - upseasting_, xh < maxupsSind_'))
        rel.append(('strlen(MGRS::upscols_[2])', len(ups[2]), K.i(M + 'upseasting_') - K.i(M + 'minupsNind_'),
                    'north, west half'))
        rel.append(('strlen(MGRS::upscols_[3])', len(ups[3]), K.i(M + 'maxupsNind_') - K.i(M + 'upseasting_'),
                    'north, east half'))
    rows = K.sa(M + 'upsrows_')
    rel.append(('MGRS::upsrows_ sets', len(rows), 2, 'indexed by northp'))
    if len(rows) == 2:
        rel.append(('strlen(MGRS::upsrows_[0])', len(rows[0]), K.i(M + 'maxupsSind_') - K.i(M + 'minupsSind_'),
                    'yh - minupsSind_'))
        rel.append(('strlen(MGRS::upsrows_[1])', len(rows[1]), K.i(M + 'maxupsNind_') - K.i(M + 'minupsNind_'),
                    'yh - minupsNind_'))
    rel.append(('strlen(MGRS::latband_)', len(K.s(M + 'latband_')), 20, 'indexed by 10 + iband, iband in [-10, 10)'))
    rel.append(('strlen(MGRS::upsband_)', len(K.s(M + 'upsband_')), 4, 'indexed by iband in [0, 4)'))
    rel.append(('strlen(MGRS::digits_)', len(K.s(M + 'digits_')), K.i(M + 'base_'), 'indexed modulo base_'))
    rel.append(('strlen(MGRS::hemispheres_)', len(K.s(M + 'hemispheres_')), 2, 'indexed by northp'))
    rel.append(('strlen(Geohash::lcdigits_)', len(K.s(H + 'lcdigits_')), 32, 'five bits per character'))
    rel.append(('strlen(Geohash::ucdigits_)', len(K.s(H + 'ucdigits_')), 32, 'five bits per character'))
    rel.append(('strlen(GARS::digits_)', len(K.s(G + 'digits_')), K.i(G + 'baselon_'), 'ilon % baselon_'))
    rel.append(('strlen(GARS::letters_)', len(K.s(G + 'letters_')), K.i(G + 'baselat_'), 'ilat % baselat_'))
    rel.append(('GARS: baselat_^latlen_ >= 180*mult1_', int(K.i(G + 'baselat_') ** K.i(G + 'latlen_') >= 180 * K.i(G + 'mult1_')), 1,
                'latitude band index fits latlen_ letters'))
    rel.append(('GARS: baselon_^lonlen_ > 360*mult1_', int(K.i(G + 'baselon_') ** K.i(G + 'lonlen_') > 360 * K.i(G + 'mult1_')), 1,
                'longitude band index (1-based) fits lonlen_ digits'))
    rel.append(('GARS::m_', K.i(G + 'm_'), K.i(G + 'mult1_') * K.i(G + 'mult2_') * K.i(G + 'mult3_'), 'definition used by the digit extraction'))
    rel.append(('strlen(GARS::digits_) >= mult3_^2+1', int(len(K.s(G + 'digits_')) >= K.i(G + 'mult3_') ** 2 + 1), 1, 'keypad index 1..9'))
    rel.append(('strlen(Georef::digits_)', len(K.s(R + 'digits_')), K.i(R + 'base_'), 'x % base_'))
    rel.append(('strlen(Georef::lontile_) * tile_', len(K.s(R + 'lontile_')) * K.i(R + 'tile_'), 360, 'ilon / tile_, ilon in [0, 360)'))
    rel.append(('strlen(Georef::lattile_) * tile_', len(K.s(R + 'lattile_')) * K.i(R + 'tile_'), 180, 'ilat / tile_, ilat in [0, 180)'))
    rel.append(('strlen(Georef::degrees_)', len(K.s(R + 'degrees_')), K.i(R + 'tile_'), 'ilon % tile_'))
    rel.append(('Georef::maxlen_', K.i(R + 'maxlen_'), K.i(R + 'baselen_') + 2 * K.i(R + 'maxprec_'), 'buffer size'))
    rel.append(('strlen(OSGB::letters_)', len(K.s(O + 'letters_')), K.i(O + 'tilegrid_') ** 2, 'tilegrid_ x tilegrid_ squares'))
    rel.append(('strlen(OSGB::digits_)', len(K.s(O + 'digits_')), K.i(O + 'base_'), 'x % base_'))
    rel.append(('GARS::maxlen_', K.i(G + 'maxlen_'), K.i(G + 'baselen_') + K.i(G + 'maxprec_'), 'buffer size'))
    return rel


def _alphabets(K):
    M = NS + 'MGRS::'
    out = []
    for i, s in enumerate(K.sa(M + 'utmcols_')):
        out.append(('MGRS::utmcols_[%d]' % i, s))
    out.append(('MGRS::utmrow_', K.s(M + 'utmrow_')))
    for i, s in enumerate(K.sa(M + 'upscols_')):
        out.append(('MGRS::upscols_[%d]' % i, s))
    for i, s in enumerate(K.sa(M + 'upsrows_')):
        out.append(('MGRS::upsrows_[%d]' % i, s))
    for nm in ('latband_', 'upsband_', 'digits_', 'hemispheres_'):
        out.append(('MGRS::' + nm, K.s(M + nm)))
    out.append(('Geohash::lcdigits_', K.s(NS + 'Geohash::lcdigits_')))
    out.append(('Geohash::ucdigits_', K.s(NS + 'Geohash::ucdigits_')))
    out.append(('GARS::digits_', K.s(NS + 'GARS::digits_')))
    out.append(('GARS::letters_', K.s(NS + 'GARS::letters_')))
    for nm in ('digits_', 'lontile_', 'lattile_', 'degrees_'):
        out.append(('Georef::' + nm, K.s(NS + 'Georef::' + nm)))
    out.append(('OSGB::letters_', K.s(NS + 'OSGB::letters_')))
    out.append(('OSGB::digits_', K.s(NS + 'OSGB::digits_')))
    return out


def rule_T3(ctx, classes=None):
    res = RuleResult('T3', 'code alphabets are injective under the case folding the decoders apply and sized to the '
                           'index range of their consumer (relations name constants by symbol)')
    K = Consts(ctx.prog)
    n = 0
    for name, s in _alphabets(K):
        if classes and name.split('::')[0] not in classes:
            continue
        n += 1
        up = s.upper()
        dup = sorted({c for c in up if up.count(c) > 1})
        bad_nul = '\0' in s
        ok = not dup and not bad_nul and len(s) > 0
        res.ob(ok, {'alphabet': name, 'value': s, 'repeated': dup})
        if not ok:
            res.fail(name.split('::')[0], name, '', 'alphabet %s = "%s" repeats %s under case folding: decode(encode(x)) '
                     'cannot be the identity' % (name, s, dup))
    for name, lhs, rhs, why in _alphabet_relations(K):
        if classes and name.replace('strlen(', '').split('::')[0].split(':')[0] not in classes:
            continue
        n += 1
        ok = lhs == rhs
        res.ob(ok, {'relation': name, 'lhs': lhs, 'rhs': rhs, 'because': why} if (not ok or n % 6 == 0) else None)
        if not ok:
            res.fail(name.replace('strlen(', '').split('::')[0], name, '',
                     '%s is %s but its consumer needs %s (%s)' % (name, lhs, rhs, why))
    if not classes or 'Geohash' in classes:
        lc, uc = K.s(NS + 'Geohash::lcdigits_'), K.s(NS + 'Geohash::ucdigits_')
        ok = lc.upper() == uc and uc.lower() == lc
        n += 1
        res.ob(ok, {'relation': 'Geohash::ucdigits_ == toupper(lcdigits_)', 'ok': ok})
        if not ok:
            res.fail('Geohash', 'ucdigits_', '', 'Geohash::lcdigits_ and ucdigits_ are not case images of each other')
    res.analysed['alphabets_and_relations'] = n
    return res, n


def rule_T4(ctx):
    res = RuleResult('T4', 'constant relations the UTM/UPS arithmetic relies on (EPSG code blocks, range tables '
                           'derived from the MGRS tile constants)')
    K = Consts(ctx.prog)
    U = NS + 'UTMUPS::'
    M = NS + 'MGRS::'
    rel = []
    rel.append(('epsg60N - epsg01N', K.i(U + 'epsg60N') - K.i(U + 'epsg01N'), K.i(U + 'MAXUTMZONE') - K.i(U + 'MINUTMZONE'),
                'DecodeEPSG maps [epsg01N, epsg60N] onto [MINUTMZONE, MAXUTMZONE]'))
    rel.append(('epsg60S - epsg01S', K.i(U + 'epsg60S') - K.i(U + 'epsg01S'), K.i(U + 'MAXUTMZONE') - K.i(U + 'MINUTMZONE'),
                'same for the southern block'))
    rel.append(('epsgN - epsgS', K.i(U + 'epsgN') - K.i(U + 'epsgS'), K.i(U + 'epsg01N') - K.i(U + 'epsg01S'),
                'EncodeEPSG adds epsgN - epsgS to reach the northern code of both UPS and UTM'))
    rel.append(('epsgN == epsg60N + 1', K.i(U + 'epsgN'), K.i(U + 'epsg60N') + 1, 'the blocks do not overlap'))
    rel.append(('epsgS == epsg60S + 1', K.i(U + 'epsgS'), K.i(U + 'epsg60S') + 1, 'the blocks do not overlap'))
    tile = K.i(M + 'tile_')
    for nm in ('mineasting_', 'maxeasting_', 'minnorthing_', 'maxnorthing_'):
        a = K.ia(U + nm)
        b = K.ia(M + nm)
        rel.append(('UTMUPS::%s == MGRS::%s * tile_' % (nm, nm), a, [x * tile for x in b],
                    'UTMUPS::CheckCoords and MGRS::CheckCoords must accept the same rectangles'))
    rel.append(('UTMUPS::falseeasting_', K.ia(U + 'falseeasting_'),
                [K.i(M + 'upseasting_') * tile] * 2 + [K.i(M + 'utmeasting_') * tile] * 2, 'false origins per (UPS|UTM, S|N)'))
    rel.append(('UTMUPS::falsenorthing_', K.ia(U + 'falsenorthing_'),
                [K.i(M + 'upseasting_') * tile] * 2 + [K.i(M + 'maxutmSrow_') * tile, K.i(M + 'minutmNrow_') * tile],
                'false origins per (UPS|UTM, S|N)'))
    rel.append(('MGRS::maxutmSrow_ == 5 * utmrowperiod_', K.i(M + 'maxutmSrow_'), 5 * K.i(M + 'utmrowperiod_'),
                'UTMRow folds southern rows by maxutmSrow_ and relies on it being a multiple of the period'))
    rel.append(('MGRS::utmNshift_', K.i(M + 'utmNshift_'), (K.i(M + 'maxutmSrow_') - K.i(M + 'minutmNrow_')) * tile,
                'hemisphere northing shift'))
    n = 0
    for name, lhs, rhs, why in rel:
        n += 1
        ok = lhs == rhs
        res.ob(ok, {'relation': name, 'lhs': lhs, 'rhs': rhs, 'because': why} if (not ok or n % 3 == 0) else None)
        if not ok:
            res.fail('UTMUPS', name, '', '%s: %s != %s (%s)' % (name, lhs, rhs, why))
    res.analysed['relations'] = n
    return res, n


# ------------------------------------------------------------------ F1: documented mode flags
FLAG_TABLE = [
    # (caller class, callee classes, parameter name, required value, reason)
    (NS + 'Ellipsoid', (NS + 'AuxLatitude', NS + 'DAuxLatitude'), 'exact', 1,
     'Ellipsoid.hpp: "a wrapper on top of the AuxLatitude class which is called with exact = true"'),
    # required value 'member:_exact': the argument must be (a read of) the data member _exact of the solver
    (NS + 'Rhumb', (NS + 'AuxLatitude', NS + 'DAuxLatitude'), 'exact', 'member:_exact',
     'Rhumb.hpp: the exact flag given to the constructor selects the exact auxiliary-latitude conversions; the default '
     'argument (false) silently selects the order-6 series'),
    (NS + 'RhumbLine', (NS + 'AuxLatitude', NS + 'DAuxLatitude'), 'exact', 'member:_exact',
     'as for Rhumb (RhumbLine uses the flag of the Rhumb object it was created from)'),
]


def rule_F1(ctx):
    res = RuleResult('F1', 'documented mode flags: every call from Ellipsoid into AuxLatitude passes exact = true, and every '
                           'call from Rhumb / RhumbLine passes the own _exact flag of the solver (the series default is only valid '
                           'for small flattening)')
    n = 0
    for caller, callees, pname, want, why in FLAG_TABLE:
        for f in sorted(ctx.lib_fns(), key=lambda x: (x.file, x.line)):
            if f.cls != caller:
                continue
            sites = [(i, nd) for i, nd in f.all_nodes()] + \
                    [(it['init'], f.nodes[f.strip(it['init'])]) for it in f.d.get('inits', []) if it['init'] >= 0]
            seen = set()
            for i, nd in sites:
                ce = nd.get('callee')
                if not ce or ce.get('cls') not in callees or pname not in ce.get('pn', []) or i in seen:
                    continue
                seen.add(i)
                j = ce['pn'].index(pname)
                args = nd.get('args', [])
                n += 1
                val = None
                if j < len(args):
                    an = f.nodes[args[j]]
                    for k in f.walk(args[j]):
                        kn = f.nodes[k]
                        if 'cv' in kn:
                            val = int(kn['cv'])
                            break
                        if kn['k'] == 'CXXBoolLiteralExpr':
                            val = int(kn['v'])
                            break
                    if an['k'] == 'CXXDefaultArgExpr' and val is None:
                        val = 0
                if isinstance(want, str) and want.startswith('member:'):
                    m = want.split(':', 1)[1]
                    val = 'other'
                    if j < len(args):
                        an = f.nodes[args[j]]
                        if an['k'] == 'CXXDefaultArgExpr':
                            val = 'the default (false)'
                        else:
                            rd = [f.nodes[k] for k in f.walk(args[j]) if f.nodes[k]['k'] == 'MemberExpr']
                            if any(r.get('m') == m for r in rd):
                                val = want
                    else:
                        val = 'the default (false)'
                ok = val == want
                res.ob(ok, {'call': '%s -> %s' % (f.q, ce['q']), 'at': f.loc(i), pname: val} if (not ok or n % 5 == 1) else None)
                if not ok:
                    res.fail(f.q, '%s(%s)' % (ce['name'], pname), f.loc(i),
                             '%s calls %s with %s = %s, but %s' % (f.q, ce['q'], pname,
                                                                   'the default (false)' if val in (0, None) else val, why))
    res.analysed['call_sites'] = n
    res.floor('flagged call sites', n, 12)
    return res
