"""QUAD: the quadrant logic of the degree-argument trigonometric functions, decided over the reals (sympoly).

Math::sincosd, sincosde, sind and cosd reduce x with remquo to d in [-45, 45] and a quadrant count q, evaluate
sin/cos of the reduced angle (with exact values at 30 and 45 degrees) and then rotate by q quarter turns.  For
every residue of q (q = -4 .. 7, so that negative counts and counts beyond 3 are covered) the functions are
evaluated symbolically with q fixed; on the path without special cases the results must be

    sin(theta + 90 q) = [ S,  C, -S, -C ][q mod 4],      cos(theta + 90 q) = [ C, -S, -C,  S ][q mod 4]

with S = sin(theta), C = cos(theta) the library's own calls; on the special-value paths the squares of the
results must be the squares of the rotated pair the function assigned; sind and cosd must agree with sincosd
path class by path class; the exact values assigned at 30 and 45 degrees lie on the unit circle.  A swapped arm, a wrong sign or `p & 1` tested for `p & 2` breaks an identity.
"""
from ..core import RuleResult
from ..build import AnalysisBroken
from ..sympoly import SymEval, Poly, Unsupported, reduce_sqrt

NS = 'GeographicLib::'
KS = tuple(range(-4, 8))


def _fn(ctx, q, ptype='double'):
    c = [f for f in ctx.prog.fns.values() if f.q == q and f.d.get('body', -1) >= 0 and f.params and
         f.params[0]['t'].replace('const ', '') == ptype]
    if not c:
        raise AnalysisBroken('QUAD: no body found for %s(%s)' % (q, ptype))
    return sorted(c, key=lambda f: (f.file, f.line))[0]


def _rot(S, C, k):
    return [S, C, -S, -C][k % 4], [C, -S, -C, S][k % 4]


def _trig_syms(p):
    s = [k for k, (nm, _) in p.pure_args.items() if nm == 'sin']
    c = [k for k, (nm, _) in p.pure_args.items() if nm == 'cos']
    if len(s) > 1 or len(c) > 1 or not (s or c):
        return None
    if s and c and p.pure_args[s[0]][1] != p.pure_args[c[0]][1]:
        return None
    sname = s[0] if s else 'sin' + c[0][3:]
    cname = c[0] if c else 'cos' + s[0][3:]
    return Poly.sym(sname), Poly.sym(cname)


def _special(p):
    """'45', '30' or None: which exact-value case the path assumed."""
    for e in p.eqs:
        t = e.show()
        if t.startswith('-90 + 2*abs('):
            return '45'
        if t.startswith('-90 + 3*abs('):
            return '30'
    return None


def rule_QUAD(ctx):
    res = RuleResult('QUAD', 'quadrant logic over the reals: for every quadrant count q = -4 .. 7 sincosd, sincosde, sind and '
                             'cosd return the quarter-turn rotation [S, C, -S, -C][q mod 4] / [C, -S, -C, S][q mod 4] of the '
                             'sine and cosine of the reduced angle; special-value paths carry the rotated exact values; sind '
                             'and cosd agree with sincosd')
    ncase = 0
    npath = 0
    per = {}
    for name in ('sincosd', 'sincosde', 'sind', 'cosd'):
        f = _fn(ctx, NS + 'Math::' + name)
        for k in (tuple(range(-8, 13)) if getattr(ctx, 'tier', 'quick') == 'thorough' else KS):
            ev = SymEval(ctx.prog, noinline={NS + 'Math::AngRound'}, max_paths=2000)
            ev.preset_outs = {'q': k}
            try:
                paths = [p for p in ev.explore(f) if p.outcome == 'return']
            except Unsupported as e:
                raise AnalysisBroken('QUAD: %s not evaluated: %s' % (f.q, e))
            if not paths:
                raise AnalysisBroken('QUAD: %s has no returning path' % f.q)
            ncase += 1
            npath += len(paths)
            bad = None
            generic = 0
            sq = {'45': (set(), set()), '30': (set(), set())}
            for p in paths:
                if name in ('sincosd', 'sincosde'):
                    outs = [p.env.get(('v', pp['d'])) for pp in f.params if pp['pk'] == 'r']
                    if len(outs) != 2 or None in outs:
                        raise AnalysisBroken('QUAD: %s does not set its two results' % f.q)
                    sinx, cosx = outs
                    loc = {}
                    for key, v in p.env.items():
                        if key[0] == 'v' and len(key) == 2 and key[1].split('@')[0] in ('s', 'c'):
                            loc[key[1].split('@')[0]] = v
                    if set(loc) != {'s', 'c'}:
                        raise AnalysisBroken('QUAD: locals s, c not found in %s' % f.q)
                    e1, e2 = _rot(loc['s'], loc['c'], k)
                    if not ((sinx * sinx - e1 * e1).is_zero() and (cosx - e2).is_zero()):
                        bad = bad or ('on a path assuming %s: (sinx, cosx) = (%s, %s), the rotation of (s, c) is (%s, %s)'
                                      % ([e.show()[:40] for e in p.eqs], sinx.show()[:50], cosx.show()[:50], e1.show()[:50], e2.show()[:50]))
                    vals = (sinx, cosx)
                    if _special(p):
                        unit = reduce_sqrt(loc['s'] * loc['s'] + loc['c'] * loc['c'], p.pure_args)
                        if not (unit - Poly.const(1)).is_zero():
                            bad = bad or ('the exact values assigned in the %s-degree case are not on the unit circle: s^2 + c^2 '
                                          '= %s' % (_special(p), unit.show()[:60]))
                else:
                    if p.ret is None:
                        raise AnalysisBroken('QUAD: %s returns nothing' % f.q)
                    vals = (p.ret, p.ret)
                sp = _special(p)
                if sp:
                    sq[sp][0].add((vals[0] * vals[0]).show())
                    sq[sp][1].add((vals[1] * vals[1]).show())
                if not p.eqs:
                    generic += 1
                    sc = _trig_syms(p)
                    if sc is None:
                        raise AnalysisBroken('QUAD: sin/cos of the reduced angle not found on the generic path of %s' % f.q)
                    e1, e2 = _rot(sc[0], sc[1], k)
                    got = {'sincosd': vals, 'sincosde': vals, 'sind': (vals[0], e2), 'cosd': (e1, vals[1])}[name]
                    if not ((got[0] - e1).is_zero() and (got[1] - e2).is_zero()):
                        bad = bad or ('generic path: got %s, expected %s' %
                                      ([v.show()[:50] for v in vals], [e1.show()[:50], e2.show()[:50]]))
            if not generic:
                raise AnalysisBroken('QUAD: %s has no path without special cases for q = %d' % (f.q, k))
            per[(name, k)] = sq
            if name in ('sind', 'cosd') and ('sincosd', k) in per:
                ref = per[('sincosd', k)]
                idx = 0 if name == 'sind' else 1
                for sp in ('45', '30'):
                    if sq[sp][idx] != ref[sp][idx]:
                        bad = bad or ('%s-degree case: squares %s, sincosd gives %s' % (sp, sorted(sq[sp][idx]), sorted(ref[sp][idx])))
            res.ob(bad is None, {'fn': f.q, 'q': k, 'paths': len(paths)} if (bad or k in (0, -1)) else None)
            if bad:
                res.fail(f.q, 'q=%d' % k, f.loc(), '%s with quadrant count %d: %s' % (f.q, k, bad))
    # the sign of the exact values comes from the reduced angle (copysign read as |a| sgn(b) instead of forking)
    for name in ('sincosd', 'sincosde', 'sind', 'cosd'):
        f = _fn(ctx, NS + 'Math::' + name)
        ev = SymEval(ctx.prog, noinline={NS + 'Math::AngRound'}, max_paths=2000)
        ev.preset_outs = {'q': 0}
        ev.copysign_model = 'sgn'
        try:
            paths = [p for p in ev.explore(f) if p.outcome == 'return']
        except Unsupported as e:
            raise AnalysisBroken('QUAD: %s not evaluated: %s' % (f.q, e))
        bad = None
        nspecial = 0
        for p in paths:
            if not _special(p) or len(p.eqs) != 1:
                continue
            nspecial += 1
            vals = [p.env.get(('v', pp['d'])) for pp in f.params if pp['pk'] == 'r'] if name.startswith('sincos') else [p.ret]
            sg = [s_ for v in vals if v is not None for s_ in v.symbols() if s_.startswith('sgn(')]
            if name != 'cosd' and not sg:
                bad = bad or 'the exact sine on the %s-degree path carries no sign (%s)' % (_special(p), [v.show()[:40] for v in vals])
            for s_ in sg:
                inner = p.pure_args.get(s_, (None, [Poly()]))[1][0]
                if not inner.symbols() or not all(x.startswith('remquo(') or x.startswith('AngRound(remquo(') or
                                                  x.startswith('atan2(0') for x in inner.symbols()):
                    bad = bad or 'the sign of the exact value on the %s-degree path is taken from %s, not from the reduced angle' \
                        % (_special(p), inner.show()[:60])
        ncase += 1
        if nspecial < 2:
            raise AnalysisBroken('QUAD: %s: %d special-value paths in the sign pass' % (f.q, nspecial))
        res.ob(bad is None, {'fn': f.q, 'sign_pass_paths': nspecial})
        if bad:
            res.fail(f.q, 'sign', f.loc(), '%s: %s' % (f.q, bad))
    res.analysed.update({'function_quadrant_cases': ncase, 'paths': npath})
    return res, ncase, npath


def rule_OCT(ctx):
    """atan2d: the octant rearrangement is undone by the final switch (modulo 360)."""
    from fractions import Fraction
    res = RuleResult('OCT', 'octant logic of atan2d over the reals: on every path the arguments handed to atan2 are a signed '
                            'permutation of (y, x) - a rotation by phi or a reflection - and the result c +- atan2(..) undoes it: '
                            'the returned angle is the angle of (x, y) modulo 360')
    f = _fn(ctx, NS + 'Math::atan2d')
    try:
        paths = [p for p in SymEval(ctx.prog).explore(f) if p.outcome == 'return']
    except Unsupported as e:
        raise AnalysisBroken('OCT: atan2d not evaluated: %s' % e)
    if len(paths) < 4:
        raise AnalysisBroken('OCT: atan2d has %d paths, expected the four octant cases' % len(paths))
    x, y = Poly.sym('x'), Poly.sym('y')
    for p in paths:
        at = [(k, a) for k, (nm, a) in p.pure_args.items() if nm == 'atan2' and not all(v.is_const() for v in a)]
        if len(at) != 1 or p.ret is None:
            raise AnalysisBroken('OCT: one atan2 call with variable arguments expected on each path of atan2d')
        key, (Y, X) = at[0]
        # (X, Y) = M (x, y), M a signed permutation
        def comp(v):
            for nm, base in (('x', x), ('y', y)):
                for sg in (1, -1):
                    if (v - base.scale(sg)).is_zero():
                        return nm, sg
            return None
        cx, cy = comp(X), comp(Y)
        bad = None
        if cx is None or cy is None or cx[0] == cy[0]:
            bad = 'atan2 is called with (%s, %s), not a signed permutation of (y, x)' % (Y.show(), X.show())
        else:
            # angle of (X, Y) as sigma * A + phi, A the angle of (x, y)
            m = {('x', 1, 'y', 1): (1, 0), ('x', -1, 'y', -1): (1, 180), ('y', -1, 'x', 1): (1, 90), ('y', 1, 'x', -1): (1, 270),
                 ('x', 1, 'y', -1): (-1, 0), ('x', -1, 'y', 1): (-1, 180), ('y', 1, 'x', 1): (-1, 90), ('y', -1, 'x', -1): (-1, 270)}
            sigma, phi = m[(cx[0], cx[1], cy[0], cy[1])]
            const = p.ret.t.get((), Fraction(0))
            rest = {k: v for k, v in p.ret.t.items() if k != ()}
            if len(rest) != 1:
                bad = 'the result %s is not c +- atan2(..)/degree' % p.ret.show()[:80]
            else:
                (mono, tau), = rest.items()
                if key not in dict(mono) or abs(tau) != 1:
                    bad = 'the result %s is not c +- atan2(..)/degree' % p.ret.show()[:80]
                else:
                    # returned = const + tau * (sigma * A + phi)  must be  A  (mod 360)
                    if tau * sigma != 1 or (const + tau * phi) % 360 != 0:
                        bad = ('atan2(%s, %s) is the angle %s%d; the path returns %s%s * that, which is not the angle of (x, y) '
                               'modulo 360' % (Y.show(), X.show(), 'A + ' if sigma == 1 else '-A + ', phi,
                                               ('%s + ' % const) if const else '', '+1' if tau == 1 else '-1'))
        res.ob(bad is None, {'atan2_arguments': [Y.show(), X.show()], 'returns': p.ret.show()[:80]})
        if bad:
            res.fail(f.q, 'atan2(%s,%s)' % (Y.show(), X.show()), f.loc(), bad)
    res.analysed['paths'] = len(paths)
    return res, len(paths)
