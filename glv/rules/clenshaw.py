"""CLEN: the Clenshaw summations evaluate the trigonometric series their callers mean.

For each summation routine and each length 0 .. NMAX the body is evaluated symbolically (sympoly: the loop is
unrolled for the concrete length, the coefficients c[i] / F[i] are symbols, pointer stepping `*--c` is followed)
and the returned polynomial in (sin x, cos x) is compared, modulo sin^2 + cos^2 = 1, with the defining sum built
from the angle-addition recurrences:

  Geodesic::SinCosSeries(sinp, sinx, cosx, c, n)   sinp: sum_{i=1..n} c[i] sin(2 i x);  else sum_{i=0..n-1} c[i] cos((2i+1) x)
  GeodesicExact has no such routine (it uses DST)
  AuxLatitude::Clenshaw(sinp, sz, cz, c, K)        sum_{k<K} c[k] sin((2k+2) z)  /  cos((2k+2) z)
  DST::eval(sinx, cosx, F, N)                      sum_{i<N} F[i] sin((2i+1) x)
  DST::integral(sinx, cosx, F, N)                  - sum_{i<N} F[i] cos((2i+1) x) / (2i+1)
  DST::integral(sinx, cosx, siny, cosy, F, N)      integral(y) - integral(x)
"""
from fractions import Fraction

from ..core import RuleResult
from ..build import AnalysisBroken
from ..sympoly import SymEval, Poly, Unsupported, reduce_units

NS = 'GeographicLib::'
NMAX = 9


def _multiples(s, c, upto):
    """[(sin(k x), cos(k x))] for k = 0 .. upto as polynomials in s, c."""
    out = [(Poly(), Poly.const(1))]
    for _ in range(upto):
        sk, ck = out[-1]
        out.append((sk * c + ck * s, ck * c - sk * s))
    return out


def _fn(ctx, q, nparams):
    c = [f for f in ctx.prog.fns.values() if f.q == q and f.d.get('body', -1) >= 0 and len(f.params) == nparams]
    if not c:
        raise AnalysisBroken('CLEN: %s with %d parameters not found' % (q, nparams))
    return sorted(c, key=lambda f: (f.file, f.line))[0]


def rule_CLEN(ctx, which=None):
    res = RuleResult('CLEN', 'Clenshaw summations over the reals: for every length 0 .. %d Geodesic::SinCosSeries, '
                             'AuxLatitude::Clenshaw, DST::eval and both DST::integral return the defining trigonometric sum '
                             '(polynomial identity in sin x, cos x modulo sin^2 + cos^2 = 1)' % NMAX)
    ncase = 0
    nmax = 12 if getattr(ctx, 'tier', 'quick') == 'thorough' else NMAX
    n2max = 8 if getattr(ctx, 'tier', 'quick') == 'thorough' else 6

    def run(f, preset):
        try:
            ps = [p for p in SymEval(ctx.prog, max_depth=2, max_paths=50).explore(f, preset=preset) if p.outcome == 'return']
        except Unsupported as e:
            raise AnalysisBroken('CLEN: %s not evaluated: %s' % (f.q, e))
        if len(ps) != 1 or ps[0].ret is None:
            raise AnalysisBroken('CLEN: %s: %d returning paths for a concrete length' % (f.q, len(ps)))
        return ps[0].ret

    def check(f, got, exp, units, what):
        nonlocal ncase
        ncase += 1
        d = reduce_units(got - exp, units)
        ok = d.is_zero()
        res.ob(ok, {'fn': f.q, 'case': what} if (not ok or ncase % 10 == 1) else None)
        if not ok:
            res.fail(f.q, what, f.loc(), '%s (%s): returned minus defining sum = %s' % (f.q, what, d.show()[:200]))

    def par(f, name):
        return ('v', [p['d'] for p in f.params if p['name'] == name][0])
    specs = which or ('sincos', 'aux', 'dst')
    if 'sincos' in specs:
        f = _fn(ctx, NS + 'Geodesic::SinCosSeries', 5)
        s, c = Poly.sym('sinx'), Poly.sym('cosx')
        m = _multiples(s, c, 2 * nmax + 2)
        for n in range(0, nmax + 1):
            for sinp in (1, 0):
                got = run(f, {par(f, 'sinp'): Poly.const(sinp), par(f, 'n'): Poly.const(n)})
                exp = Poly()
                if sinp:
                    for i in range(1, n + 1):
                        exp = exp + Poly.sym('c[%d]' % i) * m[2 * i][0]
                else:
                    for i in range(0, n):
                        exp = exp + Poly.sym('c[%d]' % i) * m[2 * i + 1][1]
                check(f, got, exp, [('sinx', 'cosx')], 'sinp=%d n=%d' % (sinp, n))
    if 'aux' in specs:
        f = _fn(ctx, NS + 'AuxLatitude::Clenshaw', 5)
        s, c = Poly.sym('szeta'), Poly.sym('czeta')
        m = _multiples(s, c, 2 * nmax + 2)
        for K in range(0, nmax + 1):
            for sinp in (1, 0):
                got = run(f, {par(f, 'sinp'): Poly.const(sinp), par(f, 'K'): Poly.const(K)})
                exp = Poly()
                for k in range(K):
                    exp = exp + Poly.sym('c[%d]' % k) * m[2 * k + 2][0 if sinp else 1]
                check(f, got, exp, [('szeta', 'czeta')], 'sinp=%d K=%d' % (sinp, K))
    if 'dst' in specs:
        fe, fi, fd = _fn(ctx, NS + 'DST::eval', 4), _fn(ctx, NS + 'DST::integral', 4), _fn(ctx, NS + 'DST::integral', 6)
        s, c = Poly.sym('sinx'), Poly.sym('cosx')
        sy, cy = Poly.sym('siny'), Poly.sym('cosy')
        mx, my = _multiples(s, c, 2 * nmax + 2), _multiples(sy, cy, 2 * nmax + 2)
        for N in range(0, nmax + 1):
            got = run(fe, {par(fe, 'N'): Poly.const(N)})
            exp = Poly()
            for i in range(N):
                exp = exp + Poly.sym('F[%d]' % i) * mx[2 * i + 1][0]
            check(fe, got, exp, [('sinx', 'cosx')], 'eval N=%d' % N)
            got = run(fi, {par(fi, 'N'): Poly.const(N)})
            ex, ey = Poly(), Poly()
            for i in range(N):
                ex = ex - (Poly.sym('F[%d]' % i) * mx[2 * i + 1][1]).scale(Fraction(1, 2 * i + 1))
                ey = ey - (Poly.sym('F[%d]' % i) * my[2 * i + 1][1]).scale(Fraction(1, 2 * i + 1))
            check(fi, got, ex, [('sinx', 'cosx')], 'integral N=%d' % N)
            if N <= n2max:      # the two-angle form grows fast
                got = run(fd, {par(fd, 'N'): Poly.const(N)})
                check(fd, got, ey - ex, [('sinx', 'cosx'), ('siny', 'cosy')], 'definite integral N=%d' % N)
    res.analysed.update({'cases': ncase})
    return res, ncase
