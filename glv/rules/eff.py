"""R-EFF: effect analysis (C14; also P1 for C08, K4 for C20)."""
import os

from .. import tables as T
from ..core import RuleResult
from ..build import AnalysisBroken


def scope_closure(ctx, roots):
    """classes in the quantifier + types of their members / bases / pointees."""
    prog = ctx.prog
    seen = set()
    work = list(roots)
    while work:
        q = work.pop()
        if q in seen:
            continue
        seen.add(q)
        rec = prog.record(q)
        if rec is None:
            continue
        for b in rec['bases']:
            work.append(b)
        for f in rec['fields']:
            if f.get('rec'):
                work.append(f['rec'])
            for ta in f.get('targs', []):
                work.append(ta)
    return seen


def entries(ctx, classes):
    """const / static member functions with a body whose class is in `classes`."""
    out = []
    for f in ctx.lib_fns():
        if not f.is_method or f.is_ctor or f.is_dtor:
            continue
        if f.cls not in classes:
            continue
        if f.is_const or f.is_static:
            out.append(f)
    return out


def _is5smooth(v):
    if v == 0:
        return True
    if v < 0:
        return False
    for p in (2, 3, 5):
        while v % p == 0:
            v //= p
    return v == 1


def smooth_expr(ctx, fn, nid, before, depth=0):
    """abstract evaluation in {smooth, unknown}; returns (ok, reason)."""
    fl = ctx.flow(fn)
    nid = fn.strip(nid)
    n = fn.nodes[nid]
    k = n['k']
    if depth > 12:
        return False, 'expression too deep'
    if 'cv' in n:
        v = int(n['cv'])
        return (_is5smooth(v), 'constant %d' % v)
    if k in ('ImplicitCastExpr', 'CXXFunctionalCastExpr', 'CStyleCastExpr', 'CXXStaticCastExpr', 'ParenExpr'):
        return smooth_expr(ctx, fn, n['ch'][0], before, depth + 1)
    if k == 'BinaryOperator':
        if n['op'] == '*':
            a = smooth_expr(ctx, fn, n['ch'][0], before, depth + 1)
            b = smooth_expr(ctx, fn, n['ch'][1], before, depth + 1)
            return (a[0] and b[0], '(%s)*(%s)' % (a[1], b[1]))
        if n['op'] == '<<':
            a = smooth_expr(ctx, fn, n['ch'][0], before, depth + 1)
            return (a[0], '(%s)<<e' % a[1])
    if k == 'ConditionalOperator':
        a = smooth_expr(ctx, fn, n['then'], before, depth + 1)
        b = smooth_expr(ctx, fn, n['else'], before, depth + 1)
        return (a[0] and b[0], '?(%s):(%s)' % (a[1], b[1]))
    if k == 'DeclRefExpr' and n.get('rk') in ('local', 'param'):
        # reaching definition in the same basic block, straight-line
        loc = fl.locate(before)
        if loc is None:
            return False, 'call not located in CFG'
        b, idx = loc
        els = fl._elts[b]
        for kind, e in reversed(els[:idx]):
            if kind != 'stmt':
                continue
            en = fn.nodes[e]
            if en['k'] in ('BinaryOperator', 'CompoundAssignOperator') and en['op'] == '=':
                ln = fn.nodes[fn.strip(en['ch'][0])]
                if ln['k'] == 'DeclRefExpr' and ln['d'] == n['d']:
                    return smooth_expr(ctx, fn, en['ch'][1], e, depth + 1)
            if en['k'] in ('BinaryOperator', 'CompoundAssignOperator', 'UnaryOperator') and \
                    en.get('op') in ('+=', '-=', '*=', '/=', '++', '--', '%=', '<<=', '>>=', '|=', '&='):
                ln = fn.nodes[fn.strip(en['ch'][0])]
                if ln['k'] == 'DeclRefExpr' and ln['d'] == n['d']:
                    return False, 'compound update of %s' % n['name']
            if en['k'] == 'DeclStmt':
                for d in en['decls']:
                    if d['d'] == n['d'] and d.get('init', -1) >= 0:
                        return smooth_expr(ctx, fn, d['init'], e, depth + 1)
        return False, 'no straight-line reaching definition of %s' % n['name']
    return False, 'outside the smoothness domain: %s' % k


def e1_smooth(ctx, res):
    """side obligation for kissfft::_scratchbuf; returns True if discharged.
    raises AnalysisBroken if inconclusive."""
    prog = ctx.prog
    S = ctx.summaries
    item = ('mut', 'kissfft', '_scratchbuf', 'this')
    # (1) direct writers
    writers = set()
    for fu, w in S.W.items():
        if item in w:
            for loc, why in S.sites.get((fu, item), []):
                if not why.startswith('via '):
                    writers.add(prog.fns[fu].q)
    res.analysed['scratchbuf_direct_writers'] = sorted(writers)
    if not writers:
        return True   # nobody writes it
    ok = True
    if writers != {'kissfft::kf_bfly_generic'}:
        res.fail('kissfft', '_scratchbuf', '', 'kissfft::_scratchbuf is written outside kf_bfly_generic: %s'
                 % sorted(writers))
        ok = False
    # (2) kf_bfly_generic is only called from the default arm of a radix switch with cases 2..5
    ncalls = 0
    for f in prog.fns.values():
        for i, n in f.all_nodes():
            ce = n.get('callee')
            if ce and ce.get('q') == 'kissfft::kf_bfly_generic':
                ncalls += 1
                sw = None
                under_default = False
                for a in f.ancestors(i):
                    an = f.nodes[a]
                    if an['k'] == 'DefaultStmt' and sw is None:
                        under_default = True
                    if an['k'] == 'CaseStmt' and not under_default and sw is None:
                        under_default = False
                        break
                    if an['k'] == 'SwitchStmt':
                        sw = a
                        break
                cases = set()
                if sw is not None:
                    for j in f.walk(sw):
                        jn = f.nodes[j]
                        if jn['k'] == 'CaseStmt' and jn.get('lhs', -1) >= 0:
                            cv = f.nodes[f.strip(jn['lhs'])].get('cv')
                            if cv is None:
                                cv = f.nodes[jn['lhs']].get('cv')
                            if cv is not None:
                                cases.add(int(cv))
                good = under_default and {2, 3, 4, 5} <= cases
                res.ob(good, {'site': f.loc(i), 'in': f.q, 'default_arm': under_default,
                              'cases': sorted(cases)})
                if not good:
                    res.fail(f.q, 'kf_bfly_generic', f.loc(i),
                             'kf_bfly_generic (writer of the shared mutable scratch buffer) is reachable '
                             'for radices handled elsewhere: not in the default arm of a switch with cases 2,3,4,5')
                    ok = False
    if ncalls == 0:
        raise AnalysisBroken('E1-smooth: no call site of kissfft::kf_bfly_generic found')
    # (3) every member DST is configured with a 5-smooth size
    nsites = 0
    for f in ctx.lib_fns():
        eff = S.eff[f.usr]
        # constructor initialisers of DST members
        for it in f.d.get('inits', []):
            if it.get('kind') != 'member' or it['init'] < 0:
                continue
            n = f.nodes[f.strip(it['init'])]
            ce = n.get('callee')
            if ce and ce.get('q') == 'GeographicLib::DST::DST' and n.get('args'):
                nsites += 1
                okk, why = smooth_expr(ctx, f, n['args'][0], it['init'])
                res.ob(okk, {'site': f.loc(it['init']), 'member': it['m'], 'size': why})
                if not okk:
                    raise AnalysisBroken('E1-smooth inconclusive at %s: %s' % (f.loc(it['init']), why))
        for i, n in f.all_nodes():
            ce = n.get('callee')
            if not ce or ce.get('q') != 'GeographicLib::DST::reset' or 'obj' not in n:
                continue
            p = eff.path(n['obj'])
            if p.root[0] in ('local', 'temp'):
                continue        # a private plan
            nsites += 1
            okk, why = smooth_expr(ctx, f, n['args'][0], i)
            res.ob(okk, {'site': f.loc(i), 'call': 'DST::reset', 'size': why})
            if not okk:
                raise AnalysisBroken('E1-smooth inconclusive at %s: size of a shared FFT plan: %s'
                                     % (f.loc(i), why))
    res.floor('E1-smooth member DST configuration sites', nsites, 2)
    res.assumptions.append('A-KISSFFT-FACTORS: kissfft factorises a 5-smooth size into stage radices '
                           'from {4,2,3,5} (its factor loop, not re-derived)')
    return ok


def geoid_file_assumption(ctx, res):
    """structural half of A-GEOID-FULLCACHE: _threadsafe is stored only in the constructor, after
    CacheAll() and _file.close()."""
    prog = ctx.prog
    ok = True
    stores = []
    for f in ctx.lib_fns():
        for i, n in f.all_nodes():
            if n['k'] in ('BinaryOperator', 'CompoundAssignOperator') and n.get('op') == '=':
                ln = f.nodes[f.strip(n['ch'][0])]
                if ln['k'] == 'MemberExpr' and ln.get('m') == '_threadsafe' and \
                        ln.get('cls') == 'GeographicLib::Geoid':
                    stores.append((f, i))
    res.analysed['_threadsafe_stores'] = [f.loc(i) for f, i in stores]
    if not stores:
        raise AnalysisBroken('K4: no store to Geoid::_threadsafe found')
    for f, i in stores:
        if not f.is_ctor:
            res.fail(f.q, '_threadsafe', f.loc(i), 'Geoid::_threadsafe is assigned outside the constructor')
            ok = False
            continue
        fl = ctx.flow(f)
        b, idx = fl.locate(i)
        need = {'CacheAll': False, 'close': False}
        # must-pass-through: remove the required calls and test reachability
        for want in list(need):
            def is_want(nid):
                nn = f.nodes[nid]
                ce = nn.get('callee')
                if not ce:
                    return False
                if want == 'CacheAll':
                    return ce.get('q') == 'GeographicLib::Geoid::CacheAll'
                if ce.get('name') == 'close' and 'obj' in nn:
                    on = f.nodes[f.strip(nn['obj'])]
                    return on.get('m') == '_file'
                return False
            need[want] = must_pass(fl, f, i, is_want)
        good = all(need.values())
        res.ob(good, {'store': f.loc(i), 'after_CacheAll': need['CacheAll'], 'after_file_close': need['close']})
        if not good:
            res.fail(f.q, '_threadsafe', f.loc(i),
                     'Geoid becomes thread-safe without CacheAll() and _file.close() on every path: '
                     'const height() would then use the shared stream')
            ok = False
    return ok


def must_pass(fl, fn, target, pred):
    """every CFG path from entry to node `target` evaluates some element satisfying pred."""
    tb, tidx = fl.locate(target)
    entry = fn.cfg['entry']
    seen = set()
    st = [entry]
    while st:
        b = st.pop()
        if b in seen:
            continue
        seen.add(b)
        blocked = False
        els = fl._elts[b]
        lim = tidx if b == tb else len(els)
        for kind, e in els[:lim]:
            if kind == 'stmt' and pred(e):
                blocked = True
                break
        if b == tb and not blocked:
            return False
        if blocked:
            continue
        for s in fl._succs(b):
            st.append(s)
    return True


def rule_E1(ctx, prop='C14', scope=None, floor=600, own_only=False):
    res = RuleResult('E1', 'no const/static entry point of an in-scope class can write shared state '
                           '(mutable members, pointees of members, static storage)')
    prog = ctx.prog
    S = ctx.summaries
    classes = scope_closure(ctx, scope or (T.C14_SCOPE + T.C14_HELPERS))
    classes -= set(T.C14_EXCLUDED_CLASSES)
    if own_only:
        classes = set(scope)
    ents = entries(ctx, classes)
    res.floor('entry points', len(ents), floor)
    res.analysed['classes'] = len(classes)
    res.analysed['entry_points'] = len(ents)
    res.analysed['functions_summarised'] = len(S.W)
    smooth_done = None
    file_done = None
    nitems = 0
    reported = set()
    for f in sorted(ents, key=lambda x: (x.q, x.line)):
        w = S.W.get(f.usr, {})
        shared = {it: g for it, g in w.items() if it[0] in ('mut', 'ptr', 'static')}
        if own_only:
            # only state of the listed classes themselves (objects they merely refer to are not theirs)
            shared = {it: g for it, g in shared.items() if it[0] != 'static' and it[1] in classes}
        if not shared:
            res.ob(True, {'entry': f.q, 'writes_shared': []} if res.obligations < 2 else None)
            continue
        for it, g in sorted(shared.items()):
            nitems += 1
            ok = False
            why = ''
            if it[0] == 'mut':
                key = (it[1], it[2])
                if key in T.C14_EXCLUDED_MUTABLE:
                    ok, why = True, 'excluded: ' + T.C14_EXCLUDED_MUTABLE[key]
                elif it[1] in T.C14_EXCLUDED_CLASSES:
                    ok, why = True, 'excluded: ' + T.C14_EXCLUDED_CLASSES[it[1]]
                elif it[1] == 'GeographicLib::Geoid':
                    if ('this._threadsafe', False) in g:
                        ok, why = True, 'guarded by !_threadsafe on every path'
                    elif it[2] == '_file':
                        if file_done is None:
                            file_done = geoid_file_assumption(ctx, res)
                        ok, why = file_done, 'A-GEOID-FULLCACHE (stream closed before the object becomes thread-safe)'
                    else:
                        ok = False
                elif key == ('kissfft', '_scratchbuf'):
                    if smooth_done is None:
                        smooth_done = e1_smooth(ctx, res)
                    ok, why = smooth_done, 'E1-smooth: generic butterfly unreachable for shared plan sizes'
            elif it[0] == 'static':
                if it[1] in T.C14_AUDITED_STATICS and f.q in T.C14_SQRTTABLE_WRITERS:
                    ok, why = True, 'audited: ' + T.C14_AUDITED_STATICS[it[1]]
            res.ob(ok, {'entry': f.q, 'item': list(it), 'gates': sorted(map(list, g)), 'verdict': why}
                   if (not ok or res.obligations % 40 == 0) else None)
            if not ok:
                sites = S.sites.get((f.usr, it), [])
                key = tuple(it[:3])
                # one finding per written location (the entries that reach it are listed)
                if key in reported:
                    continue
                reported.add(key)
                reach = sorted({e.q for e in ents if it in S.W.get(e.usr, {})})
                direct = [s for s in sites if not s[1].startswith('via ')]
                kind = {'mut': 'mutable member', 'ptr': 'pointee of member', 'static': 'static variable'}[it[0]]
                name = '%s::%s' % (it[1], it[2]) if it[0] != 'static' else it[1]
                res.fail(it[1] if it[0] != 'static' else it[1].rsplit('::', 1)[0], it[2] if it[0] != 'static' else it[1],
                         sites[0][0] if sites else f.loc(),
                         '%s %s may be written from %d const/static entry points (e.g. %s; %s at %s)'
                         % (kind, name, len(reach), ', '.join(reach[:3]),
                            sites[0][1] if sites else '?', sites[0][0] if sites else '?'),
                         {'entries': reach[:40], 'gates': sorted(map(list, g))})
    res.analysed['shared_write_items_examined'] = nitems
    res.assumptions += ['libstdc++ / libm functions are thread-safe for const use',
                        'A-GEOID-FULLCACHE: a thread-safe Geoid holds the whole raster in its area cache, so '
                        'const height() never reaches the (closed) file stream']
    return res


def rule_E1_decl(ctx):
    """declarative inventory: every mutable member / pointer-like member of the closure."""
    res = RuleResult('E1d', 'inventory of mutable and pointer-like members in the closure (each is '
                            'excluded by the property, guarded, or decided by E1)')
    prog = ctx.prog
    classes = scope_closure(ctx, T.C14_SCOPE + T.C14_HELPERS)
    nm = 0
    npt = 0
    muts = []
    for q in sorted(classes):
        rec = prog.record(q)
        if rec is None or not rec['file'].startswith(ctx.repo):
            continue
        for f in rec['fields']:
            if f['mutable']:
                nm += 1
                muts.append('%s::%s' % (q, f['name']))
            if f['pk'] in ('p', 'r', 'cp', 'cr') or 'shared_ptr' in f['t'] or 'unique_ptr' in f['t'] \
                    or 'iterator' in f['t']:
                npt += 1
    res.analysed['mutable_members'] = muts
    res.analysed['pointer_like_members'] = npt
    res.ob(True, {'mutable_members_in_closure': nm, 'pointer_like': npt})
    return res


def rule_E3(ctx, floor=300):
    res = RuleResult('E3', 'no cast in library code drops const')
    n = 0
    for f in ctx.lib_fns():
        for i, nd in f.all_nodes():
            if nd['k'] in ('CStyleCastExpr', 'CXXConstCastExpr', 'CXXReinterpretCastExpr',
                           'CXXStaticCastExpr', 'CXXFunctionalCastExpr') and 'dropconst' in nd:
                n += 1
                bad = nd['dropconst'] or nd['k'] == 'CXXConstCastExpr'
                if nd['k'] == 'CXXConstCastExpr':
                    # const_cast that only adds const is fine
                    bad = nd['dropconst']
                res.ob(not bad, {'cast': nd['k'], 'at': f.loc(i)} if bad or n % 200 == 1 else None)
                if bad:
                    res.fail(f.q, 'cast@%s' % nd['k'], f.loc(i),
                             'cast drops const (%s): writes through it escape the const-correctness '
                             'argument of E1' % nd['k'])
    res.analysed['explicit_casts'] = n
    res.floor('explicit casts examined', n, floor)
    return res


def _tainted_locals(fn):
    """locals whose value may depend on a parameter or on this (flow-insensitive)."""
    if fn is None:
        return set()
    tainted = set()

    def dirty(nid):
        for j in fn.walk(nid):
            n = fn.nodes[j]
            if n['k'] == 'CXXThisExpr':
                return True
            if n['k'] == 'DeclRefExpr' and (n.get('rk') == 'param' or n.get('d') in tainted):
                return True
        return False
    changed = True
    while changed:
        changed = False
        for i, n in fn.all_nodes():
            tgt = []
            src = None
            if n['k'] == 'DeclStmt':
                for d in n['decls']:
                    if d.get('init', -1) >= 0 and not d.get('static_local') and dirty(d['init']):
                        tgt.append(d['d'])
            elif n['k'] in ('BinaryOperator', 'CompoundAssignOperator') and n.get('op', '').endswith('=') \
                    and n['op'] not in ('==', '!=', '<=', '>='):
                ln = fn.nodes[fn.strip(n['ch'][0])]
                if ln['k'] == 'DeclRefExpr' and ln.get('rk') == 'local' and dirty(n['ch'][1]):
                    tgt.append(ln['d'])
            elif n.get('callee') and n.get('args'):
                if any(dirty(a) for a in n['args']) or (n.get('obj', -1) >= 0 and dirty(n['obj'])):
                    pk = n['callee'].get('pk', [])
                    for ai, a in enumerate(n['args']):
                        an = fn.nodes[fn.strip(a)]
                        if an['k'] == 'DeclRefExpr' and an.get('rk') == 'local' and ai < len(pk) and pk[ai] in ('r', 'p'):
                            tgt.append(an['d'])
            for d in tgt:
                if d not in tainted:
                    tainted.add(d)
                    changed = True
    return tainted


def rule_E4(ctx, floor=150, prefix=None):
    res = RuleResult('E4', 'every variable with static storage is const (audited exceptions), and no '
                           'function-local static is initialised from a parameter or this')
    prog = ctx.prog
    n = 0
    nlocal = 0
    for v in prog.vars.values():
        if not v['file'].startswith((prefix,) if prefix else (os.path.join(ctx.repo, 'src'), os.path.join(ctx.repo, 'include'))):
            continue
        n += 1
        name = v['q'] if v['kind'] != 'static_local' else '%s::%s' % (v.get('fnq', '?'), v['name'])
        if not v['const']:
            ok = name in T.C14_AUDITED_STATICS
            res.ob(ok, {'var': name, 'const': False, 'audited': ok})
            if not ok:
                res.fail(v.get('fnq', v.get('cls', '')), v['name'], '%s:%d' % (v['file'], v['line']),
                         'non-const variable with static storage: %s (%s) is shared by all threads' %
                         (name, v['t']))
        else:
            res.ob(True, None)
        if v['kind'] == 'static_local':
            nlocal += 1
            bad = None
            tainted = _tainted_locals(prog.fns.get(v.get('fn')))
            for nd in v.get('nodes', []):
                if nd is None:
                    continue
                if nd['k'] == 'DeclRefExpr' and nd.get('rk') == 'param':
                    bad = 'parameter ' + nd['name']
                elif nd['k'] == 'CXXThisExpr':
                    bad = 'this'
                elif nd['k'] == 'DeclRefExpr' and nd.get('rk') == 'local' and nd['d'] in tainted:
                    bad = 'local %s (computed from a parameter or this)' % nd['name']
            res.ob(bad is None, {'static_local': name, 'init_mentions': bad} if bad or nlocal < 3 else None)
            if bad:
                res.fail(v.get('fnq', ''), v['name'], '%s:%d' % (v['file'], v['line']),
                         'function-local static %s is initialised from %s: the first caller\'s value is '
                         'frozen for every later call' % (name, bad))
    res.analysed['static_storage_variables'] = n
    res.analysed['function_local_statics'] = nlocal
    res.floor('static-storage variables', n, floor)
    res.floor('function-local statics', nlocal, 40 if floor else 0)
    return res


def rule_E5(ctx, scope=None):
    res = RuleResult('E5', 'no non-reentrant C library call is reachable from an in-scope entry point')
    prog = ctx.prog
    S = ctx.summaries
    classes = scope_closure(ctx, scope or T.C14_SCOPE) - set(T.C14_EXCLUDED_CLASSES) - set(T.C14_HELPERS)
    ents = entries(ctx, classes)
    # call graph reachability
    graph = {}
    for fu, cs in S.calls.items():
        graph[fu] = {c[3] for c in cs}
    reach = set()
    st = [f.usr for f in ents]
    while st:
        u = st.pop()
        if u in reach:
            continue
        reach.add(u)
        st.extend(graph.get(u, ()))
    ncalls = 0
    for f in ctx.lib_fns():
        for i, n in f.all_nodes():
            ce = n.get('callee')
            if ce and not ce.get('inrepo') and ce.get('name') in T.NONREENTRANT:
                ncalls += 1
                hit = f.usr in reach
                res.ob(not hit, {'call': ce['name'], 'in': f.q, 'at': f.loc(i), 'reachable': hit})
                if hit:
                    res.fail(f.q, ce['name'], f.loc(i),
                             'non-reentrant %s() is reachable from an in-scope const/static entry point' % ce['name'])
                else:
                    res.note('%s() in %s is not reachable from any in-scope entry (%s)' % (ce['name'], f.q, f.loc(i)))
    res.analysed['nonreentrant_calls_in_library'] = ncalls
    res.analysed['functions_reachable_from_entries'] = len(reach)
    res.ob(True, {'reachable_functions': len(reach), 'nonreentrant_calls': ncalls})
    return res


def rule_flags(ctx, rule='E6', flags=None):
    res = RuleResult(rule, 'the compile database contains none of the flags that remove a mechanism the '
                           'property relies on')
    bad = flags or T.E6_FLAGS
    n = 0
    for src, fl in ctx.prog.flags.items():
        n += 1
        hit = [x for x in fl if x in bad]
        res.ob(not hit, {'unit': ctx.rel(src), 'flags': [x for x in fl if x.startswith(('-f', '-O', '-std'))]}
               if hit or n <= 2 else None)
        if hit:
            res.fail(ctx.rel(src), hit[0], ctx.rel(src), 'unit is compiled with %s' % ' '.join(hit))
    res.floor('units in compile database', n, 50)
    return res


def run_C14(ctx):
    return [rule_E1(ctx), rule_E1_decl(ctx), rule_E3(ctx), rule_E4(ctx), rule_E5(ctx),
            rule_flags(ctx, 'E6', T.E6_FLAGS)]
