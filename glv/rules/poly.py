"""R-POLY: polygon bookkeeping (C08)."""
from ..build import AnalysisBroken
from ..core import RuleResult
from ..flow import Flow, TRUE, FALSE
from ..lic import Lic, DECL
from . import mask as M
from . import licrules as L

NS = 'GeographicLib::'
POLY = NS + 'PolygonAreaT'


def poly_fns(ctx, name=None):
    out = [f for f in ctx.lib_fns() if f.cls == POLY and f.cfg and (name is None or f.name == name)]
    return sorted(out, key=lambda f: (f.d.get('qfull', f.q), f.line))


def inst_of(f):
    """template argument of the instantiation, from the USR (default arguments are not printed in names)."""
    import re
    m = re.search(r'@S@PolygonAreaT>#\$@N@GeographicLib@S@(\w+?)@F', f.usr)
    return m.group(1) if m else '?'


def rule_P2(ctx):
    res = RuleResult('P2', 'polylines never write the area: every store to the area output is on paths with !_polyline')
    n = 0
    for f in poly_fns(ctx):
        pi = [i for i, p in enumerate(f.params) if p['name'] == 'area' and p['pk'] == 'r']
        if not pi or f.access != 'public':
            continue
        fl = ctx.flow(f)
        for kind, nid, path, extra in ctx.summaries.events[f.usr]:
            if kind in ('store', 'mcall', 'argout') and path is not None and path.root == ('param', pi[0]):
                if kind == 'argout':
                    ce, j = extra
                    if ce.get('usr') in ctx.prog.fns and not ctx.summaries.writes_param(ce['usr'], j):
                        continue
                n += 1
                mf = fl.must_facts(nid)
                if mf is None:
                    continue
                ok = ('this._polyline', False) in mf
                res.ob(ok, {'fn': '%s<%s>' % (f.name, inst_of(f)), 'at': f.loc(nid), 'not_polyline_established': ok})
                if not ok:
                    res.fail(f.q, 'area', f.loc(nid), '%s writes the area output on a path where the object may be a '
                             'polyline (polylines report only the perimeter)' % f.name)
    res.floor('area stores', n, 9)
    return res


def rule_P3(ctx):
    res = RuleResult('P3', 'Clear() restores the empty state: every member that AddPoint/AddEdge modify is reset by Clear()')
    lc = L.get_licctx(ctx)
    n = 0
    for inst in sorted({inst_of(f) for f in poly_fns(ctx)}):
        fs = {f.name: f for f in poly_fns(ctx) if inst_of(f) == inst}
        if 'Clear' not in fs or 'AddPoint' not in fs or 'AddEdge' not in fs:
            raise AnalysisBroken('P3: Clear/AddPoint/AddEdge bodies missing for PolygonAreaT<%s>' % inst)
        cleared = lc.member_writes.get(fs['Clear'].usr, set())
        mutated = lc.member_writes.get(fs['AddPoint'].usr, set()) | lc.member_writes.get(fs['AddEdge'].usr, set())
        for m in sorted(mutated):
            n += 1
            ok = m in cleared
            res.ob(ok, {'instantiation': inst, 'member': m, 'reset_by_Clear': ok})
            if not ok:
                res.fail(POLY + '::Clear', m, fs['Clear'].loc(), 'AddPoint/AddEdge modify %s but Clear() does not reset it: '
                         'a polygon built after Clear() inherits state from the previous one' % m)
    res.floor('mutated members checked', n, 12)
    return res


def _canon_arg(fl, nid):
    c = fl.canon.of(nid)
    return c[0] if c else None


def rule_P4(ctx):
    res = RuleResult('P4', 'crossing bookkeeping is paired with the solver that produced the longitude: every inverse edge '
                           'is counted with transit(lon1, lon2) of the same arguments, every direct edge with '
                           'transitdirect(lon1, lon2-unrolled) and LONG_UNROLL requested; never the other way round')
    mc = M.get_maskctx(ctx)
    n = 0
    menv = poly_member_env(ctx)
    for f in poly_fns(ctx):
        if f.name not in ('AddPoint', 'AddEdge', 'Compute', 'TestPoint', 'TestEdge'):
            continue
        fl = Flow(f, member_env=menv.get(inst_of(f), {}))
        solver = []
        trans = []
        for i, nd in f.all_nodes():
            ce = nd.get('callee')
            if not ce:
                continue
            if ce.get('name') in ('GenInverse', 'GenDirect') and ce.get('usr') in mc.by_usr:
                solver.append((i, nd, ce))
            elif ce.get('name') in ('transit', 'transitdirect') and ce.get('cls') == POLY:
                trans.append((i, nd, ce))
        used = set()
        for i, nd, ce in solver:
            mf = fl.must_facts(i)
            if mf is None:
                continue
            cf, ccls, cmp_, couts = mc.by_usr[ce['usr']]
            names = [p['name'] for p in cf.params]
            args = nd['args']
            if ('this._polyline', True) in mf:
                continue          # polyline-only path: no crossings needed
            if ce['name'] == 'GenInverse':
                a1 = _canon_arg(fl, args[names.index('lon1')])
                a2 = _canon_arg(fl, args[names.index('lon2')])
                want = 'transit'
            else:
                a1 = _canon_arg(fl, args[names.index('lon1')])
                a2 = _canon_arg(fl, args[names.index('lon2')])
                want = 'transitdirect'
                bv = fl.eval_bv(args[cmp_], fl.env_at(i))
                ub = M.out_bit(ctx, ccls, 'LONG_UNROLL')
                cond = bv.bits[ub]
                alts = fl.facts_at(i)
                polyline_free = [a for a in alts if ('this._polyline', True) not in a]
                okm = cond == TRUE or all(any(c <= (a | {('this._polyline', False)}) for c in cond) for a in polyline_free)
                n += 1
                res.ob(okm, {'fn': '%s<%s>' % (f.name, inst_of(f)), 'call': f.loc(i), 'LONG_UNROLL_requested': okm})
                if not okm:
                    res.fail(f.q, 'GenDirect/LONG_UNROLL', f.loc(i), 'the direct edge is solved without LONG_UNROLL, so '
                             'transitdirect cannot count how many times it wraps')
            match = None
            wrong = None
            for j, tn, tce in trans:
                t1 = _canon_arg(fl, tn['args'][0])
                t2 = _canon_arg(fl, tn['args'][1])
                if t1 == a1 and t2 == a2 and a1 is not None:
                    if tce['name'] == want:
                        match = j
                        used.add(j)
                    else:
                        wrong = j
                        used.add(j)
            n += 1
            ok = match is not None and wrong is None
            res.ob(ok, {'fn': '%s<%s>' % (f.name, inst_of(f)), 'edge': '%s at %s' % (ce['name'], f.loc(i)),
                        'counted_by': want if match is not None else None})
            if wrong is not None:
                res.fail(f.q, ce['name'] + '/' + ('transit' if want == 'transitdirect' else 'transitdirect'), f.loc(wrong),
                         'the %s edge is counted with the crossing function of the other solver (%s expected): wrong '
                         'parity for edges that wrap' % (ce['name'], want))
            elif match is None:
                res.fail(f.q, ce['name'] + '/uncounted', f.loc(i), 'the edge solved by %s at %s is not counted with %s(%s, %s) '
                         'on the polygon path' % (ce['name'], f.loc(i), want, a1, a2))
        for j, tn, tce in trans:
            n += 1
            ok = j in used
            res.ob(ok, None)
            if not ok:
                res.fail(f.q, tce['name'] + '/unpaired', f.loc(j), '%s is applied to a pair of longitudes that no solver call '
                         'in %s produced' % (tce['name'], f.name))
    res.floor('edges and crossing calls', n, 25)
    return res


def poly_member_env(ctx):
    """instantiation -> {'this._mask': BV} from the constructor."""
    L.get_licctx(ctx)      # installs the member-write sets used when a constructor calls Clear()
    out = {}
    for f in ctx.lib_fns():
        if f.cls == POLY and f.is_ctor and not f.d.get('implicit') and f.cfg:
            fl = Flow(f)
            env = fl.env_in.get(f.cfg['exit'], {})
            if 'this._mask' not in env:
                raise AnalysisBroken('P5: PolygonAreaT constructor does not set _mask')
            out[inst_of(f)] = {'this._mask': env['this._mask']}
    if not out:
        raise AnalysisBroken('P5: PolygonAreaT constructor not found')
    return out


def rule_P5(ctx):
    res = RuleResult('P5', 'requested >= consumed at the solver calls of PolygonAreaT: with _mask as the constructor builds '
                           'it (DISTANCE always; AREA and LONG_UNROLL iff polygon) every consumed output was requested')
    lc = L.get_licctx(ctx)
    menv = poly_member_env(ctx)
    nf = 0
    for f in poly_fns(ctx):
        if f.name not in ('AddPoint', 'AddEdge', 'Compute', 'TestPoint', 'TestEdge'):
            continue
        nf += 1
        inst = inst_of(f)
        fl = Flow(f, member_env=menv.get(inst, {}))
        lic = Lic(ctx, f, fl, gated=lc.gated, ax=lc.axioms(NS + inst))
        res.obligations += lic.nsinks
        res.discharged += lic.nsinks - len({e for e, w, _, _ in lic.reports})
        seen = set()
        for e, what, vu, wit in lic.reports:
            who = L._culprits(f, lic, e, vu, {})
            if who in seen:
                continue
            seen.add(who)
            res.fail(f.q, who, f.loc(e), 'PolygonAreaT<%s>::%s consumes %s (%s) although the mask passed to the solver does '
                     'not request it on that path (unrequested when %s)' % (inst, f.name, who, what, L._show(frozenset(c - {DECL} for c in vu))))
        if len(res.samples) < 5:
            res.samples.append({'fn': '%s<%s>' % (f.name, inst), 'sinks': lic.nsinks, 'mask': menv[inst]['this._mask'].show()})
    res.floor('functions', nf, 9)
    return res
