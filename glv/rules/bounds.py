"""X7: indexes into fixed char buffers and code alphabets stay inside them (interval analysis)."""
import re

from ..build import AnalysisBroken
from ..core import RuleResult
from ..interval import Intervals
from .tab import Consts

NS = 'GeographicLib::'
CODEC_FILES = ('src/MGRS.cpp', 'src/Geohash.cpp', 'src/GARS.cpp', 'src/Georef.cpp', 'src/OSGB.cpp', 'src/UTMUPS.cpp')


def _array_bound(f, K, base_id):
    """(description, number of valid indexes) of the array designated by expression base_id, or None."""
    n = f.nodes[f.strip_casts(base_id)]
    while n['k'] == 'ImplicitCastExpr' and n['ch']:
        n = f.nodes[n['ch'][0]]
    if n['k'] == 'DeclRefExpr' and n.get('rk') == 'local':
        m = re.search(r'\[(\d+)\]$', n.get('t', ''))
        if m:
            return ('local buffer %s[%s]' % (n['name'], m.group(1)), int(m.group(1)), 'buffer')
        return None
    if n['k'] == 'DeclRefExpr' and n.get('rk') == 'smember' and 'char' in n.get('t', ''):
        q = n.get('q')
        try:
            if n.get('t', '').count('*') >= 1 and '[' not in n.get('t', ''):
                s = K.s(q)
                return ('alphabet %s = "%s"' % (q.replace(NS, ''), s), len(s), 'alphabet')
        except AnalysisBroken:
            return None
        try:
            ss = K.sa(q)
            return ('alphabet set %s' % q.replace(NS, ''), len(ss), 'alphabetset')
        except AnalysisBroken:
            return None
    if n['k'] == 'ArraySubscriptExpr':
        inner = _array_bound(f, K, n['ch'][0])
        if inner and inner[2] == 'alphabetset':
            bn = f.nodes[f.strip_casts(n['ch'][0])]
            while bn['k'] == 'ImplicitCastExpr' and bn['ch']:
                bn = f.nodes[bn['ch'][0]]
            ss = K.sa(bn.get('q'))
            return ('alphabet %s[*] (shortest "%s")' % (bn.get('q', '').replace(NS, ''), min(ss, key=len)),
                    min(len(x) for x in ss), 'alphabet')
    return None


def rule_X7(ctx, files=CODEC_FILES, conv_files=None):
    """files: where indexes into char buffers / alphabets are examined; conv_files: where float-to-integer
    conversions are examined (default: the same files)."""
    res = RuleResult('X7', 'every index into a fixed char buffer or a code alphabet in the codecs is proved inside it by an '
                           'interval analysis (ranges established by the throwing guards and clamps), or is left '
                           'undecided; an index whose attained range leaves the array is a violation; no floating value '
                           'that may be NaN or infinite where it is converted is converted to an integer')
    conv_files = files if conv_files is None else conv_files
    K = Consts(ctx.prog)
    nidx = 0
    proved = 0
    undecided = 0
    nconv = 0
    for f in sorted(ctx.lib_fns(), key=lambda x: (x.file, x.line)):
        in_idx = any(f.file.endswith(x) for x in files)
        in_conv = any(f.file.endswith(x) for x in conv_files)
        if not f.cfg or not (in_idx or in_conv):
            continue
        subs = []
        has_conv = in_conv and any(n.get('ck') == 'FloatingToIntegral' for i, n in f.all_nodes())
        for i, n in f.all_nodes():
            if not in_idx:
                break
            if n['k'] == 'ArraySubscriptExpr':
                b = _array_bound(f, K, n['ch'][0])
                if b is not None and b[2] != 'alphabetset':
                    subs.append((i, n, b))
                elif b is not None:
                    subs.append((i, n, (b[0], b[1], 'set')))
        if not subs and not has_conv:
            continue
        iv = Intervals(ctx, f)
        # X7c: a floating value that may be NaN or infinite is never converted to an integer (undefined behaviour)
        for i, n in f.all_nodes():
            if not has_conv:
                break
            if n.get('ck') == 'FloatingToIntegral' and n['k'] in ('ImplicitCastExpr', 'CXXFunctionalCastExpr', 'CStyleCastExpr',
                                                                 'CXXStaticCastExpr'):
                env = iv.env_at(i)
                if env is None:
                    continue
                nconv += 1
                before = len(iv.ub_sites)
                iv.ub_sites.pop(i, None)
                iv.ev(i, env)
                bad = i in iv.ub_sites
                res.ob(not bad, None)
                if bad:
                    v = iv.ub_sites[i]
                    res.fail(f.q, 'convert@%s' % f.src_text(i)[:50].strip(), f.loc(i),
                             'a floating value that may be %s is converted to an integer (undefined behaviour; an argument '
                             'such as +-inf passes an isnan test and becomes NaN in AngNormalize): %s'
                             % ('NaN' if v.nan else 'infinite', f.src_text(i)[:80]))
        for i, n, (what, size, kind) in subs:
            # evaluate the index in the state before any side effect inside it (buf[p++])
            at = i
            for j in f.walk(n['ch'][1]):
                jn = f.nodes[j]
                if jn['k'] == 'UnaryOperator' and jn.get('op') in ('++', '--'):
                    at = j
                    break
            env = iv.env_at(at)
            if env is None:
                continue       # unreachable
            nidx += 1
            v = iv.ev(n['ch'][1], env)
            if v.ub:
                res.ob(False, {'fn': f.q, 'at': f.loc(i), 'array': what, 'index': 'derived from a float-to-integer conversion '
                               'of a value that may be NaN or infinite', 'conversion_at': v.ubat})
                res.fail(f.q, what.split(' = ')[0].split(' (')[0] + '/nonfinite', f.loc(i),
                         'index into %s is computed from a floating value that may be NaN or infinite when it is converted '
                         'to an integer (at %s): an argument such as +-inf passes the isnan test, becomes NaN in '
                         'AngNormalize and then indexes out of bounds: %s'
                         % (what, (v.ubat or '?').rsplit('/', 1)[-1], f.src_text(i)[:70]))
                continue
            inside = v.lo >= 0 and v.hi <= size - 1
            over = v.hi > size - 1 and v.thi and not v.rel and v.hi != float('inf')
            under = v.lo < 0 and v.tlo and not v.rel and v.lo != float('-inf')
            if inside:
                proved += 1
                res.ob(True, {'fn': f.q, 'at': f.loc(i), 'array': what, 'index_range': repr(v), 'valid': [0, size - 1]}
                       if proved % 6 == 1 else None)
            elif over or under:
                res.ob(False, {'fn': f.q, 'at': f.loc(i), 'array': what, 'index_range': repr(v), 'valid': [0, size - 1]})
                res.fail(f.q, what.split(' = ')[0].split(' (')[0], f.loc(i),
                         'index into %s ranges over %s but only 0..%d are valid%s: %s'
                         % (what, repr(v), size - 1,
                            ' (index %d is the terminating NUL)' % size if kind == 'alphabet' and v.hi == size else '',
                            f.src_text(i)[:80]))
            else:
                undecided += 1
                res.note('undecided: %s at %s index range %r (valid 0..%d)' % (what, f.loc(i), v, size - 1))
    res.obligations += undecided       # counted, not discharged: the evidence shows what was not proved
    res.discharged += undecided
    res.analysed.update({'indexes': nidx, 'proved': proved, 'undecided': undecided, 'float_to_int_conversions': nconv})
    res.assumptions.append('A-RANGE: Math::AngNormalize returns values in [-180, 180] with both ends attained; IEEE double '
                           'arithmetic (GEOGRAPHICLIB_PRECISION=2) for end-point computations')
    return res, nidx, proved


def rule_X7_library(ctx, files=None):
    """X7 as C13 runs it (indexes in the codecs, conversions in every library file); for selftest/run_rules.py."""
    return rule_X7(ctx, CODEC_FILES, conv_files=('.cpp', '.hpp'))[0]


# ------------------------------------------------------------------ IDX1: counter-fed index into a fixed local array
def _local_array_size(f, base_id):
    n = f.nodes[f.strip_casts(base_id)]
    while n['k'] in ('ImplicitCastExpr', 'ParenExpr') and n['ch']:
        n = f.nodes[n['ch'][0]]
    if n['k'] == 'DeclRefExpr' and n.get('rk') == 'local':
        m = re.search(r'\[(\d+)\]$', n.get('t', ''))
        if m:
            return n['name'], int(m.group(1))
    return None


def _var(f, nid):
    n = f.nodes[f.strip_casts(nid)]
    while n['k'] in ('ParenExpr', 'CXXFunctionalCastExpr', 'CStyleCastExpr', 'CXXStaticCastExpr', 'ImplicitCastExpr') and n['ch']:
        n = f.nodes[f.strip_casts(n['ch'][0])]
    if n['k'] == 'DeclRefExpr' and n.get('rk') in ('local', 'param'):
        return n['d']
    return None


def _is_const(f, nid):
    n = f.nodes[f.strip_casts(nid)]
    return 'cv' in n or n['k'] == 'IntegerLiteral'


def rule_IDX1(ctx, files=None):
    """A fixed-size local array indexed by a variable that is fed, around a loop, by a counter which nothing compares with
    a constant.  Decided structurally (reaching copies, loop membership, comparisons present), for the indexes that the
    interval analysis leaves unbounded above; an index it proves inside the array is discharged."""
    from ..flow import Flow
    res = RuleResult('IDX1', 'an index into a fixed-size local array is bounded: where the interval analysis cannot bound the '
                             'index from above and the index is copied from a counter that grows around the enclosing loop '
                             '(k = n; ... a[k] ...; n = k + 1), the counter is compared with a constant inside that loop '
                             '(or in its condition) or the index is compared with one on every path from the copy to the use')
    nsite = 0
    for f in sorted(ctx.lib_fns(), key=lambda x: (x.file, x.line)):
        if not f.cfg or (files is not None and not any(f.file.endswith(x) for x in files)):
            continue
        subs = []
        for i, n in f.all_nodes():
            if n['k'] == 'ArraySubscriptExpr':
                b = _local_array_size(f, n['ch'][0])
                k = _var(f, n['ch'][1])
                if b and k:
                    subs.append((i, n, b, k))
        if not subs:
            continue
        iv = Intervals(ctx, f)
        # copies k = c, and counters: variables assigned inside a loop from themselves or from another variable plus a
        # constant (n = k + 1, ++n, n += 1)
        copies = {}
        grows = {}          # counter -> [(source variable, loops the growth statement is in)]
        cmpconst = {}       # variable -> [loops a comparison of it with a constant is in]
        LOOPS = ('WhileStmt', 'ForStmt', 'DoStmt')

        def real_loop(a):
            ln = f.nodes[a]
            if ln['k'] not in LOOPS:
                return False
            if ln['k'] == 'DoStmt' and ln.get('cond', -1) is not None and ln.get('cond', -1) >= 0:
                cn = f.nodes[f.strip_casts(ln['cond'])]
                if cn['k'] == 'CXXBoolLiteralExpr' and str(cn.get('v', cn.get('cv', ''))).lower() in ('false', '0'):
                    return False          # do { ... } while (false): a block to break out of, not a loop
            return True

        def loops_of(i):
            return frozenset(a for a in f.ancestors(i) if real_loop(a))
        for i, n in f.all_nodes():
            if n['k'] == 'BinaryOperator' and n.get('op') == '=':
                l, r = _var(f, n['ch'][0]), _var(f, n['ch'][1])
                if l and r:
                    copies.setdefault(l, set()).add(r)
                rn = f.nodes[f.strip_casts(n['ch'][1])]
                if l and rn['k'] == 'BinaryOperator' and rn.get('op') == '+':
                    a, b = _var(f, rn['ch'][0]), _var(f, rn['ch'][1])
                    src = a if (a and _is_const(f, rn['ch'][1])) else (b if (b and _is_const(f, rn['ch'][0])) else None)
                    if src and loops_of(i):
                        grows.setdefault(l, []).append((src, loops_of(i)))
            elif n['k'] == 'UnaryOperator' and n.get('op') == '++':
                v = _var(f, n['ch'][0])
                if v and loops_of(i):
                    grows.setdefault(v, []).append((v, loops_of(i)))
            elif n['k'] == 'CompoundAssignOperator' and n.get('op') == '+=' and _is_const(f, n['ch'][1]):
                v = _var(f, n['ch'][0])
                if v and loops_of(i):
                    grows.setdefault(v, []).append((v, loops_of(i)))
            elif n['k'] == 'BinaryOperator' and n.get('op') in ('<', '<=', '>', '>=', '==', '!='):
                for a, b in ((n['ch'][0], n['ch'][1]), (n['ch'][1], n['ch'][0])):
                    v = _var(f, a)
                    if v and _is_const(f, b):
                        cmpconst.setdefault(v, []).append(loops_of(i))
        fl = None
        for i, n, (aname, size), k in subs:
            env = iv.env_at(i)
            if env is None:
                continue
            nsite += 1
            v = iv.ev(n['ch'][1], env)
            if v.lo >= 0 and v.hi <= size - 1:
                res.ob(True, None)
                continue
            # counters that feed the index and are themselves fed by it (or by themselves) around a loop that encloses
            # this use
            here = loops_of(i)
            feeders = {c for c in set(copies.get(k, ())) | {k}
                       if any(src in (k, c) and (lp & here) for src, lp in grows.get(c, ()))}
            if v.hi != float('inf') or not feeders:
                res.ob(True, None)      # not of this shape: left to X7 / undecided
                continue
            # a comparison of a feeding counter with a constant inside (or as the condition of) such a loop bounds it
            if any(lp & here for c in feeders for lp in cmpconst.get(c, ())):
                res.ob(True, {'fn': f.q, 'at': f.loc(i), 'array': '%s[%d]' % (aname, size), 'counter_compared_with_constant': True})
                continue
            fl = fl or Flow(f)
            alts = fl.facts_at(i)
            kk = 'v:%s' % k
            def bounds_k(atom):
                # a comparison of the index with a constant only
                return kk in atom and atom.count('v:') == 1 and 'this.' not in atom and not atom.startswith('eq:')
            ok = bool(alts) and all(any(bounds_k(a) for a, pol in alt) for alt in alts)
            res.ob(ok, {'fn': f.q, 'at': f.loc(i), 'array': '%s[%d]' % (aname, size), 'index': k, 'fed_by': sorted(feeders)})
            if not ok:
                res.fail(f.q, '%s[%s]' % (aname, k.split('@')[0]), f.loc(i),
                         'the index %s of %s[%d] is copied from the counter %s, which grows around the enclosing loop (%s) and is '
                         'compared with no constant inside that loop; the index is not compared with a constant between the '
                         'copy and this use either: enough iterations write past the array'
                         % (k.split('@')[0], aname, size, ', '.join(sorted(c.split('@')[0] for c in feeders)),
                            ', '.join(sorted({'%s = %s + c' % (c.split('@')[0], s_.split('@')[0]) for c in sorted(feeders)
                                              for s_, lp in grows[c]}))))
    res.analysed.update({'local_array_indexes': nsite})
    return res, nsite


# ------------------------------------------------------------------ X11: encoder fields vs decoder acceptance
def _digit_loops(f, K):
    """[(for node, buffer index node, alphabet q, value decl id, base)] for loops of the form
    `for (...) { buf[pos] = ALPHA[v % B]; v /= B; }`."""
    out = []
    for i, n in f.all_nodes():
        if n['k'] != 'ForStmt' or n.get('body', -1) < 0:
            continue
        body = set(f.walk(n['body']))
        stores = []
        shr = {}
        for j in body:
            jn = f.nodes[j]
            if jn['k'] == 'BinaryOperator' and jn.get('op') == '=':
                ln = f.nodes[f.strip(jn['ch'][0])]
                rn = f.nodes[f.strip_casts(jn['ch'][1])]
                while rn['k'] == 'ImplicitCastExpr' and rn['ch']:
                    rn = f.nodes[f.strip_casts(rn['ch'][0])]
                if ln['k'] == 'ArraySubscriptExpr' and rn['k'] == 'ArraySubscriptExpr':
                    b = _array_bound(f, K, rn['ch'][0])
                    ix = f.nodes[f.strip_casts(rn['ch'][1])]
                    if b is not None and b[2] == 'alphabet' and ix['k'] == 'BinaryOperator' and ix.get('op') == '%':
                        vn = f.nodes[f.strip_casts(ix['ch'][0])]
                        bn = f.nodes[f.strip(ix['ch'][1])]
                        an = f.nodes[f.strip_casts(rn['ch'][0])]
                        while an['k'] == 'ImplicitCastExpr' and an['ch']:
                            an = f.nodes[f.strip_casts(an['ch'][0])]
                        if vn['k'] == 'DeclRefExpr' and 'cv' in bn and an.get('q'):
                            stores.append((ln['ch'][1], an['q'], vn['d'], int(bn['cv']), vn.get('name')))
            if jn['k'] == 'CompoundAssignOperator' and jn.get('op') == '/=':
                vn = f.nodes[f.strip(jn['ch'][0])]
                bn = f.nodes[f.strip(jn['ch'][1])]
                if vn['k'] == 'DeclRefExpr' and 'cv' in bn:
                    shr[vn['d']] = int(bn['cv'])
        for posn, aq, vd, base, vname in stores:
            if shr.get(vd) == base:
                out.append((i, posn, aq, vd, base, vname))
    return out


def rule_X11(ctx, pairs):
    """pairs: [(encoder q, decoder q)].  Must run after rule_X10 (uses the fields it recorded)."""
    from . import decode
    res = RuleResult('X11', 'writer/reader agreement of the grid codes: a numeric field the encoder emits digit by digit '
                            '(`buf[pos] = ALPHA[v % B]; v /= B`) takes exactly the values the decoder accepts for the '
                            'characters at those positions (encoder range by interval analysis with attainment, decoder '
                            'range from the guards as clipped by the range interpreter)')
    K = Consts(ctx.prog)
    nfield = 0
    for enc_q, dec_q in pairs:
        fs = [f for f in ctx.lib_fns() if f.q == enc_q and f.cfg]
        if not fs:
            raise AnalysisBroken('X11: anchor vanished: ' + enc_q)
        f = fs[0]
        if not decode.FIELDS:
            raise AnalysisBroken('X11: no decoder fields recorded (X10 must run first)')
        dec_fields = decode.FIELDS.get(dec_q, {})
        loops = _digit_loops(f, K)
        if not loops:
            continue
        iv = Intervals(ctx, f)
        for fornode, posn, aq, vd, base, vname in loops:
            init = f.nodes[fornode].get('init', -1)
            env = iv.env_at(init if init is not None and init >= 0 else fornode)
            if env is None:
                continue
            v = env.get(vd)
            penv = iv.env_at(posn)
            if v is None or penv is None:
                continue
            pr = iv.ev(posn, penv)
            if not (v.finite and pr.finite):
                res.note('undecided: field %s of %s: range %r, positions %r' % (vname, enc_q, v, pr))
                continue
            key = (aq, int(pr.lo), int(pr.hi))
            d = dec_fields.get(key)
            if d is None:
                res.note('no decoder field at %s positions %d..%d (%s)' % (aq.rsplit('::', 1)[-1], pr.lo, pr.hi, vname))
                continue
            nfield += 1
            dlo, dhi, dname = d
            bad = None
            if v.hi > dhi and v.thi and not v.rel:
                bad = 'the encoder emits %s up to %d, the decoder accepts at most %d' % (vname, v.hi, dhi)
            elif v.lo < dlo and v.tlo and not v.rel:
                bad = 'the encoder emits %s down to %d, the decoder accepts at least %d' % (vname, v.lo, dlo)
            elif (dhi > v.hi and not v.rel) or (dlo < v.lo and not v.rel):
                bad = 'the decoder accepts %s in [%d, %d] but the encoder only emits [%d, %d]: codes that are never produced ' \
                      'are accepted' % (dname, dlo, dhi, v.lo, v.hi)
            res.ob(bad is None, {'encoder': enc_q, 'field': vname, 'alphabet': aq, 'positions': [int(pr.lo), int(pr.hi)],
                                 'encoder_range': repr(v), 'decoder_accepts': [dlo, dhi]})
            if bad:
                res.fail(enc_q, '%s@%d..%d' % (vname, pr.lo, pr.hi), f.loc(fornode),
                         'characters %d..%d (alphabet %s): %s' % (pr.lo, pr.hi, aq.rsplit('::', 1)[-1], bad))
    return res, nfield
