"""X7r: relational proof of the array indexes the interval rule X7 leaves undecided (encoders of the grid codes).

`digits_[ix % base_]` is in range only because `ix` is non-negative, and `ix = floor((x - tile*xh)/mult)` is
non-negative only because `xh = floor(x/tile)`: a relation between two variables.  The encoders are analysed
with the linear-relational path analysis of glv/linrel.py: the precision argument is enumerated, every other
argument is a free symbol, floors / truncations / integer quotients introduce symbols tied to their operands by
linear constraints, the coordinate guards (CheckCoords, throwing range tests) are inlined, digit loops
(`v /= base`) carry the invariant 0 <= v' <= v.  Obligation at every subscript of a code alphabet or of the
local character buffer: 0 <= index < size, entailed by the path constraints.  A failed proof is a violation
only when no loosely modelled quantity is involved (otherwise it stays "undecided" as in X7).
"""
import math
import re
from fractions import Fraction as F

from ..build import AnalysisBroken
from ..core import RuleResult
from ..linrel import Analyzer, Lin, State, System, UNK, TooManyPaths
from .tab import Consts

NS = 'GeographicLib::'


class IdxAnalyzer(Analyzer):
    def __init__(self, ctx):
        Analyzer.__init__(self, ctx.prog, max_states=30000)
        self.ctx = ctx
        self.K = Consts(ctx.prog)
        self.obl = {}
        self.depth = 0

    def base_state(self):
        return State(System())

    # ---------------------------------------------------------------- constants and members
    def static_value(self, f, n, st):
        q = n.get('q')
        if q:
            v = self.prog.var_by_q(q)
            if v is not None and v.get('nodes') and v.get('init', -1) >= 0:
                r = v['nodes'][v['init']]
                if 'cv' in r:
                    return Lin.const(int(r['cv']))
                if 'fv' in r:
                    try:
                        return Lin.const(F(str(float(r['fv']))))
                    except (ValueError, OverflowError):
                        pass
            if '::' in q:
                cls, name = q.rsplit('::', 1)
                ev = self.prog.enum_values(cls)
                if name in ev:
                    return Lin.const(ev[name])
        return UNK

    def trunc(self, v, st):
        """(int)x for a real x: toward zero."""
        t = self.fresh('tr', st, True, loose=False)
        if st.sys.entails_le(Lin.const(0), v):
            st.sys.add_le(t, v)
            st.sys.add_lt(v, t + Lin.const(1))
        elif st.sys.entails_le(v, Lin.const(0)):
            st.sys.add_le(v, t)
            st.sys.add_lt(t - Lin.const(1), v)
        else:
            self.loose.add(list(t.c)[0])
            st.sys.add_lt(v - Lin.const(1), t)
            st.sys.add_lt(t, v + Lin.const(1))
        return t

    def _worth_inlining(self, callee):
        """guards (a throw) or a small pure helper; large branchy functions without guards only multiply paths."""
        if any(n['k'] == 'CXXThrowExpr' for _, n in callee.all_nodes()):
            return True
        nbranch = sum(1 for _, n in callee.all_nodes() if n['k'] in ('IfStmt', 'ConditionalOperator', 'ForStmt', 'WhileStmt'))
        return nbranch <= 3

    def trunc_fork(self, v, st):
        """(int)x truncates toward zero: decide the sign by forking when the constraints do not."""
        if st.sys.entails_le(Lin.const(0), v) or st.sys.entails_le(v, Lin.const(0)):
            return [(self.trunc(v, st), st)]
        out = []
        for t, s in self.cmp_fork('>=', v, Lin.const(0), st, None):
            out.append((self.trunc(v, s), s))
        return out

    def arith(self, op, a, b, st, isint):
        if op == '%' and isinstance(a, Lin) and isinstance(b, Lin) and b.is_const and b.k > 0 and b.k.denominator == 1:
            q = self.intdiv(a, int(b.k), st)
            if isinstance(q, Lin):
                return [(a - q.scale(b.k), st)]
            return [(UNK, st)]
        if op in ('<<',) and isinstance(a, Lin) and isinstance(b, Lin) and b.is_const and 0 <= b.k < 62:
            return [(a.scale(2 ** int(b.k)), st)]
        return Analyzer.arith(self, op, a, b, st, isint)

    # ---------------------------------------------------------------- arrays
    def _array_info(self, f, base_id):
        """('alphabet'|'buffer'|'set'|'table', name, size or list) of the array expression base_id."""
        n = f.nodes[f.strip_casts(base_id)]
        while n['k'] == 'ImplicitCastExpr' and n['ch']:
            n = f.nodes[f.strip_casts(n['ch'][0])]
        if n['k'] == 'DeclRefExpr' and n.get('rk') == 'local':
            m = re.search(r'\[(\d+)\]$', n.get('t', ''))
            if m and 'char' in n.get('t', ''):
                return ('buffer', n['name'], int(m.group(1)))
            return None
        if n['k'] == 'DeclRefExpr' and n.get('rk') == 'smember':
            q = n.get('q')
            t = n.get('t', '')
            if 'char' in t:
                try:
                    if '[' not in t:
                        return ('alphabet', q.replace(NS, ''), len(self.K.s(q)))
                except AnalysisBroken:
                    pass
                try:
                    ss = self.K.sa(q)
                    return ('set', q.replace(NS, ''), ss)
                except AnalysisBroken:
                    return None
            try:
                return ('table', q.replace(NS, ''), self.K.ia(q))
            except (AnalysisBroken, KeyError, TypeError):
                return None
        if n['k'] == 'ArraySubscriptExpr':
            inner = self._array_info(f, n['ch'][0])
            if inner and inner[0] == 'set':
                return ('alphabet', inner[1] + '[*]', min(len(x) for x in inner[2]))
        return None

    def subscript(self, f, nid, n, st):
        info = self._array_info(f, n['ch'][0])
        out = []
        base_n = f.nodes[f.strip_casts(n['ch'][0])]
        nested = base_n['k'] == 'ArraySubscriptExpr'
        inner = self._array_info(f, base_n['ch'][0]) if nested else None
        # states in which the selecting index of ALPHASET[i][j] is a known constant (fork over its values)
        sel_states = []
        if nested and inner is not None and inner[0] == 'set':
            for iv_, s1 in self.ev(f, n['ch'][0], st):       # evaluates (and checks) the inner subscript
                pass
            for iv_, s1 in self.ev(f, base_n['ch'][1], st):
                if isinstance(iv_, Lin) and iv_.is_const and iv_.k.denominator == 1:
                    sel_states.append((int(iv_.k), s1))
                elif isinstance(iv_, Lin):
                    for kk in range(len(inner[2])):
                        for t, s2 in self.cmp_fork('==', iv_, Lin.const(kk), s1, None):
                            if t:
                                sel_states.append((kk, s2))
                else:
                    sel_states.append((None, s1))
        else:
            for _, s1 in (self.ev(f, n['ch'][0], st) if nested else [(UNK, st)]):
                sel_states.append((None, s1))
        for sel, s1 in sel_states:
            for idx, s2 in self.ev(f, n['ch'][1], s1):
                val = UNK
                info2 = info
                if nested and inner is not None and inner[0] == 'set':
                    if sel is not None and 0 <= sel < len(inner[2]):
                        info2 = ('alphabet', '%s[%d]' % (inner[1], sel), len(inner[2][sel]))
                    else:
                        info2 = None
                        self.check(f, nid, 'alphabet %s[?]' % inner[1], UNK, 0, s2)
                if info2 is not None:
                    kind, name, size = info2
                    if kind == 'table':
                        if isinstance(idx, Lin) and idx.is_const and idx.k.denominator == 1 and 0 <= int(idx.k) < len(size):
                            val = Lin.const(size[int(idx.k)])
                    else:
                        nvalid = len(size) if kind == 'set' else size
                        if self.depth == 0 or kind != 'buffer':
                            self.check(f, nid, '%s %s' % (kind, name), idx, nvalid, s2)
                out.append((val, s2))
        return out

    def check(self, f, nid, what, idx, size, st):
        o = self.obl.setdefault((what, f.loc(nid)), {'proved': 0, 'violated': 0, 'undecided': 0, 'fn': f.q, 'sample': None,
                                                     'size': size})
        if not isinstance(idx, Lin):
            o['undecided'] += 1
            return
        ok = st.sys.entails_le(Lin.const(0), idx) and st.sys.entails_le(idx, Lin.const(size - 1))
        if ok:
            o['proved'] += 1
            return
        syms = set(idx.c)
        grew = True
        while grew:
            grew = False
            for e, _ in st.sys.cons:
                if set(e.c) & syms and not set(e.c) <= syms:
                    syms |= set(e.c)
                    grew = True
        if syms & self.loose:
            o['undecided'] += 1
            return
        o['violated'] += 1
        o['sample'] = o['sample'] or ('index %s is not entailed to lie in [0, %d] (%d path constraints; arguments %s)'
                                      % (idx, size - 1, len(st.sys.cons), getattr(self, 'cur_args', '')))

    # ---------------------------------------------------------------- calls
    def call(self, f, nid, n, st):
        ce = n.get('callee') or {}
        nm = ce.get('name', '')
        q = ce.get('q', '')
        args = n.get('args', [])
        off = 1 if (n.get('ckind') == 'operator' and ce.get('method')) else 0
        inrepo = ce.get('inrepo')
        if q in (NS + 'Math::LatFix', NS + 'Math::AngNormalize') and len(args) == 1:
            out = []
            for _, s in self.ev(f, args[0], st):
                v = self.fresh('ang', s, False, loose=False)
                lim = 90 if q.endswith('LatFix') else 180
                s.sys.add_le(Lin.const(-lim), v)
                s.sys.add_le(v, Lin.const(lim))
                out.append((v, s))
            return out
        if nm in ('floor', 'ceil') and not inrepo and len(args) == 1:
            out = []
            for x, s in self.ev(f, args[0], st):
                if isinstance(x, Lin):
                    if self.is_int_lin(x, s):
                        out.append((x, s))
                        continue
                    fl = self.fresh('fl', s, True, loose=False)
                    if nm == 'floor':
                        s.sys.add_le(fl, x)
                        s.sys.add_lt(x, fl + Lin.const(1))
                    else:
                        s.sys.add_le(x, fl)
                        s.sys.add_lt(fl - Lin.const(1), x)
                    out.append((fl, s))
                else:
                    out.append((UNK, s))
            return out
        if nm in ('min', 'max', 'fmin', 'fmax') and not inrepo and len(args) == 2:
            out = []
            for a, s1 in self.ev(f, args[0], st):
                for b, s2 in self.ev(f, args[1], s1):
                    if isinstance(a, Lin) and isinstance(b, Lin):
                        for t, s3 in self.cmp_fork('<=', a, b, s2, None):
                            out.append(((a if t else b) if nm in ('min', 'fmin') else (b if t else a), s3))
                    else:
                        out.append((UNK, s2))
            return out
        if nm in ('fabs', 'abs') and not inrepo and len(args) == 1:
            out = []
            for a, s1 in self.ev(f, args[0], st):
                if isinstance(a, Lin):
                    for t, s2 in self.cmp_fork('>=', a, Lin.const(0), s1, None):
                        out.append((a if t else -a, s2))
                else:
                    out.append((UNK, s1))
            return out
        if nm == 'pow' and not inrepo and len(args) == 2:
            out = []
            for a, s1 in self.ev(f, args[0], st):
                for b, s2 in self.ev(f, args[1], s1):
                    if isinstance(a, Lin) and isinstance(b, Lin) and a.is_const and b.is_const and b.k.denominator == 1 \
                            and -40 <= b.k <= 40 and a.k > 0:
                        out.append((Lin.const(F(a.k) ** int(b.k)), s2))
                    else:
                        out.append((UNK, s2))
            return out
        if nm == 'ldexp' and not inrepo and len(args) == 2:
            out = []
            for a, s1 in self.ev(f, args[0], st):
                for b, s2 in self.ev(f, args[1], s1):
                    if isinstance(a, Lin) and isinstance(b, Lin) and b.is_const and b.k.denominator == 1 and abs(b.k) < 1000:
                        out.append((a.scale(F(2) ** int(b.k)), s2))
                    else:
                        out.append((UNK, s2))
            return out
        if q.endswith('numeric_limits::epsilon'):
            return [(Lin.const(F(1, 2 ** 52)), st)]
        if q.endswith('numeric_limits::digits') or q == NS + 'Math::digits':
            prec = self.ctx.prog.raw.get('precision', 2)
            return [(Lin.const({1: 24, 2: 53, 3: 64}.get(prec, 53)), st)]
        # in-repo callee with a body: inline it (guards prune, return value flows back)
        callee = self.prog.fns.get(ce.get('usr'))
        if callee is not None and inrepo and callee.d.get('body', -1) >= 0 and self.depth < 2 and \
                len(callee.nodes) < 700 and not callee.is_ctor and self._worth_inlining(callee) and \
                (ce.get('mstatic') or not ce.get('method') or n.get('objthis')) and \
                not any(k_ in ('r', 'p') for k_ in ce.get('pk', [])[:0]):
            states = [(st, [])]
            for ai, a in enumerate(args[off:]):
                nxt = []
                for s, vs in states:
                    for v, s2 in self.ev(f, a, s):
                        nxt.append((s2, vs + [v]))
                states = nxt
            out = []
            self.depth += 1
            try:
                for s, vs in states:
                    rets = self.inline_call(callee, vs, s)
                    pk = ce.get('pk', [])
                    for rv, s2 in rets:
                        # outputs by reference: the caller's variables become unknown (their new values are the callee's)
                        fin = getattr(s2, 'callee_final', {})
                        for ai, a in enumerate(args[off:]):
                            if ai < len(pk) and pk[ai] in ('r', 'p'):
                                nv = fin.get(callee.params[ai]['d'], UNK) if ai < len(callee.params) else UNK
                                self.assign(f, a, nv, s2)
                        out.append((rv, s2))
            finally:
                self.depth -= 1
            return out
        # anything else: arguments evaluated, outputs by reference unknown
        states = [st]
        for a in args:
            nxt = []
            for s in states:
                nxt += [s2 for _, s2 in self.ev(f, a, s)]
            states = nxt
        pk = ce.get('pk', [])
        for s in states:
            for ai, a in enumerate(args[off:]):
                if ai < len(pk) and pk[ai] in ('r', 'p'):
                    self.assign(f, a, UNK, s)
        return [(UNK, s) for s in states]


def rule_X7r(ctx, files, values=range(-2, 14)):
    res = RuleResult('X7r', 'relational index proof: in the encoders every subscript of a code alphabet or of the local '
                            'character buffer is entailed to be inside the array by the path constraints (linear-relational '
                            'analysis; precision enumerated, coordinates symbolic, coordinate guards inlined)')
    an = IdxAnalyzer(ctx)
    nfn = 0
    for f in sorted(ctx.lib_fns(), key=lambda x: (x.file, x.line)):
        if f.d.get('body', -1) < 0 or not any(f.file.endswith(x) for x in files):
            continue
        # encoders: a local char buffer handed over by copy()
        has_buf = any(n['k'] == 'DeclStmt' and any(re.search(r'char\s*\[\d+\]$', d['t'].replace('const ', '')) for d in n['decls'])
                      for _, n in f.all_nodes())
        if not has_buf:
            continue
        nfn += 1
        ints = [p for p in f.params if p.get('int') and p['pk'] == 'v' and p['t'].replace('const ', '') == 'int' and
                p['name'] in ('prec', 'len')]
        for pv in (list(values) if ints else [None]):
            st = an.base_state()
            for p in f.params:
                if p['pk'] not in ('v', 'cr'):
                    continue
                if ints and p['d'] == ints[0]['d']:
                    st.env[p['d']] = Lin.const(pv)
                elif p['t'].replace('const ', '') == 'bool':
                    b = an.fresh('flag_' + p['name'], st, True, loose=False)
                    st.sys.add_le(Lin.const(0), b)
                    st.sys.add_le(b, Lin.const(1))
                    st.env[p['d']] = b
                elif p.get('float') or p.get('int'):
                    st.env[p['d']] = an.fresh('arg_' + p['name'], st, bool(p.get('int')), loose=False)
            an.cur_args = '%s=%s' % (ints[0]['name'], pv) if ints else ''
            try:
                an.ex(f, f.d['body'], [st])
            except TooManyPaths:
                raise AnalysisBroken('X7r: path budget exceeded in %s (%s)' % (f.q, an.cur_args))
    nsite = 0
    nproved = 0
    nund = 0
    for (what, loc), o in sorted(an.obl.items(), key=lambda x: x[0][1]):
        nsite += 1
        if o['violated']:
            res.ob(False, {'array': what, 'at': loc, 'paths_proved': o['proved'], 'paths_violated': o['violated']})
            res.fail(o['fn'], what.split(' ', 1)[1], loc, 'subscript of %s at %s: %s' % (what, loc.rsplit('/', 1)[-1], o['sample']))
        elif o['undecided']:
            nund += 1
            res.ob(True, None)
            res.note('undecided: %s at %s (%d paths proved, %d undecided)' % (what, loc, o['proved'], o['undecided']))
        else:
            nproved += 1
            res.ob(True, {'array': what, 'at': loc, 'paths_proved': o['proved']} if nproved % 5 == 1 else None)
    res.analysed.update({'encoders': nfn, 'subscript_sites': nsite, 'proved_on_every_path': nproved, 'undecided_sites': nund,
                         'paths': an.npaths})
    return res, nsite, nproved
