"""X9: buffer fill completeness in the encoders.

The five grid-code encoders assemble their result in a fixed local char array and then hand the first L
characters to the caller (`copy(buf, buf + L, out.begin())`).  Which elements are written depends only on
integer quantities (the precision, loop counters, class constants), never on the coordinates.  The rule
partially evaluates the function for every value of the integer parameters that L depends on, keeping all
floating-point quantities unknown (conditions on them fork; every path is explored), executes the counted
loops concretely, and requires on every path that reaches the hand-over that each index in [0, L) was stored
to before.  An unwritten element is an indeterminate character in the returned code.

Verdicts per (function, parameter value, path): proved / violation (a concrete index in [0, L) that no store
on that path wrote, all stores having concrete indexes) / undecided (an unknown index or length).
"""
from ..cinterp import Interp, Frame, UNK, isunk, _num
from ..core import RuleResult
from ..build import AnalysisBroken

INT_T = ('int', 'const int', 'unsigned int', 'const unsigned int')


class FillFrame(Frame):
    def _local_array(self, nid):
        f = self.fn
        n = f.nodes[f.strip_casts(nid)]
        while n['k'] == 'ImplicitCastExpr' and n['ch']:
            n = f.nodes[f.strip_casts(n['ch'][0])]
        if n['k'] == 'DeclRefExpr' and n.get('rk') == 'local' and n.get('t', '').endswith(']') and \
                'char' in n.get('t', ''):
            return n['d'], n['name']
        return None

    def _ptr_offset(self, nid, arr):
        """value of (pointer expression nid) - (start of local array arr), or UNK."""
        f = self.fn
        if self._local_array(nid) == arr:
            return 0
        e = f.nodes[f.strip_casts(nid)]
        if e['k'] == 'BinaryOperator' and e.get('op') in ('+', '-'):
            base = self._ptr_offset(e['ch'][0], arr)
            off = self.ev(e['ch'][1])
            if isunk(base) or isunk(off) or not _num(off):
                return UNK
            return base + off if e['op'] == '+' else base - off
        return UNK

    def assign(self, nid, v):
        f = self.fn
        i = f.strip(nid)
        n = f.nodes[i]
        if n['k'] == 'ArraySubscriptExpr' and self.depth == 0:
            arr = self._local_array(n['ch'][0])
            if arr is not None:
                idx = self.ev(n['ch'][1])
                st = self.ip.fill.setdefault(arr, {'written': set(), 'unknown': 0})
                if isunk(idx) or not _num(idx):
                    st['unknown'] += 1
                else:
                    st['written'].add(int(idx))
                return
        Frame.assign(self, nid, v)

    def callexpr(self, n):
        ce = n.get('callee') or {}
        if ce.get('name') == 'copy' and not ce.get('inrepo') and len(n.get('args', [])) == 3 and self.depth == 0:
            a0, a1 = n['args'][0], n['args'][1]
            arr = self._local_array(a0)
            if arr is not None:
                f = self.fn
                ln = self._ptr_offset(a1, arr)
                self.ip.handover.append((arr, ln, f.loc(f.strip_casts(a1)),
                                         dict(self.ip.fill.get(arr, {'written': set(), 'unknown': 0}))))
                return UNK
        return Frame.callexpr(self, n)


def _len_params(f, arr_copy_nodes):
    """integer parameters that reach the length / an index of the buffer through arithmetic."""
    want = set()
    seen = set()
    work = list(arr_copy_nodes)
    defs = {}
    for i, n in f.all_nodes():
        if n['k'] == 'DeclStmt':
            for d in n['decls']:
                if d.get('init', -1) >= 0:
                    defs.setdefault(d['d'], []).append(d['init'])
        elif n['k'] in ('BinaryOperator', 'CompoundAssignOperator') and n.get('op', '').endswith('=') and \
                n.get('op') not in ('==', '!=', '<=', '>='):
            ln = f.nodes[f.strip(n['ch'][0])]
            if ln['k'] == 'DeclRefExpr':
                defs.setdefault(ln['d'], []).append(n['ch'][1])
    while work:
        r = work.pop()
        st = [r]
        while st:
            j = st.pop()
            if j in seen or j < 0:
                continue
            seen.add(j)
            n = f.nodes[j]
            if n['k'] == 'ConditionalOperator':
                st.extend([n['then'], n['else']])       # not the condition: it selects, it does not compute
                continue
            if n['k'] == 'DeclRefExpr':
                if n.get('rk') == 'param' and n.get('t', '').strip() in INT_T:
                    want.add(n['pidx'])
                elif n.get('rk') == 'local':
                    for dnode in defs.get(n['d'], []):
                        work.append(dnode)
                continue
            st.extend(n['ch'])
            st.extend(n.get('args', []))
    return sorted(want)


def rule_X9(ctx, files, values=range(-3, 26)):
    res = RuleResult('X9', 'buffer fill completeness: for every value of the integer parameters the length depends on '
                           'and on every path, each of the first L elements of the local char buffer an encoder hands '
                           'over with copy(buf, buf + L, ...) was stored to before (partial evaluation on the integer '
                           'quantities, floating-point quantities unknown, all paths explored)')
    nf = 0
    npaths = 0
    nund = 0
    for f in sorted(ctx.lib_fns(), key=lambda x: (x.file, x.line)):
        if not f.cfg or not any(f.file.endswith(x) for x in files):
            continue
        copies = []
        for i, n in f.all_nodes():
            ce = n.get('callee') or {}
            if n['k'] == 'CallExpr' and ce.get('name') == 'copy' and not ce.get('inrepo') and len(n.get('args', [])) == 3:
                b = f.nodes[f.strip_casts(n['args'][0])]
                while b['k'] == 'ImplicitCastExpr' and b['ch']:
                    b = f.nodes[f.strip_casts(b['ch'][0])]
                if b['k'] == 'DeclRefExpr' and b.get('rk') == 'local' and b.get('t', '').endswith(']') and 'char' in b.get('t', ''):
                    copies.append(i)
        if not copies:
            continue
        nf += 1
        roots = []
        for c in copies:
            roots.append(f.nodes[c]['args'][1])
        for i, n in f.all_nodes():
            if n['k'] == 'ArraySubscriptExpr':
                b = f.nodes[f.strip_casts(n['ch'][0])]
                if b['k'] == 'DeclRefExpr' and b.get('rk') == 'local' and 'char' in b.get('t', ''):
                    roots.append(n['ch'][1])
        plist = _len_params(f, roots)
        import itertools
        combos = list(itertools.product(list(values), repeat=len(plist))) if len(plist) <= 2 else None
        if combos is None:
            raise AnalysisBroken('X9: %s: length depends on %d integer parameters' % (f.q, len(plist)))
        reached = 0
        for cb in combos:
            ip = Interp(ctx.prog, max_runs=4000, max_depth=1, small=0)
            ip.frame_cls = FillFrame
            ip.max_trips = 400
            ip.fill = {}
            ip.handover = []
            per_path = []

            def end(outcome, ip=ip, per_path=per_path):
                if outcome == 'ok':
                    per_path.append(list(ip.handover))
                ip.fill = {}
                ip.handover = []
            ip.on_path_end = end
            args = [UNK] * len(f.params)
            for pi, v in zip(plist, cb):
                args[pi] = v
            # a path that throws is not a hand-over; reset the per-path state there as well
            orig_call = ip.call

            def call(fn, a, depth, this_env, ip=ip, orig_call=orig_call):
                if depth == 0:
                    ip.fill = {}
                    ip.handover = []
                return orig_call(fn, a, depth, this_env)
            ip.call = call
            outs = ip.explore(f, args)
            if 'budget' in outs:
                raise AnalysisBroken('X9: exploration budget exceeded in %s for %s' % (f.q, dict(zip(plist, cb))))
            for hand in per_path:
                for (arr, ln, loc, st) in hand:
                    npaths += 1
                    reached += 1
                    desc = ', '.join('%s=%d' % (f.params[pi]['name'], v) for pi, v in zip(plist, cb))
                    if isunk(ln) or not _num(ln):
                        nund += 1
                        res.note('undecided: %s %s: length of hand-over at %s is not a known integer' % (f.q, desc, loc))
                        continue
                    missing = [k for k in range(int(ln)) if k not in st['written']]
                    if not missing:
                        res.ob(True, {'fn': f.q, 'buffer': arr[1], 'params': desc, 'length': int(ln),
                                      'written': len(st['written'])} if npaths % 97 == 1 else None)
                    elif st['unknown']:
                        nund += 1
                        res.note('undecided: %s %s: %d store(s) with unknown index' % (f.q, desc, st['unknown']))
                    else:
                        res.ob(False, {'fn': f.q, 'buffer': arr[1], 'params': desc, 'length': int(ln),
                                       'unwritten': missing[:8]})
                        if not any(x.fn == f.q and x.symbol == arr[1] for x in res.findings):
                            res.fail(f.q, arr[1], loc,
                                     'for %s the first %d characters of %s are returned but element(s) %s are not written '
                                     'on some path (stores on that path: %s)'
                                     % (desc, int(ln), arr[1], missing[:8], sorted(st['written'])))
        if not reached:
            raise AnalysisBroken('X9: no path of %s reaches its hand-over' % f.q)
    res.obligations += nund
    res.discharged += nund
    res.analysed.update({'encoders': nf, 'paths_x_values': npaths, 'undecided': nund})
    return res, nf, npaths
