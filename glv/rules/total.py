"""W1: output totality - an output argument that a function writes on some normally returning path is written
on every normally returning path (must-write dataflow on the CFG, compositional through callee summaries)."""
from ..core import RuleResult
from .exc import output_params, scoped_fns, is_api

MASK_PARAM_NAMES = {'outmask', 'caps'}


class MustWrite:
    def __init__(self, ctx):
        self.ctx = ctx
        self.S = ctx.summaries
        self.must = {}       # fn usr -> set of param idx written on every normal path
        self.inout = {}      # fn usr -> params read before being written (in-out arguments)
        self._compute()

    def _events_by_node(self, f):
        ev = {}
        for kind, nid, path, extra in self.S.events[f.usr]:
            ev.setdefault(nid, []).append((kind, path, extra))
        return ev

    def analyse(self, f):
        prog = self.ctx.prog
        outs = {i for i, p in enumerate(f.params) if p['pk'] in ('r', 'p')}
        fl = self.ctx.flow(f)
        ev = self._events_by_node(f)
        entry, ex = f.cfg['entry'], f.cfg['exit']
        ALL = frozenset(outs)
        state_in = {entry: frozenset()}
        work = [entry]
        out_state = {}

        inout = set()

        def xfer(b, st):
            st = set(st)
            for kind, e in fl._elts[b]:
                if kind != 'stmt':
                    continue
                ne = f.nodes[e]
                # a read of the argument before the function has written it: an in-out argument
                rd = None
                if ne['k'] == 'ImplicitCastExpr' and ne.get('ck') == 'LValueToRValue' and ne['ch']:
                    rd = f.nodes[f.strip(ne['ch'][0])]
                elif ne['k'] == 'CompoundAssignOperator' or (ne['k'] == 'UnaryOperator' and ne.get('op') in ('++', '--')):
                    rd = f.nodes[f.strip(ne['ch'][0])]
                if rd is not None and rd['k'] == 'DeclRefExpr' and rd.get('rk') == 'param' and \
                        rd.get('pidx') in outs and rd['pidx'] not in st:
                    inout.add(rd['pidx'])
                for kd, path, extra in ev.get(e, []):
                    if path is None or path.root[0] != 'param' or path.root[1] not in outs:
                        continue
                    if any(s[0] in ('field', 'index') for s in path.steps):
                        continue          # a part of the output only
                    pi = path.root[1]
                    if kd in ('store', 'mcall'):
                        st.add(pi)
                    elif kd == 'argout':
                        ce, j = extra
                        cu = ce.get('usr')
                        if cu in prog.fns and prog.fns[cu].cfg:
                            if j in self.must.get(cu, ()):
                                st.add(pi)
                        else:
                            st.add(pi)     # external callee taking a non-const reference: assumed to assign it
            return frozenset(st)

        n = 0
        while work:
            n += 1
            if n > 20000:
                break
            b = work.pop()
            st = xfer(b, state_in[b])
            out_state[b] = st
            for s in fl._succs(b):
                old = state_in.get(s)
                new = st if old is None else (old & st)
                if old is None or new != old:
                    state_in[s] = new
                    work.append(s)
        exits = []
        for b in fl.rpo:
            if b == ex or b not in out_state or ex not in fl._succs(b):
                continue
            blk = f.blocks[b]
            if blk.get('noreturn') or any(kind == 'stmt' and f.nodes[e]['k'] == 'CXXThrowExpr'
                                          for kind, e in fl._elts[b]):
                continue
            exits.append(b)
        must = set(ALL)
        lacking = {}
        for b in exits:
            must &= out_state[b]
            for pi in ALL - out_state[b]:
                lacking.setdefault(pi, []).append(b)
        if not exits:
            must = set()
        self.inout[f.usr] = inout
        return must, lacking, exits, out_state

    def _compute(self):
        fns = [f for f in self.ctx.prog.fns.values() if f.cfg and any(p['pk'] in ('r', 'p') for p in f.params)]
        for _ in range(8):
            changed = False
            for f in fns:
                must, lacking, exits, _ = self.analyse(f)
                if must != self.must.get(f.usr):
                    self.must[f.usr] = must
                    changed = True
            if not changed:
                break


def _exit_loc(f, fl, b):
    last = None
    for kind, e in fl._elts[b]:
        if kind == 'stmt':
            last = e
    return f.loc(last) if last is not None else f.loc()


def rule_W1(ctx, files=None, exempt=None):
    res = RuleResult('W1', 'output totality: an output argument written on some normally returning path of a function '
                           'is written on every normally returning path (else the caller reads a stale value)')
    exempt = exempt or {}
    mw = MustWrite(ctx)
    nfn = 0
    for f in scoped_fns(ctx, files):
        outs = output_params(f)
        if not outs or not f.cfg:
            continue
        if any(p['name'] in MASK_PARAM_NAMES for p in f.params):
            continue       # mask-gated outputs are decided by M2/M2c
        nfn += 1
        must, lacking, exits, out_state = mw.analyse(f)
        fl = ctx.flow(f)
        for pi in outs:
            some = any(pi in out_state[b] for b in exits)
            miss = lacking.get(pi, [])
            if not some or not miss:
                res.ob(True, None)
                continue
            if pi in mw.inout.get(f.usr, ()) or f.params[pi]['pk'] == 'p':
                res.ob(True, None)      # in-out argument / optional (pointer) output: conditional update is its contract
                continue
            key = (f.q, f.params[pi]['name'])
            if key in exempt:
                res.ob(True, {'fn': f.q, 'param': f.params[pi]['name'], 'audited': exempt[key]})
                res.note('audited: %s(%s): %s' % (f.q, f.params[pi]['name'], exempt[key]))
                continue
            locs = sorted({_exit_loc(f, fl, b) for b in miss})
            res.ob(False, {'fn': f.q, 'param': f.params[pi]['name'], 'exits_without_write': locs[:4]})
            res.fail(f.q, f.params[pi]['name'], locs[0],
                     'output argument %s is written on some returning paths but not on the path(s) ending at %s'
                     % (f.params[pi]['name'], ', '.join(l.rsplit('/', 1)[-1] for l in locs[:4])))
    res.analysed['functions_with_outputs'] = nfn
    return res, nfn
