"""K7: every raster access of Geoid stays inside the raster / the cache (linear-relational path analysis).

Obligations, for every path of Geoid::height (with rawval inlined) and Geoid::CacheArea, over all raster sizes
(width even >= 2, height odd >= 3 - the invariants the constructor's throwing guards establish, re-checked
here), all cache geometries and all positions:
  B1  filepos(ix, iy):            0 <= ix < _width  and  0 <= iy < _height
  B2  _data[r][c] (read or fill): 0 <= r < _ysize   and  0 <= c < _xsize
  B3  readarray(_file, &_data[r][c], n) after filepos(x, y):  c + n <= _xsize  and  x + n <= _width
      (a block read never runs past the end of a raster row or of a cache row)
  B4  the cell (ix, iy) that height() remembers in _ix/_iy is a cell of the raster: 0 <= ix < _width,
      0 <= iy <= _height - 2 (there is one row of cells fewer than rows of pixels; the south pole belongs to
      the last row of cells)
A longitude that is not wrapped, a wrap applied to the wrong variable, an off-by-one in a wrap test or a
cache row filled from the wrong column all break one of these.
"""
from fractions import Fraction as F

from ..build import AnalysisBroken
from ..core import RuleResult
from ..linrel import Analyzer, Lin, State, System, UNK, TooManyPaths

NS = 'GeographicLib::'


class Coef:
    """a positive class constant that multiplies real quantities (_rlonres = _width/360)."""

    def __init__(self, name, lin):
        self.name = name
        self.lin = lin


class GeoidAnalyzer(Analyzer):
    def __init__(self, ctx, res, cls=NS + 'Geoid'):
        Analyzer.__init__(self, ctx.prog, max_states=20000)
        self.cls = cls
        self.ctx = ctx
        self.res = res
        self.coefs = {}
        self.obl = {}           # (kind, loc) -> [proved?, violated?, detail]
        self.depth = 0
        self.fns = {f.name: f for f in ctx.lib_fns() if f.cls == cls and f.d.get('body', -1) >= 0}

    # ---------------------------------------------------------------- class symbols
    def base_state(self):
        s = System()
        s.ints |= {'Wh', 'Hh', 'xo', 'yo', 'xs', 'ys'}
        s.add_le(Lin.const(1), Lin.sym('Wh'))
        s.add_le(Lin.const(1), Lin.sym('Hh'))
        st = State(s)
        st.ranges = {}
        st.products = []
        return st

    def member(self, name, st, t=''):
        key = 'this.' + name
        if key in st.env:
            return st.env[key]
        if name == '_width':
            return Lin({'Wh': 2})
        if name == '_height':
            return Lin({'Hh': 2}, 1)
        if name in ('_xoffset', '_yoffset', '_xsize', '_ysize'):
            return Lin.sym({'_xoffset': 'xo', '_yoffset': 'yo', '_xsize': 'xs', '_ysize': 'ys'}[name])
        if name in self.coefs:
            return self.coefs[name]
        return UNK

    # ---------------------------------------------------------------- arithmetic with class coefficients
    def arith(self, op, a, b, st, isint):
        if isinstance(a, Coef) or isinstance(b, Coef):
            if op == '*':
                c, x = (a, b) if isinstance(a, Coef) else (b, a)
                if isinstance(x, Lin):
                    return [(self.scaled(x, c, st), st)]
            return [(UNK, st)]
        return Analyzer.arith(self, op, a, b, st, isint)

    def numeric_bounds(self, x, st):
        lo = hi = x.k
        for s, c in x.c.items():
            r = st.ranges.get(s)
            if r is None:
                return None
            a, b = r
            if c > 0:
                lo, hi = lo + c * a, hi + c * b
            else:
                lo, hi = lo + c * b, hi + c * a
        return lo, hi

    def scaled(self, x, coef, st):
        """x * coef for a real quantity x: a new symbol with linear bounds in the class symbols when x has a known
        numeric range (unbounded when x is an unconstrained input: the coefficient is positive, so the product is
        as free as x), ordered consistently with the earlier products by the same coefficient."""
        nb = self.numeric_bounds(x, st)
        if nb is None:
            if set(x.c) & self.loose:
                return UNK
            p = self.fresh('p', st, False, loose=False)
        else:
            p = self.fresh('p', st, False, loose=False)
            st.sys.add_le(coef.lin.scale(nb[0]), p)
            st.sys.add_le(p, coef.lin.scale(nb[1]))
        for cn, x2, p2 in st.products:
            if cn != coef.name:
                continue
            if st.sys.entails_le(x, x2):
                st.sys.add_le(p, p2)
            if st.sys.entails_le(x2, x):
                st.sys.add_le(p2, p)
        st.products = st.products + [(coef.name, x, p)]
        return p

    def assign(self, f, lhs, v, st):
        n = f.nodes[f.strip(lhs)]
        if n['k'] == 'MemberExpr' and n.get('thisbase') and n.get('m') in ('_ix', '_iy') and self.depth == 0 and \
                not f.is_ctor and isinstance(v, Lin):
            # B4: the cell remembered as cache key is a cell of the raster
            if n['m'] == '_ix':
                self.check(f, f.strip(lhs), 'B4 cached cell column', v, Lin.const(0), self.member('_width', st) - Lin.const(1), st)
            else:
                self.check(f, f.strip(lhs), 'B4 cached cell row', v, Lin.const(0), self.member('_height', st) - Lin.const(2), st)
        Analyzer.assign(self, f, lhs, v, st)

    def copy_extra(self, a, b):
        b.ranges = dict(a.ranges)
        b.products = list(a.products)

    # ---------------------------------------------------------------- calls
    def call(self, f, nid, n, st):
        ce = n.get('callee') or {}
        nm = ce.get('name', '')
        q = ce.get('q', '')
        args = n.get('args', [])
        off = 1 if (n.get('ckind') == 'operator' and ce.get('method')) else 0
        if q in (NS + 'Math::LatFix', NS + 'Math::AngNormalize') and len(args) == 1:
            out = []
            for _, s in self.ev(f, args[0], st):
                v = self.fresh('ang', s, False, loose=False)
                lim = 90 if q.endswith('LatFix') else 180
                s.ranges = dict(s.ranges)
                s.ranges[list(v.c)[0]] = (F(-lim), F(lim))
                s.sys.add_le(Lin.const(-lim), v)
                s.sys.add_le(v, Lin.const(lim))
                out.append((v, s))
            return out
        if nm == 'floor' and not ce.get('inrepo') and len(args) == 1:
            out = []
            for x, s in self.ev(f, args[0], st):
                if isinstance(x, Lin):
                    if self.is_int_lin(x, s):
                        out.append((x, s))
                        continue
                    fl = self.fresh('fl', s, True, loose=False)
                    s.sys.add_le(fl, x)
                    s.sys.add_lt(x, fl + Lin.const(1))
                    out.append((fl, s))
                else:
                    out.append((UNK, s))
            return out
        if nm in ('min', 'max') and not ce.get('inrepo') and len(args) == 2:
            out = []
            for a, s1 in self.ev(f, args[0], st):
                for b, s2 in self.ev(f, args[1], s1):
                    if isinstance(a, Lin) and isinstance(b, Lin):
                        for t, s3 in self.cmp_fork('<=', a, b, s2, None):
                            out.append(((a if t else b) if nm == 'min' else (b if t else a), s3))
                    else:
                        out.append((UNK, s2))
            return out
        if q == self.cls + '::filepos' and len(args) == 2:
            out = []
            for x, s1 in self.ev(f, args[0], st):
                for y, s2 in self.ev(f, args[1], s1):
                    self.check(f, nid, 'B1 filepos column', x, Lin.const(0), self.member('_width', s2) - Lin.const(1), s2)
                    self.check(f, nid, 'B1 filepos row', y, Lin.const(0), self.member('_height', s2) - Lin.const(1), s2)
                    s2.last_seek = (x, y)
                    out.append((UNK, s2))
            return out
        if q == NS + 'Utility::readarray' and len(args) == 3:
            return self.readarray(f, nid, n, st)
        if nm == 'operator[]' and n['k'] == 'CXXOperatorCallExpr' and len(args) == 2:
            return self.data_index(f, nid, n, st)
        callee = self.fns.get(nm) if q.startswith(self.cls + '::') else None
        if callee is not None and self.depth < 2 and nm in ('rawval',):
            out = []
            states = [st]
            vals = []
            for a in args[off:]:
                nxt = []
                for s in states:
                    for v, s2 in self.ev(f, a, s):
                        nxt.append((s2, v))
                # keep one state per argument evaluation (arguments here never fork)
                states = [x[0] for x in nxt]
                vals.append([x[1] for x in nxt])
            for si, s in enumerate(states):
                sub = s.copy()
                sub.env = dict(s.env)
                for pi, p in enumerate(callee.params):
                    sub.env[p['d']] = vals[pi][si] if pi < len(vals) and si < len(vals[pi]) else UNK
                self.depth += 1
                try:
                    self.ex(callee, callee.d['body'], [sub])
                finally:
                    self.depth -= 1
                out.append((UNK, s))
            return out
        return Analyzer.call(self, f, nid, n, st)

    def _data_root(self, f, nid):
        """(depth, [index nodes]) if expression nid is _data, _data[a] or _data[a][b]."""
        n = f.nodes[f.strip_casts(nid)]
        if n['k'] == 'MemberExpr' and n.get('thisbase') and n.get('m') == '_data':
            return []
        if n['k'] == 'CXXOperatorCallExpr' and (n.get('callee') or {}).get('name') == 'operator[]' and len(n.get('args', [])) == 2:
            r = self._data_root(f, n['args'][0])
            if r is not None:
                return r + [n['args'][1]]
        return None

    def data_index(self, f, nid, n, st):
        idx = self._data_root(f, nid)
        if idx is None or not idx:
            return Analyzer.call(self, f, nid, n, st)
        out = []
        states = [(st, [])]
        for inode in idx:
            nxt = []
            for s, vs in states:
                for v, s2 in self.ev(f, inode, s):
                    nxt.append((s2, vs + [v]))
            states = nxt
        for s, vs in states:
            if len(vs) >= 1:
                self.check(f, nid, 'B2 cache row', vs[0], Lin.const(0), self.member('_ysize', s) - Lin.const(1), s)
            if len(vs) >= 2:
                self.check(f, nid, 'B2 cache column', vs[1], Lin.const(0), self.member('_xsize', s) - Lin.const(1), s)
            out.append((UNK, s))
        return out

    def readarray(self, f, nid, n, st):
        args = n['args']
        out = []
        pn = f.nodes[f.strip_casts(args[1])]
        col = None
        inner = None
        if pn['k'] == 'UnaryOperator' and pn.get('op') == '&':
            inner = pn['ch'][0]
        for cnt, s in self.ev(f, args[2], st):
            if inner is not None:
                idx = self._data_root(f, inner)
                if idx is not None and len(idx) == 2:
                    for r, s1 in self.ev(f, idx[0], s):
                        for c, s2 in self.ev(f, idx[1], s1):
                            xs = self.member('_xsize', s2)
                            self.check(f, nid, 'B2 cache row', r, Lin.const(0), self.member('_ysize', s2) - Lin.const(1), s2)
                            if isinstance(c, Lin) and isinstance(cnt, Lin):
                                self.check(f, nid, 'B3 block inside cache row', c + cnt, Lin.const(0), xs, s2, lower=c)
                            else:
                                self.undecided(f, nid, 'B3 block inside cache row')
                            if s2.last_seek is not None and isinstance(s2.last_seek[0], Lin) and isinstance(cnt, Lin):
                                self.check(f, nid, 'B3 block inside raster row', s2.last_seek[0] + cnt, Lin.const(0),
                                           self.member('_width', s2), s2, lower=s2.last_seek[0])
                            else:
                                self.undecided(f, nid, 'B3 block inside raster row')
                            s2.last_seek = None
                            out.append((UNK, s2))
                    continue
            out.append((UNK, s))
        return out

    # ---------------------------------------------------------------- obligations
    def undecided(self, f, nid, kind):
        o = self.obl.setdefault((kind, f.loc(nid)), {'proved': 0, 'violated': 0, 'undecided': 0, 'fn': f.q, 'sample': None})
        o['undecided'] += 1

    def check(self, f, nid, kind, v, lo, hi, st, lower=None):
        o = self.obl.setdefault((kind, f.loc(nid)), {'proved': 0, 'violated': 0, 'undecided': 0, 'fn': f.q, 'sample': None})
        if not isinstance(v, Lin) or not isinstance(hi, Lin):
            o['undecided'] += 1
            return
        low_e = lower if lower is not None else v
        ok_hi = st.sys.entails_le(v, hi)
        ok_lo = st.sys.entails_le(lo, low_e)
        if ok_hi and ok_lo:
            o['proved'] += 1
            return
        # not proved: a violation only if no loosely modelled symbol is involved
        syms = set(v.c) | set(hi.c) | set(low_e.c)
        for e, _ in st.sys.cons:
            if set(e.c) & syms:
                syms |= set(e.c)
        if syms & self.loose:
            o['undecided'] += 1
            o['sample'] = o['sample'] or ('%s in [%s, %s] not proved (unmodelled quantity involved)' % (v, lo, hi))
            return
        o['violated'] += 1
        which = 'upper' if not ok_hi else 'lower'
        o['sample'] = o['sample'] or ('%s bound: value %s, required %s <= . <= %s, on a path with %d constraints (flags %s)'
                                      % (which, v, lo, hi, len(st.sys.cons),
                                         {k.replace('this.', ''): b for k, b in sorted(st.flags.items())}))


def _copy_patch():
    """State.copy must carry the extra fields of this analysis."""
    orig = State.copy

    def copy(self):
        s = orig(self)
        s.ranges = dict(getattr(self, 'ranges', {}))
        s.products = list(getattr(self, 'products', []))
        return s
    State.copy = copy


_copy_patch()


def _ctor_invariants(ctx, res):
    """the constructor rejects odd widths, even heights and sizes below 2 (witness evaluation of its guards)."""
    from ..cinterp import Interp, Frame, UNK as CUNK, isunk
    ctors = [f for f in ctx.lib_fns() if f.cls == NS + 'Geoid' and f.is_ctor and f.d.get('body', -1) >= 0 and len(f.params) >= 2]
    if not ctors:
        raise AnalysisBroken('K7: Geoid constructor not found')
    f = ctors[0]
    guards = []
    for i, n in f.all_nodes():
        if n['k'] == 'IfStmt' and n.get('then', -1) >= 0:
            t = f.nodes[n['then']]
            th = t['k'] == 'CXXThrowExpr' or any(f.nodes[j]['k'] == 'CXXThrowExpr' for j in f.walk(n['then']))
            if th and any(f.nodes[j]['k'] == 'MemberExpr' and f.nodes[j].get('m') in ('_width', '_height') for j in f.walk(n['cond'])):
                guards.append(n['cond'])
    ip = Interp(ctx.prog)

    def rejected(w, h):
        for g in guards:
            fr = Frame(ip, f, {}, {'this._width': w, 'this._height': h}, 0)
            ip.steps = 0
            v = fr.ev(g)
            if not isunk(v) and v:
                return True
        return False
    bad = [(1, 3), (3, 3), (2, 2), (2, 1), (0, 3), (4, 4), (-2, 3), (2, -1)]
    good = [(2, 3), (4, 5), (360, 181)]
    for w, h in bad:
        ok = rejected(w, h)
        res.ob(ok, None)
        if not ok:
            res.fail(f.q, 'size(%d,%d)' % (w, h), f.loc(), 'the constructor accepts a %d x %d raster: the wrap arithmetic of '
                     'height/rawval/CacheArea assumes an even width >= 2 and an odd height >= 3' % (w, h))
    for w, h in good:
        if rejected(w, h):
            raise AnalysisBroken('K7: the constructor guards reject the valid size %d x %d' % (w, h))
    # member coefficients
    coefs = {}
    for i, n in f.all_nodes():
        if n['k'] == 'BinaryOperator' and n.get('op') == '=':
            ln = f.nodes[f.strip(n['ch'][0])]
            if ln['k'] == 'MemberExpr' and ln.get('thisbase') and ln.get('m') in ('_rlonres', '_rlatres'):
                coefs[ln['m']] = n['ch'][1]
    return f, coefs


def rule_K7(ctx, cls=NS + 'Geoid', entries=('height', 'CacheArea'), with_ctor=True):
    res = RuleResult('K7', 'raster bounds: on every path of Geoid::height (rawval inlined) and Geoid::CacheArea every file '
                           'position lies inside the raster, every cache access inside the cache and every block read inside '
                           'one raster row and one cache row - for all raster sizes the constructor accepts (linear-relational '
                           'path analysis, entailment by Fourier-Motzkin elimination)')
    an = GeoidAnalyzer(ctx, res, cls)
    if with_ctor:
        ctor, coef_nodes = _ctor_invariants(ctx, res)
        st0 = an.base_state()
        for m, node in coef_nodes.items():
            vals = an.ev(ctor, node, st0.copy())
            if len(vals) != 1 or not isinstance(vals[0][0], Lin):
                raise AnalysisBroken('K7: cannot read the definition of %s from the constructor' % m)
            an.coefs[m] = Coef(m, vals[0][0])
        if set(an.coefs) != {'_rlonres', '_rlatres'}:
            raise AnalysisBroken('K7: _rlonres / _rlatres are not assigned in the constructor')
    nfn = 0
    for name in entries:
        f = an.fns.get(name)
        if f is None:
            raise AnalysisBroken('K7: anchor vanished: %s::%s' % (cls, name))
        nfn += 1
        st = an.base_state()
        # arguments are free inputs: any value of their type (not a modelling gap, so violations that involve them count)
        for prm in f.params:
            if prm['pk'] in ('v', 'cr') and (prm.get('float') or prm.get('int')) and prm['t'].replace('const ', '') != 'bool':
                v = an.fresh('arg_' + prm['name'], st, bool(prm.get('int')), loose=False)
                st.env[prm['d']] = v
        try:
            an.ex(f, f.d['body'], [st])
        except TooManyPaths:
            raise AnalysisBroken('K7: path budget exceeded in Geoid::' + name)
    nob = 0
    nund = 0
    for (kind, loc), o in sorted(an.obl.items()):
        nob += 1
        ok = o['violated'] == 0
        if o['undecided'] and not o['violated']:
            nund += 1
            res.note('undecided: %s at %s (%s)' % (kind, loc, o['sample']))
        res.ob(ok, {'obligation': kind, 'at': loc, 'paths_proved': o['proved'], 'paths_violated': o['violated'],
                    'paths_undecided': o['undecided']} if (not ok or nob % 4 == 1) else None)
        if not ok:
            res.fail(o['fn'], kind, loc, '%s at %s is not inside its bounds on %d path(s): %s'
                     % (kind, loc.rsplit('/', 1)[-1], o['violated'], o['sample']))
    res.analysed.update({'functions': nfn, 'obligation_sites': nob, 'undecided_sites': nund, 'paths': an.npaths,
                         'coefficients': {m: repr(c.lin) for m, c in an.coefs.items()}})
    return res, nob, nund
