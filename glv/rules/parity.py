"""S2: hemisphere-sign parity in the conic and polar projections.

The projections for a southern cone / the south pole are implemented as the mirror image of the northern one:
a sign symbol s (the member `_sign`, or `northp ? 1 : -1`) multiplies the latitude on the way in and the
northing and the convergence on the way out.  Mirror symmetry is a parity statement: under (s, lat, y, gamma)
-> (-s, -lat, -y, -gamma) every other quantity is unchanged.  The rule types every expression of
Forward/Reverse as EVEN (unchanged), ODD (negated) or MIXED under that reflection - s is ODD, an odd input is
ODD, products add parities, sums need equal parities, odd/even elementary functions are tabulated, any other
function needs EVEN arguments - and requires the declared parity at every output.  A sign factor applied twice,
forgotten or applied to the wrong quantity leaves an output with the wrong or with MIXED parity.
"""
from ..core import RuleResult
from ..build import AnalysisBroken
from ..flow import ASSIGN_OPS

E, O, T = 'even', 'odd', 'mixed'

ODD_FNS = {'sin', 'tan', 'atan', 'asin', 'sinh', 'asinh', 'atanh', 'cbrt',
           'GeographicLib::Math::sind', 'GeographicLib::Math::tand', 'GeographicLib::Math::atand',
           'GeographicLib::Math::LatFix', 'GeographicLib::Math::AngNormalize', 'GeographicLib::Math::AngRound',
           'GeographicLib::Math::eatanhe', 'GeographicLib::Math::taupf', 'GeographicLib::Math::tauf'}
EVEN_FNS = {'cos', 'cosh', 'fabs', 'abs', 'GeographicLib::Math::cosd', 'GeographicLib::Math::sq', 'hypot',
            'GeographicLib::LambertConformalConic::hyp', 'GeographicLib::AlbersEqualArea::hyp'}
# declared parities of the arguments of Forward / Reverse (mirror symmetry of the southern aspect)
ARG_PARITY = {'lat': O, 'y': O, 'gamma': O, 'lon0': E, 'lon': E, 'x': E, 'k': E, 'northp': None}


def mul(a, b):
    if T in (a, b):
        return T
    return E if a == b else O


def add(a, b):
    if T in (a, b):
        return T
    return a if a == b else T


def join(a, b):
    if a is None:
        return b
    if b is None:
        return a
    return a if a == b else T


class Parity:
    def __init__(self, fn, sign_member):
        self.fn = fn
        self.sign_member = sign_member
        self.env = {}
        self.why = {}

    def is_sign_flag(self, nid):
        """condition that is the hemisphere flag itself (bool parameter northp)."""
        f = self.fn
        n = f.nodes[f.strip_casts(nid)]
        return n['k'] == 'DeclRefExpr' and n.get('rk') == 'param' and n.get('name') == 'northp'

    def _is_neg_of(self, a, b):
        f = self.fn
        na, nb = f.nodes[f.strip_casts(a)], f.nodes[f.strip_casts(b)]
        if na['k'] == 'UnaryOperator' and na.get('op') == '-':
            return self._same(na['ch'][0], b)
        if nb['k'] == 'UnaryOperator' and nb.get('op') == '-':
            return self._same(nb['ch'][0], a)
        if 'cv' in na and 'cv' in nb:
            return int(na['cv']) == -int(nb['cv']) and int(na['cv']) != 0
        return False

    def _same(self, a, b):
        f = self.fn
        na, nb = f.nodes[f.strip_casts(a)], f.nodes[f.strip_casts(b)]
        if na['k'] != nb['k']:
            return False
        if na['k'] == 'DeclRefExpr':
            return na.get('d') == nb.get('d')
        if 'cv' in na and 'cv' in nb:
            return na['cv'] == nb['cv']
        return False

    def ev(self, nid):
        f = self.fn
        if nid is None or nid < 0:
            return E
        n = f.nodes[nid]
        k = n['k']
        if 'cv' in n and k not in ('CallExpr',):
            return E
        if k in ('IntegerLiteral', 'FloatingLiteral', 'CXXBoolLiteralExpr', 'CharacterLiteral'):
            return E
        if k in ('ParenExpr', 'ImplicitCastExpr', 'ExprWithCleanups', 'MaterializeTemporaryExpr',
                 'CXXFunctionalCastExpr', 'CStyleCastExpr', 'CXXStaticCastExpr', 'ConstantExpr',
                 'CXXBindTemporaryExpr') and n['ch']:
            return self.ev(n['ch'][0])
        if k == 'DeclRefExpr':
            if n.get('rk') in ('param', 'local'):
                return self.env.get(n['d'], E)
            return E
        if k == 'MemberExpr':
            if n.get('mk') == 'field' and n.get('thisbase'):
                return O if n['m'] == self.sign_member else E
            return E
        if k == 'UnaryOperator':
            if n['op'] in ('-', '+'):
                return self.ev(n['ch'][0])
            if n['op'] == '!':
                return E if self.ev(n['ch'][0]) == E else T
            return T
        if k in ('BinaryOperator', 'CompoundAssignOperator'):
            op = n['op']
            if op in ASSIGN_OPS:
                return self.assign(n)
            a, b = self.ev(n['ch'][0]), self.ev(n['ch'][1])
            if op in ('*', '/'):
                return mul(a, b)
            if op in ('+', '-'):
                return add(a, b)
            if op in ('<', '>', '<=', '>=', '==', '!=', '&&', '||'):
                return E if (a == E and b == E) else T
            if op == ',':
                return b
            return T
        if k == 'ConditionalOperator':
            if self.is_sign_flag(n['cond']):
                # northp ? v : -v  is  s * v
                if self._is_neg_of(n['then'], n['else']):
                    inner = n['else'] if f.nodes[f.strip_casts(n['then'])]['k'] == 'UnaryOperator' else n['then']
                    return mul(O, self.ev(inner))
                return T
            c = self.ev(n['cond'])
            a, b = self.ev(n['then']), self.ev(n['else'])
            if c != E:
                return T
            return join(a, b)
        if k in ('CallExpr', 'CXXMemberCallExpr', 'CXXOperatorCallExpr'):
            return self.call(n)
        if k in ('CXXConstructExpr', 'CXXTemporaryObjectExpr'):
            args = n.get('args', [])
            return self.ev(args[0]) if len(args) == 1 else E
        return T if n['ch'] else E

    def call(self, n):
        f = self.fn
        ce = n.get('callee') or {}
        q = ce.get('q', '')
        nm = ce.get('name', '')
        args = n.get('args', [])
        off = 1 if (n.get('ckind') == 'operator' and ce.get('method')) else 0
        args = args[off:]
        ps = [self.ev(a) for a in args]
        key = q if q.startswith('GeographicLib::') else nm
        if key == 'GeographicLib::Math::sincosd' and len(args) == 3:
            self.store(args[1], ps[0])
            self.store(args[2], E if ps[0] in (E, O) else T)
            return E
        if key in ('atan2', 'GeographicLib::Math::atan2d') and len(args) == 2:
            return ps[0] if ps[1] == E else T
        if key in ODD_FNS and ps:
            return ps[0] if all(p == E for p in ps[1:]) else T
        if key in EVEN_FNS:
            return E if all(p in (E, O) for p in ps) else T
        if key == 'copysign' and len(args) == 2:
            return ps[1] if ps[0] in (E, O) else T
        # any other function: defined on the northern (even) quantities only; outputs by reference are even too
        pk = ce.get('pk', [])
        ok = True
        for i, a in enumerate(args):
            kind = pk[i] if i < len(pk) else 'v'
            if kind in ('r', 'p'):
                continue
            if ps[i] != E:
                ok = False
        for i, a in enumerate(args):
            kind = pk[i] if i < len(pk) else 'v'
            if kind in ('r', 'p'):
                self.store(a, E if ok else T)
        return E if ok else T

    def store(self, lhs, p):
        f = self.fn
        n = f.nodes[f.strip(lhs)]
        if n['k'] == 'DeclRefExpr' and n.get('rk') in ('param', 'local'):
            self.env[n['d']] = p

    def _sign_selected_assignment(self, n):
        """`if (northp) v op= a; else v op= -a;` - the statement form of `v op= northp ? a : -a`."""
        f = self.fn
        if not self.is_sign_flag(n['cond']) or n.get('then', -1) < 0 or n.get('else', -1) < 0:
            return False

        def single(j):
            m = f.nodes[j]
            while m['k'] == 'CompoundStmt' and len(m['ch']) == 1:
                j = m['ch'][0]
                m = f.nodes[j]
            m = f.nodes[f.strip(j)]
            if m['k'] in ('BinaryOperator', 'CompoundAssignOperator') and m.get('op') in ASSIGN_OPS:
                return m
            return None
        a, b = single(n['then']), single(n['else'])
        if a is None or b is None or a['op'] != b['op'] or not self._same(a['ch'][0], b['ch'][0]):
            return False
        if not self._is_neg_of(a['ch'][1], b['ch'][1]):
            return False
        inner = b['ch'][1] if f.nodes[f.strip_casts(a['ch'][1])]['k'] == 'UnaryOperator' else a['ch'][1]
        rhs = mul(O, self.ev(inner))
        if a['op'] == '=':
            v = rhs
        else:
            cur = self.ev(a['ch'][0])
            v = mul(cur, rhs) if a['op'] in ('*=', '/=') else (add(cur, rhs) if a['op'] in ('+=', '-=') else T)
        self.store(a['ch'][0], v)
        return True

    def assign(self, n):
        op = n['op']
        rhs = self.ev(n['ch'][1])
        if op == '=':
            v = rhs
        else:
            cur = self.ev(n['ch'][0])
            v = mul(cur, rhs) if op in ('*=', '/=') else (add(cur, rhs) if op in ('+=', '-=') else T)
        self.store(n['ch'][0], v)
        return v

    def ex(self, nid):
        f = self.fn
        if nid is None or nid < 0:
            return
        n = f.nodes[nid]
        k = n['k']
        if k == 'CompoundStmt':
            for c in n['ch']:
                self.ex(c)
        elif k == 'DeclStmt':
            for d in n['decls']:
                if d.get('init', -1) >= 0:
                    self.env[d['d']] = self.ev(d['init'])
                else:
                    self.env[d['d']] = E
        elif k == 'IfStmt' and self._sign_selected_assignment(n):
            pass
        elif k == 'IfStmt':
            c = self.ev(n['cond'])
            before = dict(self.env)
            self.ex(n.get('then', -1))
            a = self.env
            self.env = dict(before)
            self.ex(n.get('else', -1))
            b = self.env
            out = {}
            for key in set(a) | set(b):
                v = join(a.get(key), b.get(key))
                if c != E and a.get(key) != before.get(key) or c != E and b.get(key) != before.get(key):
                    v = T
                out[key] = v
            self.env = out
        elif k in ('ForStmt', 'WhileStmt', 'DoStmt'):
            for _ in range(3):
                self.ex(n.get('body', -1))
        elif k == 'ReturnStmt':
            pass
        else:
            self.ev(nid)


def rule_S2(ctx, classes):
    res = RuleResult('S2', 'hemisphere-sign parity: in Forward/Reverse of the projections that treat the southern aspect '
                           'as the mirror image of the northern one, every output has the parity mirror symmetry '
                           'requires (lat, y, gamma odd; lon, x, k even) - each sign factor is applied exactly once')
    nfn = 0
    nout = 0
    for cls in classes:
        rec = ctx.prog.record(cls)
        fields = {fl['name'] for fl in (rec or {}).get('fields', [])}
        sign_member = '_sign' if '_sign' in fields else None
        for f in sorted(ctx.lib_fns(), key=lambda x: (x.file, x.line)):
            if f.cls != cls or f.name not in ('Forward', 'Reverse') or f.d.get('body', -1) < 0:
                continue
            names = [p['name'] for p in f.params]
            if 'gamma' not in names or 'k' not in names:
                continue          # the short overloads forward to these
            if sign_member is None and 'northp' not in names:
                raise AnalysisBroken('S2: %s has neither a _sign member nor a northp argument' % f.q)
            unknown = [nm for nm in names if nm not in ARG_PARITY]
            if unknown:
                raise AnalysisBroken('S2: %s: no declared parity for argument(s) %s' % (f.q, unknown))
            nfn += 1
            P = Parity(f, sign_member)
            for p in f.params:
                if p['pk'] in ('v', 'cr') and ARG_PARITY[p['name']] is not None:
                    P.env[p['d']] = ARG_PARITY[p['name']]
            P.ex(f.d['body'])
            for p in f.params:
                if p['pk'] not in ('r', 'p'):
                    continue
                want = ARG_PARITY[p['name']]
                got = P.env.get(p['d'])
                nout += 1
                ok = got == want
                res.ob(ok, {'fn': f.q, 'output': p['name'], 'parity': got, 'required': want}
                       if (not ok or nout % 5 == 1) else None)
                if not ok:
                    res.fail(f.q, p['name'], f.loc(),
                             'output %s of %s has parity %s under the hemisphere reflection, mirror symmetry requires '
                             '%s: a sign factor (%s) is missing, doubled or applied to the wrong quantity'
                             % (p['name'], f.q, got, want, sign_member or 'northp ? 1 : -1'))
    res.analysed.update({'functions': nfn, 'outputs': nout})
    return res, nfn, nout


# ---------------------------------------------------------------------------------------------- S3
Z = 'zero'      # the central meridian lon0: the origin of the longitude reflection (neutral in sums)


class ParityTM(Parity):
    """the two mirror symmetries of the transverse Mercator projections, with sign symbols taken from the data
    (`latsign = signbit(lat) ? -1 : 1`)."""

    def __init__(self, fn, sign_member):
        Parity.__init__(self, fn, sign_member)
        self.folded = set()

    def ev(self, nid):
        f = self.fn
        if nid is None or nid < 0:
            return E
        n = f.nodes[nid]
        k = n['k']
        if k == 'ConditionalOperator' and self._is_neg_of(n['then'], n['else']):
            # signbit(v) ? -1 : 1  (possibly `flag && signbit(v)`: the mode without folding is not analysed) carries the
            # parity of v
            sb = [f.nodes[j] for j in f.walk(n['cond']) if (f.nodes[j].get('callee') or {}).get('name') == 'signbit']
            if len(sb) == 1 and sb[0].get('args'):
                p = Parity.ev(self, sb[0]['args'][0])
                return O if p == O else (E if p == E else T)
        if k in ('BinaryOperator',) and n.get('op') in ('+', '-'):
            a, b = self.ev(n['ch'][0]), self.ev(n['ch'][1])
            if a == Z:
                return b
            if b == Z:
                return a
            return add(a, b)
        if k in ('BinaryOperator',) and n.get('op') in ('*', '/'):
            a, b = self.ev(n['ch'][0]), self.ev(n['ch'][1])
            if Z in (a, b):
                return T
            return mul(a, b)
        return Parity.ev(self, nid)

    def call(self, n):
        f = self.fn
        ce = n.get('callee') or {}
        nm = ce.get('name', '')
        args = n.get('args', [])
        if nm == 'AngDiff' and len(args) >= 2:
            a, b = self.ev(args[0]), self.ev(args[1])
            if a == Z:
                return b
            return add(a, b) if b != Z else a
        if nm == 'AngNormalize' and args:
            return self.ev(args[0])
        ps = [self.ev(a) for a in args]
        if Z in ps:
            return T
        return Parity.call(self, n)

    def ex(self, nid):
        f = self.fn
        if nid is None or nid < 0:
            return
        n = f.nodes[nid]
        if n['k'] == 'IfStmt':
            t = n.get('then', -1)
            tn = f.nodes[t] if t >= 0 else None
            last = tn
            while last is not None and last['k'] == 'CompoundStmt' and last['ch']:
                last = f.nodes[last['ch'][-1]]
            if last is not None and last['k'] == 'ReturnStmt' and n.get('else', -1) < 0:
                self.ev(n['cond'])
                return              # an early return: its outputs are those of another function, decided there
            # `if (signbit(v)) s = -1;` after `s = 1`: the statement form of signbit(v) ? -1 : 1
            sb = [f.nodes[j] for j in f.walk(n['cond']) if (f.nodes[j].get('callee') or {}).get('name') == 'signbit']
            if len(sb) == 1 and sb[0].get('args') and n.get('else', -1) < 0 and t >= 0:
                body = tn
                stmts = list(body['ch']) if body['k'] == 'CompoundStmt' else [t]
                targets = []
                for st in stmts:
                    m = f.nodes[f.strip(st)]
                    if m['k'] == 'BinaryOperator' and m.get('op') == '=' and f.nodes[f.strip(m['ch'][0])]['k'] == 'DeclRefExpr':
                        rn = f.nodes[f.strip_casts(m['ch'][1])]
                        if 'cv' in rn or (rn['k'] == 'UnaryOperator' and rn.get('op') == '-'):
                            targets.append(f.nodes[f.strip(m['ch'][0])]['d'])
                            continue
                    targets = None
                    break
                if targets:
                    p = Parity.ev(self, sb[0]['args'][0])
                    for d in targets:
                        self.env[d] = O if p == O else (E if p == E else T)
                    return
            def conjuncts(j):
                m = f.nodes[f.strip_casts(j)]
                if m['k'] == 'BinaryOperator' and m.get('op') == '&&':
                    return conjuncts(m['ch'][0]) + conjuncts(m['ch'][1])
                return [m]
            if n.get('else', -1) < 0:
                for cn in conjuncts(n['cond']):
                    if cn['k'] == 'BinaryOperator' and cn.get('op') == '==':
                        a, b = f.nodes[f.strip_casts(cn['ch'][0])], f.nodes[f.strip_casts(cn['ch'][1])]
                        if a['k'] == 'DeclRefExpr' and a.get('d') in self.folded and 'cv' in b and int(b['cv']) == 0:
                            return  # the tie-break at the fixed point of the reflection (lat == 0): both parities agree there
        Parity.ex(self, nid)

    def assign(self, n):
        f = self.fn
        ln = f.nodes[f.strip(n['ch'][0])]
        if n['op'] == '*=':
            if ln['k'] == 'DeclRefExpr' and self.ev(n['ch'][0]) == O and self.ev(n['ch'][1]) == O:
                self.folded.add(ln['d'])
        elif n['op'] == '=' and ln['k'] == 'DeclRefExpr' and self.env.get(ln['d']) == O:
            # v = sign * v  (or v * sign)
            uses = [j for j in f.walk(n['ch'][1]) if f.nodes[j]['k'] == 'DeclRefExpr' and f.nodes[j].get('d') == ln['d']]
            if uses and self.ev(n['ch'][1]) == E:
                self.folded.add(ln['d'])
        return Parity.assign(self, n)


S3_REFLECTIONS = {
    # name: (input parities Forward, output parities Forward, input parities Reverse, output parities Reverse)
    'latitude': ({'lon0': Z, 'lat': O, 'lon': E}, {'x': E, 'y': O, 'gamma': O, 'k': E},
                 {'lon0': Z, 'x': E, 'y': O}, {'lat': O, 'lon': E, 'gamma': O, 'k': E}),
    'longitude': ({'lon0': Z, 'lat': E, 'lon': O}, {'x': O, 'y': E, 'gamma': O, 'k': E},
                  {'lon0': Z, 'x': O, 'y': E}, {'lat': E, 'lon': O, 'gamma': O, 'k': E}),
}


def rule_S3(ctx, classes):
    res = RuleResult('S3', 'mirror symmetries of the transverse Mercator projections: under lat -> -lat (y, gamma odd) and under '
                           'lon - lon0 -> -(lon - lon0) (x, gamma odd) every output of Forward/Reverse has the parity the '
                           'symmetry requires; the sign symbols are the data-derived `signbit(v) ? -1 : 1` factors, each of which '
                           'must reach each output exactly once')
    nfn = 0
    nout = 0
    for cls in classes:
        for f in sorted(ctx.lib_fns(), key=lambda x: (x.file, x.line)):
            if f.cls != cls or f.name not in ('Forward', 'Reverse') or f.d.get('body', -1) < 0:
                continue
            names = [p['name'] for p in f.params]
            if 'gamma' not in names or 'k' not in names:
                continue
            nfn += 1
            for rname, (fin, fout, rin, rout) in sorted(S3_REFLECTIONS.items()):
                pin, pout = (fin, fout) if f.name == 'Forward' else (rin, rout)
                P = ParityTM(f, None)
                for p in f.params:
                    if p['pk'] in ('v', 'cr'):
                        if p['name'] not in pin:
                            raise AnalysisBroken('S3: %s: no declared parity for argument %s' % (f.q, p['name']))
                        P.env[p['d']] = pin[p['name']]
                P.ex(f.d['body'])
                for p in f.params:
                    if p['pk'] not in ('r', 'p'):
                        continue
                    want = pout.get(p['name'])
                    got = P.env.get(p['d'])
                    nout += 1
                    ok = got == want
                    res.ob(ok, {'fn': f.q, 'reflection': rname, 'output': p['name'], 'parity': got, 'required': want}
                           if (not ok or nout % 8 == 1) else None)
                    if not ok:
                        res.fail(f.q, '%s/%s' % (p['name'], rname), f.loc(),
                                 'under the %s reflection output %s of %s has parity %s, the mirror symmetry requires %s: a sign '
                                 'factor is missing, doubled or applied to only part of the value' % (rname, p['name'], f.q, got, want))
    res.analysed.update({'functions': nfn, 'outputs_x_reflections': nout})
    return res, nfn, nout
