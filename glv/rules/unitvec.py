"""UNIT: the spherical-trigonometry steps of GenPosition keep their sine/cosine pairs on the unit circle.

GeodesicLine::GenPosition and GeodesicLineExact::GenPosition are evaluated symbolically (sympoly) with every
capability and output requested and the callees uninterpreted.  Given that the line's members (_ssig1, _csig1),
(_salp0, _calp0) are unit pairs (LineInit normalises them) and that sincosd / (sin z, cos z) return unit pairs, the
derived pairs

    (ssig2, csig2)   sig2 = sig1 + sig12                (addition theorem)
    (sbet2, cbet2)   sin(bet2) = cos(alp0) sin(sig2),   cos(bet2) = hypot(sin(alp0), cos(alp0) cos(sig2))

must satisfy s^2 + c^2 = 1 as polynomial identities (hypot(a, b)^2 = a^2 + b^2) on every path that does not apply
the `tiny_` degeneracy fix.  A wrong sign or a wrong member in these formulas breaks the identity.
"""
import re

from ..core import RuleResult
from ..build import AnalysisBroken
from ..sympoly import SymEval, Poly, Unsupported, reduce_units

NS = 'GeographicLib::'
MEMBER_UNITS = [('_ssig1', '_csig1'), ('_salp0', '_calp0'), ('_salp1', '_calp1'), ('_stau1', '_ctau1')]
PAIRS = [('ssig2', 'csig2'), ('sbet2', 'cbet2')]


def _hyp_reduce(p, pure_args):
    for name, (fn, args) in pure_args.items():
        if fn != 'hypot' or len(args) != 2:
            continue
        changed = True
        while changed:
            changed = False
            out = Poly()
            for k, v in p.t.items():
                d = dict(k)
                e = d.get(name, 0)
                if e >= 2:
                    changed = True
                    d[name] = e - 2
                    if not d[name]:
                        del d[name]
                    out = out + Poly({tuple(sorted(d.items())): v}) * (args[0] * args[0] + args[1] * args[1])
                else:
                    out = out + Poly({k: v})
            p = out
    return p


def rule_UNIT(ctx):
    res = RuleResult('UNIT', 'unit pairs in GenPosition: with the line members and the library\'s sine/cosine results on the unit '
                             'circle, (ssig2, csig2) and (sbet2, cbet2) satisfy s^2 + c^2 = 1 on every non-degenerate path of '
                             'GeodesicLine::GenPosition and GeodesicLineExact::GenPosition (polynomial identity)')
    npaths = 0
    nchecks = 0
    for cls in ('GeodesicLine', 'GeodesicLineExact'):
        fs = [g for g in ctx.prog.fns.values() if g.q == NS + cls + '::GenPosition' and g.d.get('body', -1) >= 0]
        if not fs:
            raise AnalysisBroken('UNIT: %s::GenPosition not found' % cls)
        f = fs[0]
        pre = {('this', '_caps'): Poly.const(0x7F80 | 0x7F)}
        for pp in f.params:
            if pp['name'] == 'outmask':
                pre[('v', pp['d'])] = Poly.const(0x7F80 | 0x8000)
        try:
            paths = [p for p in SymEval(ctx.prog, inline=set(), max_paths=20000).explore(f, preset=pre) if p.outcome == 'return']
        except Unsupported as e:
            raise AnalysisBroken('UNIT: %s not evaluated: %s' % (f.q, e))
        good = {pr: 0 for pr in PAIRS}
        bad = {}
        for p in paths:
            # every declaration of the names (an inner block may declare its own ssig2, csig2): pair them by position
            decls = {}
            for key, v in p.env.items():
                if isinstance(v, Poly) and key[0] == 'v' and len(key) == 2 and '@' in key[1]:
                    nm, pos = key[1].split('@', 1)
                    try:
                        line = int(pos.split(':')[0])
                    except ValueError:
                        continue
                    decls.setdefault(nm, []).append((line, v))
            found = []
            for a, b in PAIRS:
                for la, va in decls.get(a, []):
                    near = [(abs(lb - la), vb) for lb, vb in decls.get(b, []) if abs(lb - la) <= 2]
                    if near:
                        found.append(((a, b), va, min(near, key=lambda x: x[0])[1]))
            if not found:
                continue
            npaths += 1
            syms = set()
            for _, va, vb in found:
                syms |= va.symbols() | vb.symbols()
            units = list(MEMBER_UNITS)
            for s in syms:
                if s.startswith('sincosd(') and s.endswith('.out1'):
                    units.append((s, s[:-1] + '2'))
                if s.startswith('sin(') or s.startswith('sin#'):
                    units.append((s, 'cos' + s[3:]))
            for (a, b), va, vb in found:
                if 'tiny_' in va.show() or 'tiny_' in vb.show():
                    continue              # the degeneracy fix replaces the pair on purpose
                nchecks += 1
                d = reduce_units(_hyp_reduce(va * va + vb * vb - Poly.const(1), p.pure_args), units)
                if d.is_zero():
                    good[(a, b)] += 1
                else:
                    bad.setdefault((a, b), (d, va, vb))
        for pr in PAIRS:
            ok = pr not in bad and good[pr] > 0
            res.ob(ok, {'fn': f.q, 'pair': list(pr), 'paths': good[pr]})
            if pr in bad:
                d, sa, sb = bad[pr]
                res.fail(f.q, '%s/%s' % pr, f.loc(), '%s: %s^2 + %s^2 - 1 = %s with %s = %s, %s = %s' %
                         (f.q, pr[0], pr[1], d.show()[:100], pr[0], sa.show()[:80], pr[1], sb.show()[:80]))
            elif not good[pr]:
                raise AnalysisBroken('UNIT: the pair %s was never checked in %s' % (pr, f.q))
    res.analysed.update({'paths': npaths, 'identities_checked': nchecks})
    return res, npaths, nchecks
