"""AREA: PolygonAreaT::AreaReduce returns the accumulated area modulo the ellipsoid area, in the requested sense.

For every crossing count in -1 .. 3, both values of `reverse` and of `sign`, the template body is evaluated
symbolically (sympoly) with the area a symbol and remainder(z, _area0) = z + k _area0; on every path

    result == sigma * area + (crossings odd ? _area0 / 2 : 0)    (mod _area0),    sigma = reverse ? +1 : -1.

That is the algebraic content of "the area of the polygon, counter-clockwise positive unless reversed, corrected by
half the ellipsoid area when the boundary encircles a pole an odd number of times, reduced to the requested
interval"; which interval is reached (the inequalities) is not decided here.
"""
from fractions import Fraction

from ..core import RuleResult
from ..build import AnalysisBroken
from ..sympoly import SymEval, Poly, Unsupported, entails_zero

NS = 'GeographicLib::'


def rule_AREA(ctx):
    res = RuleResult('AREA', 'AreaReduce over the reals: for crossings = -1 .. 3, reverse and sign in {false, true}, on every path '
                             'the result is sigma * area + (crossings odd ? area0/2 : 0) modulo area0 with sigma = reverse ? +1 : -1')
    fs = [f for f in ctx.prog.fns.values() if f.q == NS + 'PolygonAreaT::AreaReduce' and f.d.get('body', -1) >= 0 and
          f.params and f.params[0]['t'].replace('const ', '').strip() in ('double &', 'float &', 'long double &')]
    if not fs:
        raise AnalysisBroken('AREA: no floating instantiation of PolygonAreaT::AreaReduce found')
    f = sorted(fs, key=lambda g: (g.file, g.line))[0]
    names = [p['name'] for p in f.params]
    if names[1:] != ['crossings', 'reverse', 'sign']:
        raise AnalysisBroken('AREA: unexpected parameters %s' % names)
    ncase = 0
    npaths = 0
    for cr in (tuple(range(-4, 7)) if getattr(ctx, 'tier', 'quick') == 'thorough' else (-1, 0, 1, 2, 3)):
        for rev in (0, 1):
            for sg in (0, 1):
                ncase += 1
                pre = {('v', f.params[1]['d']): Poly.const(cr), ('v', f.params[2]['d']): Poly.const(rev),
                       ('v', f.params[3]['d']): Poly.const(sg)}
                try:
                    paths = [p for p in SymEval(ctx.prog, max_depth=2, max_paths=500).explore(f, preset=pre) if p.outcome == 'return']
                except Unsupported as e:
                    raise AnalysisBroken('AREA: not evaluated: %s' % e)
                if not paths:
                    raise AnalysisBroken('AREA: no returning path')
                bad = None
                for p in paths:
                    npaths += 1
                    out = p.env.get(('v', f.params[0]['d']))
                    if out is None:
                        raise AnalysisBroken('AREA: result not found')
                    sigma = 1 if rev else -1
                    tgt = out - Poly.sym('area').scale(sigma)
                    if cr % 2:
                        tgt = tgt - Poly.sym('_area0').scale(Fraction(1, 2))
                    t1 = tgt.subst('_area0', Poly.const(1))      # the unit of area
                    ok, rest = entails_zero(t1, [], p.periods, 1)
                    if not ok and bad is None:
                        bad = out
                res.ob(bad is None, {'crossings': cr, 'reverse': bool(rev), 'sign': bool(sg), 'paths': len(paths)}
                       if (bad is not None or ncase % 5 == 1) else None)
                if bad is not None:
                    res.fail(f.q, 'crossings=%d reverse=%d sign=%d' % (cr, rev, sg), f.loc(),
                             'AreaReduce(area, %d, %s, %s) returns %s, which is not %sarea%s modulo _area0'
                             % (cr, bool(rev), bool(sg), bad.show()[:100], '' if rev else '-', ' + _area0/2' if cr % 2 else ''))
    res.analysed.update({'cases': ncase, 'paths': npaths})
    return res, ncase, npaths
