"""M8: the line factories of the two geodesic solvers derive the same capabilities.

Geodesic and GeodesicExact are sibling implementations of one interface; Line, GenDirectLine, DirectLine,
ArcDirectLine and InverseLine adjust the requested capability mask before constructing the line
(`if (!arcmode) caps |= DISTANCE_IN`, `if (caps & (OUT_MASK & DISTANCE_IN)) caps |= DISTANCE`).  The series and
the exact class use different capability bits, so the comparison is made on *names*: for every subset of the
capability enumerators and both values of arcmode, the witness interpreter evaluates the factory's integer code
(everything else is unknown) up to the line constructor and reads the mask it passes; the set of enumerators
contained in that mask must be the same in both classes.  A factory that forgets an adjustment its sibling makes
yields a line that cannot compute what the interface promises (NaN from Position / Distance).
"""
import itertools
import re

from ..cinterp import Interp, Frame, UNK, isunk, _num
from ..core import RuleResult
from ..build import AnalysisBroken

NS = 'GeographicLib::'
NAMES = ('LATITUDE', 'LONGITUDE', 'AZIMUTH', 'DISTANCE', 'DISTANCE_IN', 'REDUCEDLENGTH', 'GEODESICSCALE', 'AREA',
         'LONG_UNROLL')
LINE_CLASSES = {'GeodesicLine', 'GeodesicLineExact'}


class CapFrame(Frame):
    def construct(self, n):
        ce = n.get('callee') or {}
        q = ce.get('q', '')
        pn = ce.get('pn', [])
        if q.split('::')[-1] in LINE_CLASSES and 'caps' in pn and self.depth <= 1:
            vals = [self.ev(a) for a in n.get('args', [])]
            v = vals[pn.index('caps')] if pn.index('caps') < len(vals) else UNK
            self.ip.captured.append(v)
            return UNK
        return Frame.construct(self, n)


def _passed_caps(ctx, f, args):
    ip = Interp(ctx.prog, max_runs=64, max_depth=2, small=120)
    ip.frame_cls = CapFrame
    ip.captured = []
    per_path = []

    def end(outcome, ip=ip):
        per_path.append(list(ip.captured))
        ip.captured = []
    ip.on_path_end = end
    orig = ip.call

    def call(fn, a, depth, this_env, ip=ip):
        if depth == 0:
            ip.captured = []
        return orig(fn, a, depth, this_env)
    ip.call = call
    ip.explore(f, args)
    out = set()
    for p in per_path:
        for v in p:
            out.add(v if (_num(v) and not isunk(v)) else None)
    return out


def rule_M8(ctx, pair=(NS + 'Geodesic', NS + 'GeodesicExact'), exhaustive=False):
    res = RuleResult('M8', 'sibling line factories: for every set of requested capabilities and both values of arcmode, '
                           'Geodesic and GeodesicExact pass the same named capabilities to the line they construct')
    A, B = pair
    ea, eb = ctx.prog.enum_values(A), ctx.prog.enum_values(B)
    for nm in NAMES:
        if nm not in ea or nm not in eb:
            raise AnalysisBroken('M8: enumerator %s missing in %s or %s' % (nm, A, B))
    fa = {f.name: f for f in ctx.lib_fns() if f.cls == A and f.cfg and any(p['name'] == 'caps' for p in f.params)}
    fb = {f.name: f for f in ctx.lib_fns() if f.cls == B and f.cfg and any(p['name'] == 'caps' for p in f.params)}
    common = sorted(set(fa) & set(fb))
    npairs = 0
    ncases = 0

    def names_of(v, ev):
        return frozenset(nm for nm in NAMES if (v & ev[nm]) == ev[nm])
    for name in common:
        f1, f2 = fa[name], fb[name]
        npairs += 1
        bools = [p['name'] for p in f1.params if p['t'].replace('const ', '') == 'bool']
        bad = None
        for r in (range(len(NAMES) + 1) if exhaustive else (0, 1, 2, len(NAMES))):
            for sub in itertools.combinations(NAMES, r):
                for bv in itertools.product([True, False], repeat=len(bools)):
                    got = []
                    for f, ev in ((f1, ea), (f2, eb)):
                        caps = 0
                        for nm in sub:
                            caps |= ev[nm]
                        args = []
                        for p in f.params:
                            if p['name'] == 'caps':
                                args.append(caps)
                            elif p['name'] in bools:
                                args.append(bv[bools.index(p['name'])])
                            else:
                                args.append(UNK)
                        vs = _passed_caps(ctx, f, args)
                        got.append(frozenset(names_of(v, ev) if v is not None else None for v in vs))
                    ncases += 1
                    # the series class may delegate to the exact one (if (_exact) ...): compare its own constructions
                    a_sets = {x for x in got[0] if x is not None}
                    b_sets = {x for x in got[1] if x is not None}
                    ok = bool(b_sets) and (not a_sets or a_sets == b_sets)
                    res.ob(ok, {'factory': name, 'requested': list(sub), 'flags': dict(zip(bools, bv)),
                                A.replace(NS, ''): sorted(map(sorted, a_sets)), B.replace(NS, ''): sorted(map(sorted, b_sets))}
                           if (not ok or ncases % 40 == 1) else None)
                    if not ok and bad is None:
                        bad = (sub, dict(zip(bools, bv)), a_sets, b_sets)
        if bad is not None:
            sub, flags, a_sets, b_sets = bad
            res.fail(f1.q, name + '/caps', f1.loc(),
                     'requested %s with %s: %s constructs its line with %s but %s with %s'
                     % (list(sub) or 'nothing', flags or 'no flags', A.replace(NS, ''), sorted(map(sorted, a_sets)),
                        B.replace(NS, ''), sorted(map(sorted, b_sets))))
    res.analysed.update({'factory_pairs': npairs, 'cases': ncases, 'factories': common})
    return res, npairs, ncases


# ---------------------------------------------------------------------------------------------- M8b
SIBLING_CLASSES = [('Geodesic', 'GeodesicExact'), ('GeodesicLine', 'GeodesicLineExact')]
NORMALISERS = {'AngNormalize', 'LatFix', 'AngRound', 'AngDiff', 'sincosd', 'sincosde', 'atan2d', 'norm', 'sum'}
M8B_AUDITED = {
    ('EquatorialArc', 'atan2d'): 'the series class returns atan2d(_ssig1, _csig1), the exact class atan2(_ssig1, _csig1)/degree: '
                                 'the same angle',
}


def _norm_calls(f):
    import collections
    c = collections.Counter()
    where = {}
    for i, n in f.all_nodes():
        ce = n.get('callee')
        if not ce or ce.get('name') not in NORMALISERS or n['k'] not in ('CallExpr', 'CXXMemberCallExpr'):
            continue
        names = []
        for a in n.get('args', []):
            an = f.nodes[f.strip_casts(a)]
            names.append(an.get('name') if an['k'] == 'DeclRefExpr' else (an.get('m') if an['k'] == 'MemberExpr' else '.'))
        key = (ce['name'], tuple(names))
        c[key] += 1
        where.setdefault(key, f.loc(i))
    return c, where


def rule_M8b(ctx):
    res = RuleResult('M8b', 'sibling solvers normalise alike: a function of the series solver/line and the function of the same '
                            'name in the exact solver/line apply the same angle normalisers (AngNormalize, LatFix, AngRound, '
                            'AngDiff, sincosd, atan2d, norm, sum) to the same named quantities, the same number of times')
    byq = {}
    for f in ctx.lib_fns():
        if f.d.get('body', -1) >= 0:
            byq.setdefault(f.q, []).append(f)
    npairs = 0
    ncalls = 0
    for a, b in SIBLING_CLASSES:
        for q, fs in sorted(byq.items()):
            if not q.startswith(NS + a + '::'):
                continue
            nm = q.split('::')[-1]
            q2 = NS + b + '::' + (b if nm == a else nm)
            if q2 not in byq:
                continue
            for f in fs:
                gs = [g for g in byq[q2] if len(g.params) == len(f.params)]
                if len(gs) != 1:
                    continue
                g = gs[0]
                (s1, w1), (s2, w2) = _norm_calls(f), _norm_calls(g)
                if not s1 and not s2:
                    continue
                npairs += 1
                ncalls += sum(s1.values())
                extra1, extra2 = s1 - s2, s2 - s1
                # the argument names are compared only where they are exact on both sides; a call whose names differ only
                # because one sibling routes its arguments through locals still counts as the same normalisation
                import collections as _c
                n1 = _c.Counter(k_[0] for k_ in extra1.elements())
                n2 = _c.Counter(k_[0] for k_ in extra2.elements())
                for nm_ in set(n1) & set(n2):
                    m_ = min(n1[nm_], n2[nm_])
                    for ex_ in (extra1, extra2):
                        left = m_
                        for k_ in list(ex_):
                            if k_[0] == nm_ and left > 0:
                                take = min(ex_[k_], left)
                                ex_[k_] -= take
                                left -= take
                                if ex_[k_] <= 0:
                                    del ex_[k_]
                for key in list(extra1) + list(extra2):
                    if (nm, key[0]) in M8B_AUDITED:
                        extra1.pop(key, None)
                        extra2.pop(key, None)
                        res.note('%s: %s' % (nm, M8B_AUDITED[(nm, key[0])]))
                ok = not extra1 and not extra2
                res.ob(ok, {'series': f.q, 'exact': g.q, 'normaliser_calls': sum(s1.values())})
                for side, extra, wh, fn, other in (('series', extra1, w1, f, g), ('exact', extra2, w2, g, f)):
                    for key, cnt in sorted(extra.items()):
                        res.fail(fn.q, '%s(%s)' % (key[0], ','.join(x or '.' for x in key[1])), wh[key],
                                 '%s applies %s(%s) %d time(s) more than its sibling %s'
                                 % (fn.q, key[0], ', '.join(x or '.' for x in key[1]), cnt, other.q))
    res.analysed.update({'sibling_pairs': npairs, 'normaliser_calls': ncalls})
    return res, npairs, ncalls


# ---------------------------------------------------------------------------------------------- SIB1
_SIB_TR = ('ImplicitCastExpr', 'ParenExpr', 'ExprWithCleanups', 'MaterializeTemporaryExpr', 'CXXBindTemporaryExpr',
           'CXXFunctionalCastExpr', 'CStyleCastExpr', 'CXXStaticCastExpr', 'ConstantExpr')

# (function, assigned name) -> why the two siblings legitimately differ there
SIB1_AUDITED = {
    ('GenPosition', 'ssig2'): 'the series line evaluates sig2 a second time after its Newton correction; the exact line obtains '
                              'it once',
    ('GenPosition', 'csig2'): 'as ssig2',
    ('GenPosition', 'ssig12'): 'the series line recomputes sin/cos(sig12) after its Newton correction for |f| > 0.01',
    ('GenPosition', 'csig12'): 'as ssig12',
    ('LineInit', '_e2'): 'copy of g._e2 kept by the exact line only (the series line reads g._e2 where it needs it)',
}


def _sib_canon(f, i, ids, leaves=None):
    """canonical text of an expression; identifiers are collected in ids, and when `leaves` is a list every
    identifier/literal is also appended to it and replaced by `$` in the text (shape with holes)."""
    def leaf(txt):
        if leaves is None:
            return txt
        leaves.append(txt)
        return '$'
    n = f.nodes[i]
    k = n['k']
    if k in _SIB_TR and n.get('ch'):
        return _sib_canon(f, n['ch'][-1], ids, leaves)
    if k == 'DeclRefExpr':
        nm = n.get('name') or '?'
        if n.get('rk') in ('param', 'local', 'var'):
            ids.add(nm)
        return leaf(nm)
    if k == 'MemberExpr':
        ids.add(n.get('m'))
        b = f.nodes[f.strip_casts(n['ch'][0])] if n.get('ch') else None
        if b is None or b['k'] == 'CXXThisExpr':
            return leaf(str(n.get('m')))
        return _sib_canon(f, n['ch'][0], ids, leaves) + '.' + leaf(str(n.get('m')))
    if k == 'CXXThisExpr':
        return 'this'
    if 'cv' in n:
        return leaf(str(n['cv']))
    if k in ('FloatingLiteral', 'IntegerLiteral', 'CXXBoolLiteralExpr'):
        return leaf(str(n.get('v')))
    ce = n.get('callee')
    if ce and n.get('args') is not None:
        ids.add('()' + str(ce.get('name')))
        return str(ce.get('name')) + '(' + ','.join(_sib_canon(f, a, ids, leaves) for a in n['args']) + ')'
    if k in ('BinaryOperator', 'CompoundAssignOperator'):
        op = n.get('op', '?')
        if leaves is None and op in ('+', '*', '&', '|', '&&', '||'):
            # associative and commutative: flatten and sort the operands
            parts = []

            def flat(j):
                m = f.nodes[j]
                while m['k'] in _SIB_TR and m.get('ch'):
                    j = m['ch'][-1]
                    m = f.nodes[j]
                if m['k'] == 'BinaryOperator' and m.get('op') == op:
                    flat(m['ch'][0])
                    flat(m['ch'][1])
                else:
                    parts.append(_sib_canon(f, j, ids, None))
            flat(i)
            return '(' + op.join(sorted(parts)) + ')'
        a, b = _sib_canon(f, n['ch'][0], ids, leaves), _sib_canon(f, n['ch'][1], ids, leaves)
        if leaves is None and op in ('==', '!=') and b < a:
            a, b = b, a
        return '(' + a + op + b + ')'
    if k == 'UnaryOperator':
        return n.get('op', '?') + _sib_canon(f, n['ch'][0], ids, leaves)
    if k == 'ConditionalOperator':
        return '(' + _sib_canon(f, n['cond'], ids, leaves) + '?' + _sib_canon(f, n['then'], ids, leaves) + ':' + \
            _sib_canon(f, n['else'], ids, leaves) + ')'
    return k + '[' + ','.join(_sib_canon(f, c, ids, leaves) for c in n.get('ch', [])) + ']'


def _sib_shape(f, rhs_node):
    leaves = []
    return _sib_canon(f, rhs_node, set(), leaves), leaves


def _sib_defs(f):
    """assigned name -> [(canonical right-hand side, identifiers, node)]"""
    out = {}
    seen = set()
    for i, n in f.all_nodes():
        if n['k'] in ('BinaryOperator', 'CompoundAssignOperator') and str(n.get('op', '')).endswith('=') and \
                n['op'] not in ('==', '!=', '<=', '>='):
            ids = set()
            lhs = _sib_canon(f, n['ch'][0], ids)
            rhs = _sib_canon(f, n['ch'][1], ids)
            if n['op'] != '=':
                o = n['op'][:-1]
                if o in ('+', '*', '&', '|'):
                    parts = [lhs] + (rhs[1:-1].split(o) if rhs.startswith('(') and rhs.endswith(')') and
                                     rhs.count('(') == 1 and o in rhs else [rhs])
                    rhs = '(' + o.join(sorted(parts)) + ')'
                else:
                    rhs = '(' + lhs + o + rhs + ')'
            out.setdefault(lhs, []).append((rhs, frozenset(ids), i, n['ch'][1], n['op']))
        elif n['k'] == 'DeclStmt':
            for d in n['decls']:
                if d.get('init', -1) >= 0 and d['d'] not in seen:
                    seen.add(d['d'])
                    ids = {d['name']}
                    out.setdefault(d['name'], []).append((_sib_canon(f, d['init'], ids), frozenset(ids), i, d['init'], '='))
    return out


def _sib_vocab(f):
    v = set(p['name'] for p in f.params)
    for i, n in f.all_nodes():
        if n['k'] == 'DeclRefExpr' and n.get('rk') in ('param', 'local', 'var'):
            v.add(n.get('name'))
        if n['k'] == 'MemberExpr':
            v.add(n.get('m'))
        if n['k'] == 'DeclStmt':
            for d in n['decls']:
                v.add(d['name'])
        ce = n.get('callee')
        if ce:
            v.add('()' + str(ce.get('name')))
    return v


def rule_SIB1(ctx, which='geodesic'):
    import collections
    res = RuleResult('SIB1', 'clone siblings agree: for a function of the series solver/line and the function of the same name in '
                             'the exact solver/line, a variable or member that both assign using only names known to both '
                             'functions does not differ by the signature of a slip: one statement present in one sibling only, '
                             'or one statement with a single identifier or literal changed (differently structured '
                             'statements are rewrites and are not judged); audited divergences are listed')
    byq = {}
    for f in ctx.lib_fns():
        if f.d.get('body', -1) >= 0:
            byq.setdefault(f.q, []).append(f)
    npairs = 0
    nnames = 0
    nrewrites = 0
    used_audit = set()
    for f, g in _sib_pairs(ctx, which):
        nm = f.q.split('::')[-1]
        df, dg = _sib_defs(f), _sib_defs(g)
        vf, vg = _sib_vocab(f), _sib_vocab(g)
        common = vf & vg
        npairs += 1
        for L in sorted(set(df) | set(dg)):
            base = L.split('.')[0].split('[')[0]
            if L not in common and base not in common:
                continue
            sf, sg = df.get(L, []), dg.get(L, [])
            if any(not x[1] <= common for x in sf + sg):
                continue            # one side uses names the other does not have: not comparable
            nnames += 1
            cf = collections.Counter(x[0] for x in sf)
            cg = collections.Counter(x[0] for x in sg)
            if cf == cg:
                res.ob(True, None)
                continue
            only_f, only_g = list((cf - cg).elements()), list((cg - cf).elements())
            # the two signatures of a slip (anything else is a rewrite and is not judged):
            #  (i) one side has exactly one statement more, the rest is identical;
            #  (ii) one statement on each side, same structure, exactly one identifier or literal differs
            kind = None
            if (len(only_f), len(only_g)) in ((1, 0), (0, 1)):
                missing = (only_f or only_g)[0]
                lacking = dg if only_f else df
                # a refactoring that moved the expression into another variable is a rewrite, not a dropped statement
                moved = any(missing in x[0] for xs in lacking.values() for x in xs)
                if not moved:
                    kind = 'one sibling has a statement the other lacks'
            elif len(only_f) == 1 and len(only_g) == 1:
                xf = [x for x in sf if x[0] == only_f[0]][0]
                xg = [x for x in sg if x[0] == only_g[0]][0]
                (shf, lf_), (shg, lg_) = _sib_shape(f, xf[3]), _sib_shape(g, xg[3])
                if shf == shg and xf[4] == xg[4] and len(lf_) == len(lg_):
                    diff = [(a_, b_) for a_, b_ in zip(lf_, lg_) if a_ != b_]
                    if len(diff) == 1:
                        kind = 'the same statement with %s in one sibling and %s in the other' % diff[0]
                elif sorted(lf_) == sorted(lg_) and xf[4] == xg[4] and \
                        sorted(re.findall(r'[-+*/]', shf)) == sorted(re.findall(r'[-+*/]', shg)) and \
                        sorted(re.findall(r'[a-zA-Z_]\w*\(', shf)) == sorted(re.findall(r'[a-zA-Z_]\w*\(', shg)):
                    # (iii) the same operands under the same operators and calls, arranged differently
                    kind = 'the same operands and operators arranged differently (%s / %s)' % (only_f[0][:60], only_g[0][:60])
            if kind is None:
                nrewrites += 1
                res.ob(True, {'function': nm, 'name': L, 'not_judged': 'the siblings assign it through differently '
                              'structured statements (a rewrite, not the signature of a slip)'})
                continue
            if (nm, L) in SIB1_AUDITED:
                used_audit.add((nm, L))
                res.ob(True, {'function': nm, 'name': L, 'audited': SIB1_AUDITED[(nm, L)]})
                continue
            res.ob(False, {'series': f.q, 'exact': g.q, 'name': L, 'only_series': sorted(only_f)[:3],
                           'only_exact': sorted(only_g)[:3]})
            at = None
            for x in sf:
                if x[0] in only_f:
                    at = f.loc(x[2])
            for x in sg:
                if at is None and x[0] in only_g:
                    at = g.loc(x[2])
            res.fail(f.q, L, at or f.loc(),
                     '%s in the siblings %s and %s: %s (series only: %s; exact only: %s)'
                     % (L, f.q, g.q, kind, sorted(only_f)[:2] or 'nothing', sorted(only_g)[:2] or 'nothing'))
    res.analysed.update({'sibling_pairs': npairs, 'names_compared': nnames, 'audited_divergences_used': len(used_audit),
                         'differently_structured_not_judged': nrewrites})
    return res, npairs, nnames


# ---------------------------------------------------------------------------------------------- SIB2
INTRA_CLASS_SIBLINGS = [(NS + 'SphericalEngine::Value', NS + 'SphericalEngine::Circle')]


def _sib_pairs(ctx, which):
    byq = {}
    for f in ctx.lib_fns():
        if f.d.get('body', -1) >= 0:
            byq.setdefault(f.q, []).append(f)
    pairs = []
    if which in ('geodesic', 'all'):
        for a, b in SIBLING_CLASSES:
            for q, fs in sorted(byq.items()):
                if not q.startswith(NS + a + '::'):
                    continue
                nm = q.split('::')[-1]
                q2 = NS + b + '::' + (b if nm == a else nm)
                if q2 not in byq:
                    continue
                for f in fs:
                    gs = [g for g in byq[q2] if len(g.params) == len(f.params)]
                    if len(gs) == 1:
                        pairs.append((f, gs[0]))
    if which in ('harmonic', 'all'):
        for qa, qb in INTRA_CLASS_SIBLINGS:
            if qa not in byq or qb not in byq:
                raise AnalysisBroken('SIB2: %s / %s not found' % (qa, qb))
            pairs.append((sorted(byq[qa], key=lambda f: f.line)[0], sorted(byq[qb], key=lambda f: f.line)[0]))
    return pairs


def rule_SIB2(ctx, which='geodesic'):
    res = RuleResult('SIB2', 'clone siblings order alike: two statements that occur (once, in canonical form) in both of a pair of '
                             'sibling functions and depend on each other - one assigns what the other reads or assigns - come in the '
                             'same order in both (a step moved across another in one sibling only)')
    npairs = 0
    ndeps = 0
    for f, g in _sib_pairs(ctx, which):
        occ = []
        for h in (f, g):
            d = {}
            for L, xs in _sib_defs(h).items():
                for x in xs:
                    n = h.nodes[x[2]]
                    d.setdefault((L, x[0]), []).append(((n.get('l', 0), n.get('c', 0)), x[1], x[2]))
            occ.append(d)
        common = sorted(k for k in occ[0] if k in occ[1] and len(occ[0][k]) == 1 and len(occ[1][k]) == 1)
        if not common:
            continue
        npairs += 1
        for i, k1 in enumerate(common):
            b1 = k1[0].split('.')[0].split('[')[0]
            for k2 in common[i + 1:]:
                b2 = k2[0].split('.')[0].split('[')[0]
                if not (b1 in occ[0][k2][0][1] or b2 in occ[0][k1][0][1] or k1[0] == k2[0]):
                    continue
                ndeps += 1
                oa = occ[0][k1][0][0] < occ[0][k2][0][0]
                ob = occ[1][k1][0][0] < occ[1][k2][0][0]
                res.ob(oa == ob, None)
                if oa != ob:
                    res.fail(g.q, '%s/%s' % (k1[0], k2[0]), g.loc(occ[1][k2][0][2]),
                             '`%s = %s` and `%s = %s` depend on each other and come in opposite orders in the siblings %s and %s'
                             % (k1[0], k1[1][:50], k2[0], k2[1][:50], f.q, g.q))
    res.analysed.update({'sibling_pairs_with_common_statements': npairs, 'dependent_statement_pairs': ndeps})
    return res, npairs, ndeps
