"""ECONST: the ellipsoid constants every class derives from (a, f) satisfy their defining identities.

Sixteen constructors store members with the library's conventional names (_e2, _e2m, _f1, _n, _b, _ep2, ...).
Their member initialisers are evaluated symbolically (glv/sympoly.py) with a and f as symbols, and each member of a
conventional name must equal its definition as a rational function of a and f - however the source spells it
(`Math::sq(1 - _f)`, `1 - _e2`, `_f1 * _f1`).  Decided on every path of the initialiser list (the `f < 0`
alternatives of _es).
"""
from ..core import RuleResult
from ..build import AnalysisBroken
from ..sympoly import SymEval, Poly, Unsupported, clear_inverses

NS = 'GeographicLib::'
A, F = Poly.sym('a'), Poly.sym('f')
ONE, TWO = Poly.const(1), Poly.const(2)
E2 = F * (TWO - F)
FM = ONE - F
# name -> (numerator, denominator, description)
TABLE = {
    '_a': (A, ONE, 'a'), '_f': (F, ONE, 'f'),
    '_e2': (E2, ONE, 'f (2 - f)'), '_mu': (E2, ONE, 'e2'),
    '_e2m': (FM * FM, ONE, '(1 - f)^2 = 1 - e2'), '_e2m1': (FM * FM, ONE, '(1 - f)^2'), '_mv': (FM * FM, ONE, '(1 - f)^2'),
    '_fm': (FM, ONE, '1 - f'), '_f1': (FM, ONE, '1 - f'), '_fm1': (FM, ONE, '1 - f'),
    '_n': (F, TWO - F, 'f / (2 - f)'),
    '_b': (A * FM, ONE, 'a (1 - f)'),
    '_ep2': (E2, FM * FM, 'e2 / (1 - e2)'), '_e12': (E2, FM * FM, 'e2 / (1 - e2)'),
    '_e12p1': (ONE, FM * FM, '1 / (1 - e2)'),
    '_e4a': (E2 * E2, ONE, 'e2^2'),
}
SQRT_ABS_E2 = ('_e', '_es')       # +-sqrt(|e2|) (or sqrt(e2) where f > 0 is required): checked through the square


def rule_ECONST(ctx, classes=None):
    res = RuleResult('ECONST', 'ellipsoid constants: in every constructor taking (a, f) the members with the conventional names '
                               '_e2, _e2m, _f1, _fm, _n, _b, _ep2, _e12, _e4a, ... equal their defining rational function of a '
                               'and f, whatever expression the source uses (symbolic evaluation of the initialiser lists)')
    nctor = 0
    nmem = 0
    seen = set()
    for f in sorted(ctx.lib_fns(), key=lambda x: (x.file, x.line)):
        if not f.cls or f.name != f.cls.split('::')[-1] or f.d.get('body', -1) < 0:
            continue
        if classes is not None and f.cls not in classes:
            continue
        names = [p['name'] for p in f.params]
        if 'a' not in names or 'f' not in names or (f.q, len(names)) in seen:
            continue
        seen.add((f.q, len(names)))
        try:
            paths = [p for p in SymEval(ctx.prog, max_paths=300, max_depth=2).explore(f, inits_only=True)]
        except Unsupported as e:
            res.note('%s: initialisers not evaluated (%s)' % (f.q, e))
            continue
        nctor += 1
        for m in sorted({k[1] for p in paths for k in p.env if k[0] == 'this' and len(k) == 2}):
            if m not in TABLE and m not in SQRT_ABS_E2:
                continue
            nmem += 1
            bad = None
            for p in paths:
                v = p.env.get(('this', m))
                if v is None:
                    continue
                try:
                    if m in TABLE:
                        num, den, text = TABLE[m]
                        d = clear_inverses(v * den - num, p.pure_args)
                    else:
                        text = '+-sqrt(|e2|)'
                        sq = v * v
                        ab = [s for s in sq.symbols() if s.startswith('sqrt(')]
                        for s in ab:
                            sq = sq.subst(s, Poly.sym('@r'))
                        # (+-sqrt(abs(e2)))^2 == abs(e2): compare as @r^2 with the argument of the sqrt being abs(e2)
                        ok = len(ab) == 1 and (sq - Poly.sym('@r') * Poly.sym('@r')).is_zero() and \
                            p.pure_args.get(ab[0], (None, [Poly()]))[1][0].show() in ('abs(%s)' % E2.show(), E2.show())
                        d = Poly() if ok else Poly.const(1)
                except Unsupported as e:
                    res.note('%s::%s not decided (%s)' % (f.q, m, e))
                    continue
                if not d.is_zero():
                    bad = (v, text)
            if m == '_es' and bad is None:
                # the signed eccentricity: negative for prolate ellipsoids, so both signs must occur over the paths
                vals = {p.env[('this', m)].show() for p in paths if ('this', m) in p.env}
                if len(vals) < 2 and not any(v.startswith('-') for v in vals) == any(not v.startswith('-') for v in vals):
                    bad = (paths[0].env[('this', m)], 'sqrt(|e2|) with the sign of f (negative for prolate ellipsoids)')
            res.ob(bad is None, {'constructor': f.q, 'member': m, 'definition': (TABLE.get(m) or (0, 0, '+-sqrt(|e2|)'))[2]}
                   if (bad or nmem % 5 == 1) else None)
            if bad:
                res.fail(f.q, m, f.loc(), '%s::%s is initialised to %s, its definition is %s' % (f.cls, m, bad[0].show()[:120], bad[1]))
    res.analysed.update({'constructors': nctor, 'members_checked': nmem})
    return res, nctor, nmem
