"""TMC: the complex Clenshaw summation of TransverseMercator evaluates the Krueger series and its derivative.

TransverseMercator::Forward / Reverse are evaluated symbolically on every path (sympoly with std::complex over
polynomials; the loop over maxpow_ is unrolled).  With c0, s0, ch0, sh0 the library's own cos/sin(2 xi'),
cosh/sinh(2 eta') the final values of the complex locals must be, modulo c0^2 + s0^2 = 1 and ch0^2 - sh0^2 = 1,

  Forward:  y1 = zeta' + sum_j alp[j] sin(2 j zeta'),        z1 = 1 + sum_j 2 j alp[j] cos(2 j zeta')
  Reverse:  y1 = zeta  - sum_j bet[j] sin(2 j zeta),         z1 = 1 - sum_j 2 j bet[j] cos(2 j zeta)

(sin and cos of the complex multiples built from the addition theorems), and Forward returns
x = a1 k0 Im(y1) lonsign, y = a1 k0 (Re(y1) or pi - Re(y1) on the back side) latsign.
"""
from fractions import Fraction

from ..core import RuleResult
from ..build import AnalysisBroken
from ..sympoly import SymEval, Poly, Cx, Unsupported

NS = 'GeographicLib::'


def _reduce(p, c0, s0, ch0, sh0):
    """c0^2 -> 1 - s0^2, ch0^2 -> 1 + sh0^2"""
    changed = True
    while changed:
        changed = False
        for sym, repl in ((c0, Poly.const(1) - Poly.sym(s0) * Poly.sym(s0)), (ch0, Poly.const(1) + Poly.sym(sh0) * Poly.sym(sh0))):
            out = Poly()
            for k, v in p.t.items():
                d = dict(k)
                e = d.get(sym, 0)
                if e >= 2:
                    changed = True
                    d[sym] = e - 2
                    if not d[sym]:
                        del d[sym]
                    out = out + Poly({tuple(sorted(d.items())): v}) * repl
                else:
                    out = out + Poly({k: v})
            p = out
    return p


def _local(p, name):
    for key, v in p.env.items():
        if key[0] == 'v' and len(key) == 2 and key[1].split('@')[0] == name:
            return v
    return None


def rule_TMC(ctx):
    res = RuleResult('TMC', 'Krueger series by complex Clenshaw summation: on every path of TransverseMercator::Forward/Reverse '
                            'the complex accumulators equal zeta +- sum coeff[j] sin(2 j zeta) and 1 +- sum 2 j coeff[j] '
                            'cos(2 j zeta) (polynomial identity modulo the circular and hyperbolic unit relations), and Forward '
                            'scales and signs them into x and y')
    npaths = 0
    for fname, coef, sign, re_name, im_name in (('Forward', '_alp', 1, 'xip', 'etap'), ('Reverse', '_bet', -1, 'xi', 'eta')):
        fs = [g for g in ctx.prog.fns.values() if g.q == NS + 'TransverseMercator::' + fname and g.d.get('body', -1) >= 0 and len(g.params) == 7]
        if not fs:
            raise AnalysisBroken('TMC: TransverseMercator::%s not found' % fname)
        f = fs[0]
        try:
            paths = [p for p in SymEval(ctx.prog, inline=set(), max_paths=4000).explore(f) if p.outcome == 'return']
        except Unsupported as e:
            raise AnalysisBroken('TMC: %s not evaluated: %s' % (f.q, e))
        series = [p for p in paths if isinstance(_local(p, 'y1'), Cx) and isinstance(_local(p, 'z1'), Cx)]
        if len(series) < 2:
            raise AnalysisBroken('TMC: %s: %d paths reach the series' % (f.q, len(series)))
        for p in series:
            npaths += 1
            names = {}
            vals = {}
            for nm in ('c0', 's0', 'ch0', 'sh0'):
                v = _local(p, nm)
                if not isinstance(v, Poly) or len(v.t) != 1 or len(v.symbols()) != 1:
                    raise AnalysisBroken('TMC: %s is not a single symbol on a path of %s' % (nm, f.q))
                names[nm] = next(iter(v.symbols()))
                vals[nm] = v          # may carry a sign: sin(-z) is written -sin(z)
            c0, s0, ch0, sh0 = [vals[k] for k in ('c0', 's0', 'ch0', 'sh0')]
            zre, zim = _local(p, re_name), _local(p, im_name)
            y1, z1 = _local(p, 'y1'), _local(p, 'z1')
            idx = sorted({int(s.split('[')[1][:-1]) for s in (y1.re.symbols() | y1.im.symbols() | z1.re.symbols()) if s.startswith(coef + '[')})
            if not idx or idx != list(range(1, idx[-1] + 1)):
                raise AnalysisBroken('TMC: coefficients %s found in %s: %s' % (coef, f.q, idx))
            N = idx[-1]
            S1, C1 = Cx(s0 * ch0, c0 * sh0), Cx(c0 * ch0, -(s0 * sh0))
            S, C = [Cx(Poly(), Poly()), S1], [Cx(Poly.const(1), Poly()), C1]
            for j in range(2, N + 1):
                S.append(S[-1] * C1 + C[-1] * S1)
                C.append(C[-1] * C1 - S[j - 1] * S1)
            ey, ez = Cx(zre, zim), Cx(Poly.const(1), Poly())
            for j in range(1, N + 1):
                a = Poly.sym('%s[%d]' % (coef, j)).scale(sign)
                ey = ey + S[j] * a
                ez = ez + C[j] * a.scale(2 * j)
            R = lambda q: _reduce(q, names['c0'], names['s0'], names['ch0'], names['sh0'])
            bad = None
            for what, got, exp in (('Re y1', y1.re, ey.re), ('Im y1', y1.im, ey.im), ('Re z1', z1.re, ez.re), ('Im z1', z1.im, ez.im)):
                d = R(got - exp)
                if not d.is_zero() and bad is None:
                    bad = '%s differs from the series by %s' % (what, d.show()[:160])
            if fname == 'Forward' and bad is None:
                x, y = [p.env.get(('v', pp['d'])) for pp in f.params if pp['name'] in ('x', 'y')]
                a1k0 = Poly.sym('_a1') * Poly.sym('_k0')
                okx = any((x - (a1k0 * y1.im).scale(sg)).is_zero() for sg in (1, -1))
                pi = [s for s in y.symbols() if s.startswith('pi(')]
                oky = any((y - (a1k0 * y1.re).scale(sg)).is_zero() for sg in (1, -1)) or \
                    (len(pi) == 1 and any((y - (a1k0 * (Poly.sym(pi[0]) - y1.re)).scale(sg)).is_zero() for sg in (1, -1)))
                if not (okx and oky):
                    bad = 'x, y are not +-a1 k0 Im(y1), +-a1 k0 (Re(y1) | pi - Re(y1))'
            res.ob(bad is None, {'fn': f.q, 'order': N} if (bad or npaths % 8 == 1) else None)
            if bad:
                res.fail(f.q, 'series', f.loc(), '%s (order %d): %s' % (f.q, N, bad))
    res.analysed.update({'paths_through_the_series': npaths})
    return res, npaths
