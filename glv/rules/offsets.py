"""OFFS: UTMUPS adds in Forward exactly the false origin it removes in Reverse.

UTMUPS::Forward projects with TransverseMercator::UTM() or PolarStereographic::UPS() and adds
falseeasting_[ind], falsenorthing_[ind]; Reverse subtracts them before unprojecting.  Both are evaluated
symbolically (sympoly) with the projections uninterpreted: on every returning path the offset of x and of y is a
single table entry with the same index, the index is the same function of (projection, hemisphere) in both
directions and distinct for the four combinations, the polar projection receives the hemisphere flag, and the
transverse projection the central meridian of the zone in both directions.
"""
import re

from ..core import RuleResult
from ..build import AnalysisBroken
from ..sympoly import SymEval, Poly, Unsupported

NS = 'GeographicLib::'


def _fn(ctx, q, n):
    c = [f for f in ctx.prog.fns.values() if f.q == q and f.d.get('body', -1) >= 0 and len(f.params) == n]
    if not c:
        raise AnalysisBroken('OFFS: %s with %d parameters not found' % (q, n))
    return sorted(c, key=lambda f: (f.file, f.line))[0]


def _entry(p, table):
    """index k if p is exactly the symbol <table>[k]"""
    m = re.fullmatch(re.escape(table) + r'\[(\d+)\]', p.show())
    return int(m.group(1)) if m else None


def rule_OFFS(ctx):
    res = RuleResult('OFFS', 'false origins: UTMUPS::Forward adds falseeasting_[i], falsenorthing_[i] to what the projection '
                             'returns and Reverse subtracts the same entries before unprojecting; i is the same function of '
                             '(projection, hemisphere) in both directions and distinct for the four combinations')
    fw, rv = _fn(ctx, NS + 'UTMUPS::Forward', 10), _fn(ctx, NS + 'UTMUPS::Reverse', 9)
    try:
        e1, e2 = SymEval(ctx.prog, inline=set(), max_paths=4000), SymEval(ctx.prog, inline=set(), max_paths=4000)
        e1.inline_free = e2.inline_free = True      # file-local helpers (an extracted index function) are followed
        pf = [p for p in e1.explore(fw) if p.outcome == 'return']
        pr = [p for p in e2.explore(rv) if p.outcome == 'return']
    except Unsupported as e:
        raise AnalysisBroken('OFFS: not evaluated: %s' % e)
    fmap, rmap = {}, {}
    npaths = 0

    def par(f, name):
        return [pp['d'] for pp in f.params if pp['name'] == name][0]
    for p in pf:
        calls = [c for c in p.calls if c[0] in (NS + 'TransverseMercator::Forward', NS + 'PolarStereographic::Forward')]
        if not calls:
            continue
        npaths += 1
        q, vals, tag = calls[-1]
        proj = 'TM' if 'Transverse' in q else 'PS'
        x, y, north = p.env.get(('v', par(fw, 'x'))), p.env.get(('v', par(fw, 'y'))), p.env.get(('v', par(fw, 'northp')))
        bad = None
        if x is None or y is None or north is None or not north.is_const():
            bad = 'outputs not determined'
        else:
            h = int(north.const_value())
            kx = _entry(x - Poly.sym(tag + '.out3'), 'falseeasting_')
            ky = _entry(y - Poly.sym(tag + '.out4'), 'falsenorthing_')
            if kx is None or ky is None or kx != ky:
                bad = 'x = %s, y = %s: not projection result + one table entry of the same index' % (x.show()[:70], y.show()[:70])
            elif proj == 'PS' and not (vals[0].is_const() and int(vals[0].const_value()) == h):
                bad = 'the polar projection is given hemisphere %s but northp is returned as %d' % (vals[0].show(), h)
            elif proj == 'TM' and not vals[0].show().startswith('CentralMeridian('):
                bad = 'the transverse projection is not given CentralMeridian(zone)'
            else:
                if fmap.setdefault((proj, h), kx) != kx:
                    bad = 'index %d on this path, %d on another path of the same projection and hemisphere' % (kx, fmap[(proj, h)])
        res.ob(bad is None, {'direction': 'Forward', 'projection': proj, 'calls': q} if bad else None)
        if bad:
            res.fail(fw.q, 'offset', fw.loc(), 'UTMUPS::Forward: ' + bad)
    for p in pr:
        calls = [c for c in p.calls if c[0] in (NS + 'TransverseMercator::Reverse', NS + 'PolarStereographic::Reverse')]
        if not calls:
            continue
        npaths += 1
        q, vals, tag = calls[-1]
        proj = 'TM' if 'Transverse' in q else 'PS'
        h = None
        for e in p.eqs:
            if e.show() == 'northp':
                h = 0
            if e.show() == '-1 + northp':
                h = 1
        bad = None
        if h is None or len(vals) < 3:
            bad = 'hemisphere not decided on the path'
        else:
            kx = _entry(Poly.sym('x') - vals[1], 'falseeasting_')
            ky = _entry(Poly.sym('y') - vals[2], 'falsenorthing_')
            if kx is None or ky is None or kx != ky:
                bad = 'the projection is given (%s, %s): not x, y minus one table entry of the same index' % (vals[1].show()[:60], vals[2].show()[:60])
            elif proj == 'PS' and vals[0].show() != 'northp':
                bad = 'the polar projection is given %s, not northp' % vals[0].show()
            elif proj == 'TM' and vals[0].show() != 'CentralMeridian(zone)':
                bad = 'the transverse projection is given %s, not CentralMeridian(zone)' % vals[0].show()
            elif rmap.setdefault((proj, h), kx) != kx:
                bad = 'index %d on this path, %d on another' % (kx, rmap[(proj, h)])
        res.ob(bad is None, None)
        if bad:
            res.fail(rv.q, 'offset', rv.loc(), 'UTMUPS::Reverse: ' + bad)
    combos = {('TM', 0), ('TM', 1), ('PS', 0), ('PS', 1)}
    if res.findings:
        res.analysed.update({'paths_with_projection': npaths})
        return res, npaths
    if set(fmap) != combos or set(rmap) != combos:
        raise AnalysisBroken('OFFS: projection/hemisphere combinations seen: Forward %s, Reverse %s' % (sorted(fmap), sorted(rmap)))
    ok = fmap == rmap
    res.ob(ok, {'forward_index': {str(k): v for k, v in sorted(fmap.items())}, 'reverse_index': {str(k): v for k, v in sorted(rmap.items())}})
    if not ok:
        res.fail(fw.q, 'index', fw.loc(), 'Forward indexes the false-origin tables with %s, Reverse with %s' % (sorted(fmap.items()), sorted(rmap.items())))
    inj = len(set(fmap.values())) == 4
    res.ob(inj, None)
    if not inj:
        res.fail(fw.q, 'index', fw.loc(), 'the four projection/hemisphere combinations do not get four distinct table entries: %s' % sorted(fmap.items()))
    res.analysed.update({'paths_with_projection': npaths})
    return res, npaths


def rule_LON0(ctx, classes=('TransverseMercator', 'TransverseMercatorExact', 'LambertConformalConic', 'AlbersEqualArea')):
    """the central meridian enters Forward only through AngDiff(lon0, lon) and Reverse only through the final
    AngNormalize(<longitude difference> + lon0)."""
    res = RuleResult('LON0', 'central meridian: in Forward(lon0, lat, lon, ..) every dependence on lon0 goes through '
                             'Math::AngDiff(lon0, lon); in Reverse(lon0, x, y, ..) the returned longitude is '
                             'AngNormalize(d + lon0) (or + AngNormalize(lon0)) with d independent of lon0 - signs and folds are '
                             'applied to the difference, never to the sum')
    nfn = 0
    for cls in classes:
        for f in sorted((g for g in ctx.prog.fns.values() if g.q in (NS + cls + '::Forward', NS + cls + '::Reverse') and
                         g.d.get('body', -1) >= 0 and len(g.params) == 7), key=lambda g: (g.file, g.line)):
            try:
                paths = [p for p in SymEval(ctx.prog, inline=set(), max_paths=6000).explore(f) if p.outcome == 'return']
            except Unsupported as e:
                raise AnalysisBroken('LON0: %s not evaluated: %s' % (f.q, e))
            nfn += 1
            bad = None
            nchk = 0
            for p in paths:
                outs = {pp['name']: p.env.get(('v', pp['d'])) for pp in f.params if pp['pk'] == 'r'}
                deleg = [c for c in p.calls if c[0].endswith('::' + f.name) and c[1] and c[1][0].show() == 'lon0']
                if deleg and all(isinstance(o, Poly) and o.show().startswith(deleg[-1][2] + '.out') for o in outs.values()):
                    continue          # the whole call is delegated to another projection object with the same lon0
                if f.name == 'Forward':
                    for nm, v in outs.items():
                        if not isinstance(v, Poly):
                            continue
                        t = v.show().replace('AngDiff(lon0, lon)', '')
                        nchk += 1
                        if 'lon0' in t:
                            bad = bad or 'output %s depends on lon0 other than through AngDiff(lon0, lon): %s' % (nm, v.show()[:120])
                else:
                    v = outs.get('lon')
                    if not isinstance(v, Poly):
                        continue
                    if 'lon0' not in v.show():
                        if any('lon0' in (o.show() if isinstance(o, Poly) else '') for o in outs.values()):
                            bad = bad or 'lon0 reaches an output other than lon'
                        continue             # a delegated or NaN path
                    nchk += 1
                    call = [c for c in p.calls if c[2] == v.show() and c[0].endswith('Math::AngNormalize')]
                    ok = False
                    if call:
                        arg = call[-1][1][0]
                        for base in (Poly.sym('lon0'), Poly.sym('AngNormalize(lon0)')):
                            d = arg - base
                            if 'lon0' not in d.show():
                                ok = True
                    if not ok:
                        bad = bad or 'the returned longitude is %s, not AngNormalize(d + lon0) with d independent of lon0' % v.show()[:140]
                    for nm, o in outs.items():
                        if nm != 'lon' and isinstance(o, Poly) and 'lon0' in o.show():
                            bad = bad or 'output %s depends on lon0' % nm
            if not nchk:
                raise AnalysisBroken('LON0: %s: no path uses lon0' % f.q)
            res.ob(bad is None, {'fn': f.q, 'paths': len(paths), 'checks': nchk})
            if bad:
                res.fail(f.q, 'lon0', f.loc(), '%s: %s' % (f.q, bad))
    res.analysed['functions'] = nfn
    return res, nfn
