"""LIC-based rules: M3 (capability licence), L1 (exact delegation), L2 (Init sentinel),
M4-clients (requested >= consumed), M5 (line-caps typestate)."""
from ..build import AnalysisBroken
from ..core import RuleResult
from ..flow import Flow, BV, TRUE, FALSE, NBITS, var_key
from ..flow import ASSIGN_OPS
from ..lic import Lic, Axioms, NoAxioms, is_scalar_t, d_or, d_and, DECL, DECL_TRUE
from . import mask as M

NS = 'GeographicLib::'


class LicCtx:
    def __init__(self, ctx):
        self.ctx = ctx
        self.mc = M.get_maskctx(ctx)
        self.gated = {}
        for f, cls, mp, outs in self.mc.gated:
            self.gated[f.usr] = (f, cls, mp, {j: M.out_bit(ctx, cls, M.PARAM_ENUM[f.params[j]['name']]) for j in outs})
        self._wrappers()
        self.obj = {}
        self.flows = {}
        self.entry_facts = {}
        self.member_writes = {}
        self._member_writes()

    # -------------------------------------------------------------- wrappers (forwarding overloads)
    def _wrappers(self):
        """inline overloads forwarding to a gated function with a constant mask become gated themselves."""
        ctx = self.ctx
        for _ in range(2):
            add = {}
            for f in ctx.lib_fns():
                if f.usr in self.gated:
                    continue
                refs = {i for i, p in enumerate(f.params) if p['pk'] == 'r' and p.get('float')}
                if not refs:
                    continue
                calls = [(i, n) for i, n in f.all_nodes() if n.get('callee') and n['callee'].get('usr') in self.gated]
                if len(calls) != 1:
                    continue
                i, n = calls[0]
                g = self.gated[n['callee']['usr']]
                args = n.get('args', [])
                fl = self.mc.flow(f)
                if g[2] is None:
                    continue
                if g[2] >= len(args):
                    continue
                bv = fl.eval_bv(args[g[2]], fl.env_at(i))
                outs = {}
                ok = True
                for j, bit in g[3].items():
                    if j >= len(args):
                        continue
                    an = f.nodes[f.strip(args[j])]
                    if an['k'] == 'DeclRefExpr' and an.get('rk') == 'param' and an.get('pidx') in refs:
                        c = bv.bits[bit]
                        if c not in (TRUE, FALSE):
                            ok = False
                        outs[an['pidx']] = (bit, c == TRUE)
                # the wrapper must not write its outputs any other way
                for kind, nid, path, extra in ctx.summaries.events[f.usr]:
                    if kind in ('store', 'mcall') and path is not None and path.root[0] == 'param' and path.root[1] in refs:
                        ok = False
                if ok and outs:
                    add[f.usr] = (f, g[1], None, {pi: b for pi, (b, req) in outs.items()}, {pi: req for pi, (b, req) in outs.items()})
            for u, v in add.items():
                self.gated[u] = v

    # -------------------------------------------------------------- member write sets
    def _member_writes(self):
        S = self.ctx.summaries
        prog = self.ctx.prog
        direct = {}
        thiscalls = {}
        for f in prog.fns.values():
            if not f.is_method:
                continue
            w = set()
            for kind, nid, path, extra in S.events[f.usr]:
                if path is None or path.root != ('this',):
                    continue
                if kind in ('store', 'mcall', 'argout'):
                    for s in path.steps:
                        if s[0] == 'field':
                            w.add(s[2])
                            break
                if kind in ('mcall', 'ccall') and not path.steps:
                    thiscalls.setdefault(f.usr, set()).add(extra.get('usr'))
            direct[f.usr] = w
        changed = True
        mw = {u: set(w) for u, w in direct.items()}
        while changed:
            changed = False
            for u, cs in thiscalls.items():
                for c in cs:
                    if c in mw and not mw[c] <= mw[u]:
                        mw[u] |= mw[c]
                        changed = True
        self.member_writes = mw
        from .. import flow as _flow
        _flow.MEMBER_WRITES.update(mw)

    # -------------------------------------------------------------- object initialisation conditions
    def members(self, cls):
        rec = self.ctx.prog.record(cls)
        if rec is None:
            raise AnalysisBroken('anchor vanished: class ' + cls)
        out = []
        for f in rec['fields']:
            if is_scalar_t(f['t']):
                out.append(f['name'])
            elif f.get('rec', '').startswith(NS) and f['pk'] == 'v':
                # member objects of library classes (may be built by a private do-nothing constructor)
                out.append(f['name'])
        return out

    def flow(self, f, entry=None):
        key = (f.usr, entry)
        fl = self.flows.get(key)
        if fl is None:
            env = {}
            mcf = self.mc.flows.get(f.usr)
            if f.usr in self.mc.by_usr and f.usr in self.mc.entry_zero and mcf is not None and entry is None:
                return mcf
            if f.usr in self.mc.by_usr and f.usr in self.mc.entry_zero:
                mcf = self.mc.flow(f)
                env = mcf.entry_env
            fl = Flow(f, entry_facts=entry, entry_env=env)
            self.flows[key] = fl
        return fl

    def predicates(self, cls):
        """parameterless const bool methods with a single return statement (Init() ...)."""
        out = []
        for f in self.ctx.prog.fns.values():
            if f.cls == cls and f.is_const and not f.params and f.d.get('ret') == 'bool' and f.cfg:
                rets = [i for i, n in f.all_nodes() if n['k'] == 'ReturnStmt']
                if len(rets) == 1 and len(f.nodes) < 30:
                    out.append((f, rets[0]))
        return out

    def init_summary(self, f, cls, depth=0):
        """exit uninit-conditions of the members of cls after running initialising function f,
        expressed over this-atoms."""
        key = ('init', f.usr)
        if key in self.obj:
            return self.obj[key]
        self.obj[key] = None
        mem = self.members(cls)
        rec = self.ctx.prog.record(cls)
        scal = {fd['name'] for fd in rec['fields'] if is_scalar_t(fd['t'])}
        mw = self.member_writes.get(f.usr, set())
        fl = self.flow(f)
        # summaries of init-like callees on this
        callee_sum = {}
        for i, n in f.all_nodes():
            ce = n.get('callee')
            if ce and n.get('ckind') == 'member' and n.get('objthis') and not ce.get('mconst') and depth < 3:
                cf = self.ctx.prog.fns.get(ce.get('usr'))
                if cf is not None and cf.cls == cls and self.member_writes.get(cf.usr):
                    s = self.init_summary(cf, cls, depth + 1)
                    if s is not None:
                        callee_sum[cf.usr] = s
        lic = InitLic(self.ctx, f, fl, gated=self.gated, ax=self.axioms(cls),
                      entry_U={'this.' + m: (DECL_TRUE if (m in scal and (f.is_ctor or m in mw)) else FALSE) for m in mem},
                      init_mode=True,
                      member_writes=self.member_writes, callee_sum=callee_sum)
        # translate exit states
        exit_b = f.cfg['exit']
        env = fl.env_in.get(exit_b, {})
        amap = {}
        consts = {}
        for vk, bv in env.items():
            if not vk.startswith('this.'):
                continue
            for k in range(16):
                b = bv.bits[k]
                if len(b) == 1:
                    c = next(iter(b))
                    if len(c) == 1:
                        (a, pol), = c
                        if pol and a.startswith('b:in:'):
                            amap[a] = 'b:%s:%d' % (vk, k)
        # predicate literals at exit
        plits = set()
        menv = {vk: bv for vk, bv in env.items() if vk.startswith('this.')}
        for pf, ret in self.predicates(cls):
            pfl = Flow(pf, member_env=menv)
            pos, neg = pfl.cond2(pf.nodes[ret]['val'], dict(menv))
            atom = '%s(this)' % pf.q
            if pos == FALSE:
                plits.add((atom, False))
            elif neg == FALSE:
                plits.add((atom, True))
        out = {}
        for m in mem:
            u = FALSE
            for b, st in lic.exit_states:
                uu = st.get('this.' + m, DECL_TRUE if m in scal else FALSE)
                if uu == FALSE:
                    continue
                # conjoin the stable facts that hold at this exit
                alts = fl.facts_in.get(b)
                if not alts:
                    continue
                fa = frozenset(frozenset(l for l in a if l[0].startswith('this.') and '(' not in l[0]) for a in alts)
                from ..lic import merge_complementary
                fa = merge_complementary(fa)
                uu2 = d_and(uu, fa) if frozenset() not in fa else uu
                u = d_or(u, uu2)
            # rewrite atoms
            conjs = set()
            for c in u:
                z = set()
                for a, pol in c:
                    if (a, pol) == DECL:
                        continue
                    if a in amap:
                        z.add((amap[a], pol))
                    elif a.startswith('this.') or a.startswith('b:this.') or a.endswith('(this)'):
                        z.add((a, pol))
                    # other atoms (parameters, locals) are existentially dropped
                z |= plits
                conjs.add(frozenset(z))
            out[m] = frozenset(conjs)
        self.obj[key] = (out, lic)
        return self.obj[key]

    def axioms(self, cls):
        ev = self.ctx.prog.enum_values(cls)
        if not ev:
            short = cls.replace(NS, '')
            # clients use the enumerators of the solver they talk to
            ev = self.ctx.prog.enum_values(NS + 'Geodesic')
        return Axioms(ev)

    def object_U(self, cls):
        key = ('obj', cls)
        if key in self.obj:
            return self.obj[key]
        mem = self.members(cls)
        # private constructors build objects only friends can see; the friend is responsible for them
        # (member-object licence), so the object state quantifies over the non-private ones
        ctors = [f for f in self.ctx.prog.fns.values()
                 if f.cls == cls and f.is_ctor and not f.d.get('implicit') and f.cfg and
                 (f.access != 'private' or self.member_writes.get(f.usr) or
                  any(i.get('written') for i in f.d.get('inits', [])))]
        if not ctors:
            raise AnalysisBroken('no constructor bodies for ' + cls)
        U = {m: FALSE for m in mem}
        per = {}
        for k in ctors:
            s = self.init_summary(k, cls)
            if s is None:
                continue
            su, lic = s
            per[k.usr] = su
            for m in mem:
                U[m] = d_or(U[m], su.get(m, FALSE))
        self.obj[key] = (U, per)
        return self.obj[key]


class InitLic(Lic):
    """Lic for constructors / init methods: this-calls to other init methods apply their summary."""

    def __init__(self, *a, callee_sum=None, **kw):
        self.callee_sum = callee_sum or {}
        super().__init__(*a, **kw)

    def transfer_call(self, e, n, st, check):
        ce = n.get('callee') or {}
        cu = ce.get('usr')
        if n.get('ckind') == 'member' and n.get('objthis') and cu in self.callee_sum:
            su, _ = self.callee_sum[cu]
            for m, u in su.items():
                if m not in self.member_writes.get(cu, ()):
                    continue       # the helper does not touch this member
                key = 'this.' + m
                st[key] = d_and(st.get(key, DECL_TRUE), u) if u != FALSE else FALSE
            return
        super().transfer_call(e, n, st, check)


def get_licctx(ctx):
    if not hasattr(ctx, '_licctx'):
        ctx._licctx = LicCtx(ctx)
    return ctx._licctx


# ------------------------------------------------------------------ entry facts of private functions
def entry_facts(lc, cls_list):
    """must-facts (on this-atoms) at the call sites of non-public methods, mapped into the callee."""
    ctx = lc.ctx
    prog = ctx.prog
    targets = {f.usr: f for f in ctx.lib_fns()
               if f.is_method and f.cls in cls_list and f.access == 'private' and not f.is_ctor and f.cfg}
    facts = {u: None for u in targets}
    for rnd in range(3):
        new = {u: None for u in targets}
        for f in ctx.lib_fns():
            if not f.cfg:
                continue
            sites = [(i, n) for i, n in f.all_nodes() if n.get('callee') and n['callee'].get('usr') in targets]
            if not sites:
                continue
            ef = facts.get(f.usr)
            fl = lc.flow(f, ef)
            for i, n in sites:
                cu = n['callee']['usr']
                mf = fl.must_facts(i)
                if mf is None:
                    continue      # unreachable call site
                lits = set()
                if n.get('objthis') or (n.get('ckind') != 'member'):
                    for a, pol in mf:
                        if (a.startswith('this.') and '(' not in a) or a.endswith('(this)'):
                            lits.add((a, pol))
                elif 'obj' in n:
                    ok = var_key(f, n['obj'])
                    c = fl.canon.of(n['obj'])
                    if c is not None:
                        pre = c[0] + '.'
                        for a, pol in mf:
                            if a.startswith(pre) and '(' not in a:
                                lits.add(('this.' + a[len(pre):], pol))
                lits = frozenset(lits)
                new[cu] = lits if new[cu] is None else (new[cu] & lits)
        nf = {u: (frozenset([v]) if v else None) for u, v in new.items()}
        if nf == facts:
            break
        facts = nf
    return facts


# ------------------------------------------------------------------ rules
LIC_CLASSES = [NS + c for c in ('Geodesic', 'GeodesicLine', 'GeodesicExact', 'GeodesicLineExact',
                                'TransverseMercator', 'Rhumb', 'RhumbLine')]


def run_class(ctx, cls, res, only_fns=None):
    lc = get_licctx(ctx)
    U, per = lc.object_U(cls)
    ef = getattr(lc, '_ef', None)
    if ef is None:
        ef = lc._ef = entry_facts(lc, set(LIC_CLASSES))
    ax = lc.axioms(cls)
    nfun = 0
    for f in sorted(ctx.lib_fns(), key=lambda x: (x.file, x.line)):
        if f.cls != cls or not f.cfg or f.is_ctor or f.is_dtor or f.d.get('implicit'):
            continue
        if only_fns and f.name not in only_fns:
            continue
        if ('init', f.usr) in lc.obj:
            continue      # initialising methods are analysed in init mode
        nfun += 1
        fl = lc.flow(f, ef.get(f.usr))
        member_U = {'this.' + m: u for m, u in U.items()}
        lic = Lic(ctx, f, fl, member_U=member_U, gated=lc.gated, ax=ax, member_writes=lc.member_writes,
                  stale_zero=False)
        res.obligations += lic.nsinks
        res.discharged += lic.nsinks - len({(e, w) for e, w, _, _ in lic.reports})
        seen = set()
        for e, what, vu, wit in lic.reports:
            who = _culprits(f, lic, e, vu, member_U)
            key = (f.q, who)
            if key in seen:
                continue
            seen.add(key)
            res.fail(f.q, who, f.loc(e),
                     'a value initialised only under a condition reaches a %s on a path where that condition is not '
                     'established: %s (uninitialised when %s; path facts %s)'
                     % (what, who, _show(vu), _showl(wit)))
        if len(res.samples) < 6 and lic.nsinks:
            res.samples.append({'fn': f.q, 'sinks': lic.nsinks, 'conditional_reads': lic.nreads,
                                'entry_facts': sorted(map(list, next(iter(ef.get(f.usr) or [frozenset()]))))})
    return nfun


def _show(d):
    if d == TRUE:
        return 'always'
    return ' | '.join('&'.join(('' if p else '!') + a for a, p in sorted(c)) for c in list(d)[:3])


def _showl(w):
    return '&'.join(('' if p else '!') + a for a, p in w if not a.startswith('(') and not a.startswith('eq:'))[:200]


def _culprits(f, lic, e, vu, member_U):
    """names of the conditionally initialised cells read at (or feeding) the sink."""
    names = []
    for j in f.walk(e):
        n = f.nodes[j]
        if n['k'] == 'MemberExpr' and n.get('thisbase') and member_U.get('this.' + n['m'], FALSE) != FALSE:
            names.append(n['m'])
        elif n['k'] == 'DeclRefExpr' and n.get('rk') == 'local':
            names.append(n['name'])
    names = sorted(set(names))
    return ','.join(names[:4]) if names else 'value'


def _reads_member(f, e):
    return any(f.nodes[j]['k'] == 'MemberExpr' and f.nodes[j].get('thisbase') for j in f.walk(e))


def rule_objstate(ctx, classes, rule, title, only_fns=None):
    res = RuleResult(rule, title)
    lc = get_licctx(ctx)
    nfun = 0
    for cls in classes:
        U, per = lc.object_U(cls)
        cond = {m: _show(u) for m, u in U.items() if u != FALSE}
        res.analysed.setdefault('conditionally_initialised_members', {})[cls.replace(NS, '')] = cond
        nfun += run_class(ctx, cls, res, only_fns)
        # the initialising functions themselves (sinks inside LineInit / constructors)
        for key, val in list(lc.obj.items()):
            if key[0] == 'init' and val is not None:
                su, lic = val
                if lic.fn.cls != cls:
                    continue
                res.obligations += lic.nsinks
                res.discharged += lic.nsinks - len(lic.reports)
                for e, what, vu, wit in lic.reports:
                    if not lic.fn.is_ctor and _reads_member(lic.fn, e):
                        continue     # entry state of a helper is the caller's business
                    res.fail(lic.fn.q, _culprits(lic.fn, lic, e, vu, {}), lic.fn.loc(e),
                             'in an initialising function a conditionally initialised value reaches a %s (uninitialised when %s)'
                             % (what, _show(vu)))
    res.analysed['functions_analysed'] = nfun
    res.assumptions.append('A-ENUM-UNION: mask / capability arguments are unions of the enumerators (documented API contract)')
    return res, nfun


# ------------------------------------------------------------------ clients: M4 (requested >= consumed), M5 (line caps)
LINE_TYPES = ('GeographicLib::GeodesicLine', 'GeographicLib::GeodesicLineExact', 'GeographicLib::RhumbLine')


def _forced_caps(ctx, cls):
    """BV transformer of LineInit: _caps as a function of the caps argument (forced bits)."""
    fs = ctx.prog.fn(cls + '::LineInit')
    if not fs:
        return None
    f = fs[0]
    fl = Flow(f)
    return fl.env_in.get(f.cfg['exit'], {}).get('this._caps')


def _caps_of_call(ctx, f, fl, nid, depth=0):
    """BV of the capabilities of the line object produced by expression nid (or None)."""
    for j in f.walk(nid):
        n = f.nodes[j]
        ce = n.get('callee')
        if not ce or not ce.get('inrepo'):
            continue
        pn = ce.get('pn', [])
        if 'caps' in pn and len(n.get('args', [])) > pn.index('caps'):
            a = n['args'][pn.index('caps')]
            bv = fl.eval_bv(a, fl.env_at(j))
            # default argument (CXXDefaultArgExpr): evaluated by clang -> cv on the node
            rcls = None
            t = n.get('t', '')
            for lt in LINE_TYPES:
                if lt in t or ce.get('cls') == lt:
                    rcls = lt
            forced = _forced_caps(ctx, rcls or LINE_TYPES[0])
            if forced is not None:
                add = BV([forced.bits[k] if forced.bits[k] == TRUE else FALSE for k in range(NBITS)])
                bv = bv.bor(add)
            return bv
    return None


def line_caps_of(ctx, f, fl, cls_members):
    caps = dict(cls_members)
    for i, n in f.all_nodes():
        if n['k'] == 'DeclStmt':
            for d in n['decls']:
                if any(lt in d['t'] for lt in LINE_TYPES) and d.get('pk') == 'v' and d.get('init', -1) >= 0:
                    bv = _caps_of_call(ctx, f, fl, d['init'])
                    if bv is not None:
                        caps['v:' + d['d']] = bv
    return caps


def member_line_caps(ctx, cls):
    """'this.m' -> BV for line-typed members assigned at exactly one site in the class."""
    rec = ctx.prog.record(cls)
    if rec is None:
        return {}
    lines = [fd['name'] for fd in rec['fields'] if any(lt == fd.get('rec') for lt in LINE_TYPES)]
    out = {}
    for m in lines:
        sites = []
        for f in ctx.lib_fns():
            if f.cls != cls or not f.cfg:
                continue
            for i, n in f.all_nodes():
                tgt = None
                if n['k'] == 'CXXOperatorCallExpr' and n.get('op') == '=' and n.get('args'):
                    tgt = (n['args'][0], n['args'][1])
                elif n['k'] == 'BinaryOperator' and n.get('op') == '=':
                    tgt = (n['ch'][0], n['ch'][1])
                if tgt:
                    ln = f.nodes[f.strip(tgt[0])]
                    if ln['k'] == 'MemberExpr' and ln.get('thisbase') and ln.get('m') == m:
                        sites.append((f, tgt[1]))
            for it in f.d.get('inits', []):
                if it.get('kind') == 'member' and it.get('m') == m and it.get('written') and it['init'] >= 0:
                    sites.append((f, it['init']))
        bvs = []
        for f, rhs in sites:
            bv = _caps_of_call(ctx, f, Flow(f), rhs)
            if bv is not None:
                bvs.append(bv)
        if bvs and len(bvs) == len(sites) and all(b == bvs[0] for b in bvs):
            out['this.' + m] = bvs[0]
    return out


def rule_clients(ctx, classes, rule='M4c', title=None):
    res = RuleResult(rule, title or 'requested >= consumed in the clients of the solvers, and line-caps typestate: every '
                                    'output of a solver / line call that is consumed was requested by the mask passed and, '
                                    'for lines built in place, lies within the capabilities the line was constructed with')
    lc = get_licctx(ctx)
    nfun = 0
    ncalls = 0
    for cls in classes:
        mcaps = member_line_caps(ctx, cls)
        res.analysed.setdefault('member_lines', {})[cls.replace(NS, '')] = {k: v.show() for k, v in mcaps.items()}
        for f in sorted(ctx.lib_fns(), key=lambda x: (x.file, x.line)):
            if f.cls != cls or not f.cfg or f.d.get('implicit'):
                continue
            calls = [n for i, n in f.all_nodes() if n.get('callee') and n['callee'].get('usr') in lc.gated]
            if not calls:
                continue
            nfun += 1
            ncalls += len(calls)
            fl = lc.flow(f, None)
            caps = line_caps_of(ctx, f, fl, mcaps)
            lic = Lic(ctx, f, fl, gated=lc.gated, ax=lc.axioms(NS + 'Geodesic'), line_caps=caps,
                      member_writes=lc.member_writes, init_mode=f.is_ctor)
            res.obligations += lic.nsinks
            res.discharged += lic.nsinks - len({e for e, w, _, _ in lic.reports})
            seen = set()
            for e, what, vu, wit in lic.reports:
                who = _culprits(f, lic, e, vu, {})
                if who in seen:
                    continue
                seen.add(who)
                from .. import tables as T
                if all((f.q, w) in T.LIC_AUDITED for w in who.split(',')):
                    res.note('audited: %s in %s: %s' % (who, f.q, T.LIC_AUDITED[(f.q, who.split(',')[0])]))
                    res.discharged += 1
                    continue
                res.fail(f.q, who, f.loc(e), '%s consumes %s (%s) although the solver/line call that should produce it '
                         'does not request it, or the line lacks the capability (not produced when %s)'
                         % (f.q, who, what, _show(frozenset(c - {DECL} for c in vu))))
            if len(res.samples) < 6:
                res.samples.append({'fn': f.q, 'solver_calls': len(calls), 'sinks': lic.nsinks,
                                    'lines_with_known_caps': {k: v.show() for k, v in caps.items()}})
    res.analysed['client_functions'] = nfun
    res.analysed['solver_call_sites'] = ncalls
    res.assumptions.append('A-CAPS-PARAM: lines received as parameters have the capabilities the function documents')
    res.assumptions.append('A-ENUM-UNION')
    return res, nfun, ncalls


# ------------------------------------------------------------------ M2c: requested => written
def rule_M2c(ctx, classes=None):
    """completeness of the gated writes: on every path to a normal return, an output whose bit is in the
    incoming mask (and, for lines, in the capabilities) has been written."""
    res = RuleResult('M2c', 'requested => computed: on every path of a Gen*/Lengths function that returns normally (not the '
                            'documented NaN failure return) each output whose bit is requested - and, for a line, within '
                            'its capabilities - has been written')
    lc = get_licctx(ctx)
    mc = lc.mc
    nf = 0
    nob = 0
    for f, cls, mp, outs in sorted(mc.gated, key=lambda x: (x[0].file, x[0].line)):
        if classes and cls not in classes:
            continue
        nf += 1
        fl = mc.flow(f)
        mname = f.params[mp]['name']
        entry = {'v:' + f.params[pi]['d']: DECL_TRUE for pi in outs}
        U, per = lc.object_U(NS + cls)
        member_U = {'this.' + m: u for m, u in U.items()}
        kb = {'v:' + f.params[pi]['d']: {M.out_bit(ctx, cls, M.PARAM_ENUM[f.params[pi]['name']])} for pi in outs}
        lic = Lic(ctx, f, fl, member_U=member_U, gated=lc.gated, ax=lc.axioms(NS + cls), entry_U=entry,
                  member_writes=lc.member_writes, key_bits=kb)
        is_line = 'Line' in cls
        for b, st in lic.exit_states:
            # the documented failure return (NaN) leaves everything untouched
            blk_nodes = [e for kind, e in fl._elts[b] if kind == 'stmt']
            nanret = False
            for e in blk_nodes:
                n = f.nodes[e]
                if n['k'] == 'ReturnStmt' and n.get('val', -1) >= 0:
                    for j in f.walk(n['val']):
                        ce = f.nodes[j].get('callee')
                        if ce and ce.get('q') == NS + 'Math::NaN':
                            nanret = True
            if nanret:
                continue
            alts = fl.facts_in.get(b)
            if not alts:
                continue
            for pi in outs:
                pn = f.params[pi]['name']
                bit = M.out_bit(ctx, cls, M.PARAM_ENUM[pn])
                u = st.get('v:' + f.params[pi]['d'], FALSE)
                nob += 1
                if u == FALSE:
                    res.ob(True, None)
                    continue
                req = frozenset([frozenset([('b:in:%s:%d' % (mname, bit), True)] +
                                           ([('b:this._caps:%d' % bit, True)] if is_line else []))])
                cond = d_and(frozenset(c - {DECL} for c in u), req)
                from ..lic import satisfiable
                w = satisfiable(alts, cond, lc.axioms(NS + cls))
                ok = w is None
                res.ob(ok, {'fn': f.q, 'output': pn, 'bit': bit, 'unwritten_when': _show(frozenset(c - {DECL} for c in u))}
                       if (not ok or nob % 25 == 1) else None)
                if not ok:
                    res.fail(f.q, pn + '/unwritten', f.loc(), 'output %s is requested (bit %d, %s) but is left unwritten on a path '
                             'that returns normally (path: %s)' % (pn, bit, M.PARAM_ENUM[pn], _showl(w)))
    res.analysed['gated_functions'] = nf
    res.analysed['exit_output_pairs'] = nob
    return res, nf, nob


# ------------------------------------------------------------------ M6: no stale member behind a conditional write
def rule_M6(ctx):
    res = RuleResult('M6', 'no stale state behind a conditional write: when a data member is bound to an output position of '
                           'a gated call whose write condition is not always true, the member is assigned a fresh value '
                           'on every path before the call')
    lc = get_licctx(ctx)
    n = 0
    from .eff import must_pass
    for f in sorted(ctx.lib_fns(), key=lambda x: (x.file, x.line)):
        if not f.cfg or f.is_const or not f.is_method:
            continue
        fl = None
        for i, nd in f.all_nodes():
            ce = nd.get('callee')
            if not ce or ce.get('usr') not in lc.gated:
                continue
            g = lc.gated[ce['usr']]
            args = nd.get('args', [])
            for j, bit in g[3].items():
                if j >= len(args):
                    continue
                an = f.nodes[f.strip(args[j])]
                if an['k'] != 'MemberExpr' or not an.get('thisbase'):
                    continue
                if fl is None:
                    fl = lc.flow(f, None)
                if g[2] is None:
                    cond = TRUE if g[4].get(j) else FALSE
                else:
                    cond = fl.eval_bv(args[g[2]], fl.env_at(i)).bits[bit]
                # a call on a line object additionally needs the capability, which the caller cannot know
                online = (ce.get('cls') or '').endswith(('GeodesicLine', 'GeodesicLineExact', 'RhumbLine'))
                if cond == TRUE and not online:
                    continue
                n += 1
                m = an['m']

                def is_store(e):
                    en = f.nodes[e]
                    if en['k'] in ('BinaryOperator',) and en.get('op') == '=':
                        for k_ in f.walk(en['ch'][0]):
                            kn = f.nodes[k_]
                            if kn['k'] == 'MemberExpr' and kn.get('thisbase') and kn.get('m') == m:
                                return True
                        # chained: a = b = x  -> inner assignment is its own element
                    return False
                ok = must_pass(fl, f, i, is_store)
                res.ob(ok, {'fn': f.q, 'member': m, 'call': f.loc(i), 'fresh_value_assigned_before': ok})
                if not ok:
                    res.fail(f.q, m + '/stale', f.loc(i), '%s passes member %s to %s as an output that is written only if the '
                             'line has the capability; no fresh value is assigned to it before the call, so a stale value '
                             'survives when the write is skipped' % (f.q, m, ce.get('q')))
    res.analysed['conditional_member_bindings'] = n
    return res, n


# ------------------------------------------------------------------ M7: mask-gated placeholders
def rule_M7(ctx, classes=None):
    """a local that holds a literal placeholder (`real AB1 = 0`) and is given its value only under bits of the
    incoming mask must not reach an output, a return value, a branch or a member on a path that does not establish
    those bits: otherwise the value returned for one quantity depends on which other quantities were requested."""
    res = RuleResult('M7', 'mask independence of intermediates: a placeholder-initialised local that is computed only '
                           'under mask bits G1 is consumed only on paths that establish G1 (else an output requested '
                           'through other bits silently uses the placeholder)')
    lc = get_licctx(ctx)
    classes = classes or [NS + c for c in ('Geodesic', 'GeodesicLine', 'GeodesicExact', 'GeodesicLineExact',
                                           'Rhumb', 'RhumbLine')]
    ef = getattr(lc, '_ef', None)
    if ef is None:
        ef = lc._ef = entry_facts(lc, set(LIC_CLASSES))
    nfun = 0
    ncand = 0
    nlocal = 0
    for cls in classes:
        U, per = lc.object_U(cls)
        ax = lc.axioms(cls)
        member_U = {'this.' + m: u for m, u in U.items()}
        for f in sorted(ctx.lib_fns(), key=lambda x: (x.file, x.line)):
            if f.cls != cls or not f.cfg or f.is_ctor or f.is_dtor or f.d.get('implicit'):
                continue
            if not any(p['name'] in ('outmask', 'caps') for p in f.params):
                continue
            fl = lc.flow(f, ef.get(f.usr))
            base = Lic(ctx, f, fl, member_U=member_U, gated=lc.gated, ax=ax, member_writes=lc.member_writes,
                       stale_zero=False)
            lic = Lic(ctx, f, fl, member_U=member_U, gated=lc.gated, ax=ax, member_writes=lc.member_writes,
                      stale_zero='mask2')
            nfun += 1
            names = {}
            for i, n in f.all_nodes():
                if n['k'] == 'DeclStmt':
                    for d in n['decls']:
                        if d['d'] in lic.zero_then_assigned:
                            names[d['d']] = d.get('name', '?')
            ncand += len(names)
            res.obligations += len(names)
            old = {(e, w) for e, w, _, _ in base.reports}
            bad = {}
            for e, what, vu, wit in lic.reports:
                if (e, what) in old:
                    continue
                culprits = sorted({f.nodes[j]['name'] for j in f.walk(e)
                                   if f.nodes[j]['k'] == 'DeclRefExpr' and f.nodes[j].get('d') in names})
                who = ','.join(culprits) or _culprits(f, lic, e, vu, member_U)
                bad.setdefault(who, (e, what, vu, wit))
            res.discharged += len(names) - min(len(names), len(bad))
            for who, (e, what, vu, wit) in sorted(bad.items()):
                res.fail(f.q, who, f.loc(e),
                         'a placeholder (%s are `= 0` until computed under mask bits) reaches a %s through %s on a path '
                         'that does not establish those bits (placeholder still in place when %s; path facts %s)'
                         % (', '.join(sorted(names.values())), what, who, _show(vu), _showl(wit)))
            if names and len(res.samples) < 6:
                res.samples.append({'fn': f.q, 'placeholders': sorted(names.values())})
            nlocal += _m7b_function(ctx, f, fl, res)
    res.analysed.update({'gated_functions': nfun, 'mask_gated_placeholders': ncand, 'local_reads_checked': nlocal})
    return res, nfun, ncand


# ------------------------------------------------------------------ M7b: local form of M7
def _m7b_function(ctx, f, fl, res):
    """`real v = <placeholder>; ... if (mask & G1) { v = ...; } ... use of v` among the statements of one block:
    every later read of v in that block (up to the next unconditional plain reassignment) is on paths whose mask
    facts contain a bit of G1.  Decided with the path facts of the flow engine; applies inside data-conditional
    branches as well (where the global rule M7 declines)."""
    nchecked = 0
    lic0 = Lic.__new__(Lic)
    lic0.fn, lic0.fl = f, fl
    cand = Lic._zero_then_assigned_any(lic0)          # placeholders and their assignment sites
    if not cand:
        return 0
    decl_line = {}
    for i, n in f.all_nodes():
        if n['k'] == 'DeclStmt':
            for d in n['decls']:
                if d['d'] in cand:
                    decl_line[d['d']] = (n['l'], d.get('name', '?'))
    for i, n in f.all_nodes():
        if n['k'] != 'IfStmt' or n.get('then', -1) < 0:
            continue
        pure, has_and = Lic._pure_mask_cond(lic0, n['cond'], 0)
        if not (pure and has_and):
            continue
        par = f.parent[i]
        if par < 0 or f.nodes[par]['k'] != 'CompoundStmt':
            continue
        then_nodes = set(f.walk(n['then']))
        else_nodes = set(f.walk(n['else'])) if n.get('else', -1) is not None and n.get('else', -1) >= 0 else set()
        pos, neg = fl.cond2(n['cond'], fl.env_at(n['cond']))
        if pos is None or any(len(c) != 1 for c in pos):
            continue
        g1 = {next(iter(c)) for c in pos}            # single positive literals: bit k of the mask is set
        if not all(l[1] and l[0].startswith('b:') for l in g1):
            continue
        for d, sites in cand.items():
            inside = [s for s in sites if s in then_nodes]
            if not inside or any(s in else_nodes for s in sites):
                continue
            # only placeholder definitions before the if
            if any(f.nodes[s]['l'] < n['l'] and s not in then_nodes for s in sites):
                continue
            sibs = f.nodes[par]['ch']
            for sj in sibs[sibs.index(i) + 1:]:
                sn = f.nodes[f.strip(sj)]
                if sn['k'] == 'BinaryOperator' and sn.get('op') == '=':
                    ln = f.nodes[f.strip(sn['ch'][0])]
                    if ln['k'] == 'DeclRefExpr' and ln.get('d') == d and \
                            not any(f.nodes[x]['k'] == 'DeclRefExpr' and f.nodes[x].get('d') == d for x in f.walk(sn['ch'][1])):
                        break
                for x in f.walk(sj):
                    xn = f.nodes[x]
                    if xn['k'] != 'DeclRefExpr' or xn.get('d') != d:
                        continue
                    pp = f.parent[x]
                    if pp >= 0 and f.nodes[pp]['k'] == 'BinaryOperator' and f.nodes[pp].get('op') == '=' and \
                            f.strip(f.nodes[pp]['ch'][0]) == x:
                        continue          # plain store, not a read
                    alts = fl.facts_at(x)
                    if not alts:
                        continue
                    nchecked += 1
                    bad = [a for a in alts if not (g1 & set(a))]
                    res.ob(not bad, None)
                    if bad:
                        name = decl_line.get(d, (0, '?'))[1]
                        if not any(z.fn == f.q and z.symbol == name + '/local' for z in res.findings):
                            res.fail(f.q, name + '/local', f.loc(x),
                                     '%s holds a placeholder until it is computed under `%s` (line %d) but is read at %s on a '
                                     'path that does not establish any of those mask bits: the result depends on which other '
                                     'outputs were requested' % (name, f.src_text(n['cond'])[:60].strip(), n['l'],
                                                                 f.loc(x).rsplit('/', 1)[-1]))
    return nchecked


# ------------------------------------------------------------------ M9: mask-selected values
M9_ALLOWED = {'LONG_UNROLL': {'lon2'}}      # the outputs a modifier bit is documented to affect


def rule_M9(ctx, classes=None):
    """a value selected by a mask bit (`outmask & LONG_UNROLL ? a : b`) may flow only into the outputs that bit is
    documented to modify; anywhere else it makes one output depend on a request for another."""
    res = RuleResult('M9', 'mask-selected values: a value chosen by `mask & BIT ? a : b` reaches only the outputs that BIT is '
                           'documented to modify (LONG_UNROLL: lon2), so no other output depends on that bit')
    lc = get_licctx(ctx)
    classes = classes or [NS + c for c in ('Geodesic', 'GeodesicLine', 'GeodesicExact', 'GeodesicLineExact', 'Rhumb', 'RhumbLine')]
    nsel = 0
    nfun = 0
    for cls in classes:
        ev = ctx.prog.enum_values(cls)
        bitname = {}
        for nm, v in ev.items():
            o = v & 0xFF80
            if o and (o & (o - 1)) == 0:
                bitname.setdefault(o.bit_length() - 1, nm)
        for f in sorted(ctx.lib_fns(), key=lambda x: (x.file, x.line)):
            if f.cls != cls or not f.cfg or not any(p['name'] in ('outmask',) for p in f.params):
                continue
            nfun += 1
            fl = lc.flow(f, None)
            lic0 = Lic.__new__(Lic)
            lic0.fn, lic0.fl = f, fl
            outs = {p['d']: p['name'] for p in f.params if p['pk'] in ('r', 'p')}
            # selections
            sel = {}          # node id -> set of bit numbers
            for i, n in f.all_nodes():
                if n['k'] != 'ConditionalOperator':
                    continue
                pure, has_and = Lic._pure_mask_cond(lic0, n['cond'], 0)
                if not (pure and has_and):
                    continue
                pos, neg = fl.cond2(n['cond'], fl.env_at(n['cond']))
                if pos is None:
                    continue
                bits = {int(l[0].rsplit(':', 1)[1]) for c in pos for l in c if l[0].startswith('b:') and l[1]}
                if bits:
                    sel[i] = bits
                    nsel += 1
            # the statement form of a selection: `if (mask & BIT) v = a; else v = b;`
            for i, n in f.all_nodes():
                if n['k'] != 'IfStmt' or n.get('else', -1) < 0 or n.get('then', -1) < 0:
                    continue
                pure, has_and = Lic._pure_mask_cond(lic0, n['cond'], 0)
                if not (pure and has_and):
                    continue
                pos, neg = fl.cond2(n['cond'], fl.env_at(n['cond']))
                if pos is None:
                    continue
                bits = {int(l[0].rsplit(':', 1)[1]) for c in pos for l in c if l[0].startswith('b:') and l[1]}
                if not bits:
                    continue

                def single_assign(root):
                    m = f.nodes[root]
                    while m['k'] == 'CompoundStmt' and len(m['ch']) == 1:
                        root = m['ch'][0]
                        m = f.nodes[root]
                    root = f.strip(root)
                    m = f.nodes[root]
                    if m['k'] == 'BinaryOperator' and m.get('op') == '=':
                        ln = f.nodes[f.strip(m['ch'][0])]
                        if ln['k'] == 'DeclRefExpr':
                            return ln['d'], m['ch'][1]
                    return None
                st, se = single_assign(n['then']), single_assign(n['else'])
                if st and se and st[0] == se[0]:
                    for rhs in (st[1], se[1]):
                        sel[f.strip(rhs)] = bits
                        sel[rhs] = bits
                    nsel += 1
            if not sel:
                continue
            # variable taint in lexical order
            taint = {}        # decl id -> (bits, line)
            events = []
            for i, n in f.all_nodes():
                if n['k'] == 'DeclStmt':
                    for d in n['decls']:
                        if d.get('init', -1) >= 0:
                            events.append((n['l'], n.get('c', 0), 'def', d['d'], d['init'], i))
                elif n['k'] in ('BinaryOperator', 'CompoundAssignOperator') and n.get('op') in ASSIGN_OPS:
                    ln = f.nodes[f.strip(n['ch'][0])]
                    if ln['k'] == 'DeclRefExpr':
                        events.append((n['l'], n.get('c', 0), 'def', ln['d'], n['ch'][1], i))
            events.sort()
            for l, c, kind, d, rhs, at in events:
                bits = set()
                for j in f.walk(rhs):
                    if j in sel:
                        bits |= sel[j]
                    jn = f.nodes[j]
                    if jn['k'] == 'DeclRefExpr' and jn.get('d') in taint and jn.get('d') != d:
                        bits |= taint[jn['d']]
                    if jn['k'] == 'DeclRefExpr' and jn.get('d') == d and d in taint and f.nodes[at].get('op') != '=':
                        bits |= taint[d]
                    if jn['k'] == 'DeclRefExpr' and jn.get('d') == d and d in taint and f.nodes[at].get('op') == '=' and j != f.strip(f.nodes[at]['ch'][0]):
                        bits |= taint[d]
                if d in outs:
                    name = outs[d]
                    for b in sorted(bits):
                        bn = bitname.get(b, 'bit %d' % b)
                        ok = name in M9_ALLOWED.get(bn, set())
                        res.ob(ok, {'fn': f.q, 'output': name, 'selected_by': bn, 'at': f.loc(at)} if not ok else None)
                        if not ok:
                            res.fail(f.q, '%s<-%s' % (name, bn), f.loc(at),
                                     'output %s is computed from a value that was selected by `mask & %s ? ... : ...`: it differs '
                                     'according to a bit that only %s may depend on'
                                     % (name, bn, ', '.join(sorted(M9_ALLOWED.get(bn, {'(nothing)'})))))
                    continue
                if bits:
                    taint[d] = bits
                elif f.nodes[at]['k'] == 'DeclStmt' or f.nodes[at].get('op') == '=':
                    taint.pop(d, None)
    res.analysed.update({'gated_functions': nfun, 'mask_selections': nsel})
    return res, nsel
