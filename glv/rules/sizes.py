"""X2v: container sizes computed from file headers are never negative.

SphericalEngine::coeff::readcoeffs reads the degree and order from the stream, validates them with a throwing
guard and then allocates vectors of Csize(N, M) and Ssize(N, M) elements.  A header the guard accepts but for
which a size is negative makes std::vector throw std::length_error - a foreign exception out of the model
constructors.  The witness interpreter runs the integer code of the function for every combination of small
values of its integer arguments and of the integers it reads from the stream (a box around the interesting
region, -2..3), following the small size helpers, and requires every vector size on an accepting path to be
non-negative.  No library code runs.
"""
import itertools

from ..cinterp import Interp, Frame, UNK, isunk, _num
from ..core import RuleResult
from ..build import AnalysisBroken

NS = 'GeographicLib::'


class BoxFrame(Frame):
    def _int_array(self, nid):
        f = self.fn
        n = f.nodes[f.strip_casts(nid)]
        while n['k'] in ('ImplicitCastExpr', 'UnaryOperator') and n['ch']:
            n = f.nodes[f.strip_casts(n['ch'][0])]
        if n['k'] == 'DeclRefExpr' and n.get('rk') == 'local' and n.get('t', '').endswith(']') and 'int' in n.get('t', ''):
            return n['d']
        return None

    def ev(self, nid):
        if nid is not None and nid >= 0:
            n = self.fn.nodes[nid]
            if n['k'] == 'ArraySubscriptExpr' and self.depth == 0:
                arr = self._int_array(n['ch'][0])
                if arr is not None and arr in self.ip.cells:
                    i = self.ev(n['ch'][1])
                    if _num(i) and not isunk(i) and 0 <= int(i) < len(self.ip.cells[arr]):
                        return self.ip.cells[arr][int(i)]
                    return UNK
        return Frame.ev(self, nid)

    def callexpr(self, n):
        ce = n.get('callee') or {}
        q = ce.get('q', '')
        args = n.get('args', [])
        if q == NS + 'Utility::readarray' and len(args) == 3 and self.depth == 0:
            arr = self._int_array(args[1])
            cnt = self.ev(args[2])
            if arr is not None and _num(cnt) and not isunk(cnt):
                vals = self.ip.next_read(int(cnt))
                self.ip.cells[arr] = vals
                return UNK
        if ce.get('name') in ('resize', 'reserve') and n['k'] == 'CXXMemberCallExpr' and not ce.get('inrepo') and args:
            v = self.ev(args[0])
            self.ip.sizes.append((self.fn.loc(self.fn.strip_casts(args[0])), v))
            return UNK
        return Frame.callexpr(self, n)

    def construct(self, n):
        ce = n.get('callee') or {}
        if ce.get('q', '').startswith('std::vector') and self.depth == 0:
            args = n.get('args', [])
            if args:
                an = self.fn.nodes[self.fn.strip_casts(args[0])]
                if 'int' in an.get('t', '') or 'long' in an.get('t', '') or an['k'] in ('CallExpr',):
                    v = self.ev(args[0])
                    self.ip.sizes.append((self.fn.loc(self.fn.strip_casts(args[0])), v))
                    return UNK
        return Frame.construct(self, n)


def rule_X2v(ctx, targets=(NS + 'SphericalEngine::coeff::readcoeffs',), box=range(-2, 4)):
    res = RuleResult('X2v', 'container sizes computed from file headers: for every combination of small values of the integer '
                            'arguments and of the integers read from the stream that the throwing guards accept, every '
                            'vector size is non-negative (else std::length_error, a foreign exception, escapes)')
    nfn = 0
    nacc = 0
    nsize = 0
    for q in targets:
        fs = [f for f in ctx.lib_fns() if f.q == q and f.d.get('body', -1) >= 0]
        if not fs:
            raise AnalysisBroken('X2v: anchor vanished: ' + q)
        f = fs[0]
        nfn += 1
        ints = [i for i, p in enumerate(f.params) if p.get('int') and p['t'].replace('const ', '').replace('&', '').strip() == 'int']
        bools = [i for i, p in enumerate(f.params) if p['t'].replace('const ', '') == 'bool']
        nreads = 2
        bad = {}
        for iv in itertools.product(list(box), repeat=len(ints)):
            for rv in itertools.product(list(box), repeat=nreads):
                for bv in itertools.product([True, False], repeat=len(bools)):
                    ip = Interp(ctx.prog, max_runs=64, max_depth=3, small=60)
                    ip.frame_cls = BoxFrame
                    ip.cells = {}
                    ip.sizes = []
                    reads = list(rv)

                    def next_read(cnt, ip=ip, reads=reads):
                        out = [reads.pop(0) if reads else UNK for _ in range(cnt)]
                        return out
                    ip.next_read = next_read
                    per = []

                    def end(outcome, ip=ip, per=per):
                        if outcome == 'ok':
                            per.append(list(ip.sizes))
                        ip.sizes = []
                        ip.cells = {}
                    ip.on_path_end = end
                    orig = ip.call

                    def call(fn, a, depth, this_env, ip=ip, orig=orig, rv=rv, reads=reads):
                        if depth == 0:
                            ip.sizes = []
                            ip.cells = {}
                            reads[:] = list(rv)
                        return orig(fn, a, depth, this_env)
                    ip.call = call
                    args = [UNK] * len(f.params)
                    for i, v in zip(ints, iv):
                        args[i] = v
                    for i, v in zip(bools, bv):
                        args[i] = v
                    ip.explore(f, args)
                    for sizes in per:
                        nacc += 1
                        for loc, v in sizes:
                            nsize += 1
                            if _num(v) and not isunk(v) and v < 0:
                                key = loc
                                if key not in bad:
                                    bad[key] = (dict(zip([f.params[i]['name'] for i in ints], iv)), list(rv),
                                                dict(zip([f.params[i]['name'] for i in bools], bv)), v)
        res.obligations += max(1, nsize)
        res.discharged += max(1, nsize) - len(bad)
        for loc, (a, r, b, v) in sorted(bad.items()):
            res.fail(f.q, 'size@' + loc.rsplit('/', 1)[-1], loc,
                     'with arguments %s %s and header integers %s the guards accept but the container size at %s is %d: '
                     'std::length_error escapes' % (a, b, r, loc.rsplit('/', 1)[-1], v))
        if not nacc:
            raise AnalysisBroken('X2v: no accepting path in ' + q)
    res.analysed.update({'functions': nfn, 'accepting_runs': nacc, 'sizes_checked': nsize})
    return res, nfn, nsize
