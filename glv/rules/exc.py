"""R-EXC: the error contract (C13; instances in C04, C05, C10, C18, C20)."""
import os

from .. import tables as T
from ..core import RuleResult
from ..build import AnalysisBroken
from ..effects import classify, CALL_KINDS
from ..flow import ASSIGN_OPS

ERR = 'GeographicLib::GeographicErr'


def in_files(f, files):
    return any(f.file.endswith(x) for x in files)


def scoped_fns(ctx, files=None):
    fs = ctx.lib_fns()
    if files is not None:
        ex = getattr(ctx, 'exclude_q', ())
        fs = [f for f in fs if in_files(f, files) and f.q not in ex]
    return sorted(fs, key=lambda f: (f.file, f.line))


# ------------------------------------------------------------------ may-throw
class Throws:
    """whole-program may-throw summary (library throws; std audited list via X2 only)."""

    def __init__(self, ctx):
        self.ctx = ctx
        prog = ctx.prog
        self.direct = {}
        self.calls = {}
        for f in prog.fns.values():
            d = []
            cs = []
            for i, n in f.all_nodes():
                if n['k'] == 'CXXThrowExpr':
                    d.append(i)
                elif n['k'] in CALL_KINDS:
                    ce = n.get('callee')
                    if ce and ce.get('usr') in prog.fns:
                        cs.append((i, ce['usr']))
            self.direct[f.usr] = d
            self.calls[f.usr] = cs
        self.T = {u: bool(d) for u, d in self.direct.items()}
        # A-SINGLETON-NOTHROW: a parameterless accessor whose only calls sit in the initialiser of a
        # function-local static builds that object from compile-time constants its validators accept
        self.singletons = set()
        for u, f in prog.fns.items():
            if f.params or self.direct[u] or (f.is_method and not f.is_static):
                continue
            inits = []
            for i, n in f.all_nodes():
                if n['k'] == 'DeclStmt':
                    for d in n['decls']:
                        if d.get('static_local') and d.get('init', -1) >= 0:
                            inits.append(d['init'])
            if not inits:
                continue
            inside = set()
            for r in inits:
                inside.update(f.walk(r))
            if all(i in inside for i, cu in self.calls[u]):
                self.singletons.add(u)
        # swallowed: calls lexically inside a try whose handlers never throw
        self.swallow = {}
        changed = True
        while changed:
            changed = False
            for u, cs in self.calls.items():
                if self.T[u] or u in self.singletons:
                    continue
                f = prog.fns[u]
                for i, cu in cs:
                    if prog.fns[cu].q in T.NOTHROW_WHEN_INTERNAL:
                        continue
                    if self.T.get(cu) and not self.swallowed(f, i):
                        self.T[u] = True
                        changed = True
                        break

    def swallowed(self, f, nid):
        for a in f.ancestors(nid):
            an = f.nodes[a]
            if an['k'] == 'CXXTryStmt':
                # is nid inside the try block (not a handler)?
                inside = False
                for j in f.walk(an['try']):
                    if j == nid:
                        inside = True
                        break
                if not inside:
                    continue
                hs = [f.nodes[h] for h in an['handlers']]
                catches_all = any(h.get('catchall') or 'exception' in h.get('caught', '') or
                                  'GeographicErr' in h.get('caught', '') for h in hs)
                rethrows = any(f.nodes[j]['k'] == 'CXXThrowExpr' for h in an['handlers'] for j in f.walk(h))
                if catches_all and not rethrows:
                    return True
        return False

    def may_throw_node(self, f, nid):
        """does evaluating element nid possibly raise a library exception?"""
        n = f.nodes[nid]
        if n['k'] == 'CXXThrowExpr':
            return True
        if n['k'] in CALL_KINDS:
            ce = n.get('callee')
            if ce and ce.get('q') in T.NOTHROW_WHEN_INTERNAL:
                return False
            if ce and self.T.get(ce.get('usr')) and not self.swallowed(f, nid):
                return True
        return False


def get_throws(ctx):
    if not hasattr(ctx, '_throws'):
        ctx._throws = Throws(ctx)
    return ctx._throws


# ------------------------------------------------------------------ X1
def rule_X1(ctx, files=None):
    res = RuleResult('X1', 'every throw in library code raises GeographicErr (or re-throws inside a handler); '
                           'every handler converts to GeographicErr or is audited')
    nthrow = 0
    ncatch = 0
    for f in scoped_fns(ctx, files):
        for i, n in f.all_nodes():
            if n['k'] == 'CXXThrowExpr':
                nthrow += 1
                if n.get('rethrow'):
                    ok = any(f.nodes[a]['k'] == 'CXXCatchStmt' for a in f.ancestors(i))
                    what = 'bare re-throw'
                else:
                    t = n.get('thrown', '').replace('const ', '').strip()
                    ok = (t == ERR)
                    what = t
                res.ob(ok, {'throw': what, 'at': f.loc(i), 'in': f.q} if (not ok or nthrow % 60 == 1) else None)
                if not ok:
                    res.fail(f.q, 'throw@' + what, f.loc(i),
                             'throws %s: callers are promised GeographicErr only' % what)
            elif n['k'] == 'CXXCatchStmt':
                ncatch += 1
                body_throws = [j for j in f.walk(n['body']) if f.nodes[j]['k'] == 'CXXThrowExpr']
                ok = bool(body_throws) or (f.q in T.AUDITED_HANDLERS)
                res.ob(ok, {'handler': n.get('caught', '...'), 'at': f.loc(i), 'in': f.q,
                            'converts': bool(body_throws), 'audited': T.AUDITED_HANDLERS.get(f.q)})
                if not ok:
                    res.fail(f.q, 'catch@' + n.get('caught', '...'), f.loc(i),
                             'handler swallows the exception and is not in the audited table')
    res.analysed['throw_sites'] = nthrow
    res.analysed['handlers'] = ncatch
    return res, nthrow, ncatch


# ------------------------------------------------------------------ X3 commit-last
STREAM_TYPES = ('basic_istream', 'basic_ostream', 'basic_ifstream', 'basic_ofstream', 'basic_ios',
                'basic_iostream')


def output_params(f):
    out = []
    for i, p in enumerate(f.params):
        if p['pk'] in ('r', 'p'):
            if any(s in p['t'] for s in STREAM_TYPES):
                continue   # I/O handles, not return values
            out.append(i)
    return out


class CommitLast:
    """typestate on the CFG: dirty(output param) followed by a may-throw point."""

    def __init__(self, ctx):
        self.ctx = ctx
        self.S = ctx.summaries
        self.TH = get_throws(ctx)
        self.wt = {}       # fn usr -> {param idx: (write site, throw site)}  "may throw after writing idx"
        self._compute()

    def _events_by_node(self, f):
        ev = {}
        for kind, nid, path, extra in self.S.events[f.usr]:
            ev.setdefault(nid, []).append((kind, path, extra))
        return ev

    def analyse(self, f, outs):
        """returns {param idx: (write loc node, throw node, how)} for violations inside f."""
        prog = self.ctx.prog
        if not f.cfg or not outs:
            return {}
        fl = self.ctx.flow(f)
        ev = self._events_by_node(f)
        outs = set(outs)
        viol = {}
        state_in = {f.cfg['entry']: {}}
        work = [f.cfg['entry']]
        guard = 0
        while work:
            guard += 1
            if guard > 20000:
                raise AnalysisBroken('X3: dataflow did not converge in ' + f.q)
            b = work.pop()
            st = dict(state_in[b])
            for kind, e in fl._elts[b]:
                if kind != 'stmt':
                    continue
                n = f.nodes[e]
                evs = ev.get(e, [])
                # 1. may-throw with something dirty
                if st and self.TH.may_throw_node(f, e):
                    for pi, wsite in st.items():
                        viol.setdefault(pi, (wsite, e, 'throw after write'))
                # 2. callee writes an argument bound to our output and may then throw
                callee_u = (n.get('callee') or {}).get('usr')
                for kd, path, extra in evs:
                    if kd == 'argout' and path.root[0] == 'param' and path.root[1] in outs:
                        ce, j = extra
                        cw = self.wt.get(ce.get('usr'), {})
                        if j in cw and not self.TH.swallowed(f, e):
                            viol.setdefault(path.root[1], (e, e, 'callee %s may throw after writing it' % ce.get('q')))
                # 3. writes
                for kd, path, extra in evs:
                    if path is None or path.root[0] != 'param' or path.root[1] not in outs:
                        continue
                    pi = path.root[1]
                    if kd == 'store':
                        st.setdefault(pi, e)
                    elif kd == 'mcall':
                        st.setdefault(pi, e)
                    elif kd == 'argout':
                        ce, j = extra
                        cu = ce.get('usr')
                        if cu in prog.fns:
                            if self.S.writes_param(cu, j):
                                st.setdefault(pi, e)
                        else:
                            st.setdefault(pi, e)
            for s in fl._succs(b):
                old = state_in.get(s)
                if old is None:
                    state_in[s] = dict(st)
                    work.append(s)
                else:
                    new = dict(old)
                    ch = False
                    for k, v in st.items():
                        if k not in new:
                            new[k] = v
                            ch = True
                    if ch:
                        state_in[s] = new
                        work.append(s)
        return viol

    def _compute(self):
        prog = self.ctx.prog
        fns = [f for f in prog.fns.values() if f.cfg]
        # iterate: wt summaries depend on callees' wt
        for _ in range(6):
            changed = False
            for f in fns:
                outs = [i for i, p in enumerate(f.params) if p['pk'] in ('r', 'p')]
                if not outs:
                    continue
                v = self.analyse(f, outs)
                if set(v) != set(self.wt.get(f.usr, {})):
                    self.wt[f.usr] = v
                    changed = True
            if not changed:
                break


def rule_X3m(ctx, fn_names):
    """strong exception guarantee for the object itself, where the documentation promises it."""
    res = RuleResult('X3m', 'documented strong guarantee: in the functions documented as leaving the object unchanged when '
                            'they throw, no may-throw point follows a write to a data member')
    cl = get_commitlast(ctx)
    TH = get_throws(ctx)
    S = ctx.summaries
    n = 0
    for f in scoped_fns(ctx, None):
        if f.q not in fn_names or not f.cfg:
            continue
        n += 1
        fl = ctx.flow(f)
        ev = cl._events_by_node(f)
        state_in = {f.cfg['entry']: {}}
        work = [f.cfg['entry']]
        viol = {}
        guard = 0
        while work:
            guard += 1
            if guard > 20000:
                raise AnalysisBroken('X3m: dataflow did not converge in ' + f.q)
            b = work.pop()
            st = dict(state_in[b])
            for kind, e in fl._elts[b]:
                if kind != 'stmt':
                    continue
                if st and TH.may_throw_node(f, e):
                    for m, w in st.items():
                        viol.setdefault(m, (w, e))
                for kd, path, extra in ev.get(e, []):
                    if path is None or path.root != ('this',) or not path.steps:
                        continue
                    if kd in ('store', 'mcall') or (kd == 'argout' and (
                            extra[0].get('usr') not in ctx.prog.fns or S.writes_param(extra[0]['usr'], extra[1]))):
                        st.setdefault(path.steps[0][2], e)
            for s_ in fl._succs(b):
                old = state_in.get(s_)
                new = dict(old or {})
                ch = old is None
                for k_, v_ in st.items():
                    if k_ not in new:
                        new[k_] = v_
                        ch = True
                if ch:
                    state_in[s_] = new
                    work.append(s_)
        res.ob(not viol, {'fn': f.q, 'at': f.loc(), 'members_written_before_a_throw': sorted(viol)})
        for m, (w, t) in sorted(viol.items()):
            res.fail(f.q, m, f.loc(t), '%s writes member %s at %s and may throw afterwards at %s although it is documented '
                     'to leave the object unchanged when it throws' % (f.q, m, f.loc(w), f.loc(t)))
    res.floor('functions with a documented strong guarantee', n, len(fn_names))
    return res


def get_commitlast(ctx):
    if not hasattr(ctx, '_cl'):
        ctx._cl = CommitLast(ctx)
    return ctx._cl


def is_api(f):
    if f.d.get('implicit'):
        return False
    if f.is_method:
        return f.access in ('public', 'protected') and not f.d.get('nested_private')
    return not f.d.get('linkage_internal')


def rule_X3(ctx, files=None):
    res = RuleResult('X3', 'commit-last: on no path does a throw (or may-throw call) follow a write to an '
                           'output argument; public/protected functions, stream parameters are handles')
    cl = get_commitlast(ctx)
    nf = 0
    for f in scoped_fns(ctx, files):
        if not is_api(f) or f.is_ctor:
            continue
        outs = output_params(f)
        if not outs:
            continue
        nf += 1
        v = {k: x for k, x in cl.wt.get(f.usr, {}).items() if k in outs}
        for pi in outs:
            bad = v.get(pi)
            res.ob(bad is None, {'fn': f.q, 'output': f.params[pi]['name'],
                                 'write': f.loc(bad[0]) if bad else None,
                                 'throw': f.loc(bad[1]) if bad else None}
                   if (bad or res.obligations % 50 == 0) else None)
            if bad:
                res.fail(f.q, f.params[pi]['name'], f.loc(bad[1]),
                         'output argument %s is modified at %s and an exception may be raised afterwards at %s (%s)'
                         % (f.params[pi]['name'], f.loc(bad[0]), f.loc(bad[1]), bad[2]))
    res.analysed['functions_with_outputs'] = nf
    return res, nf


# ------------------------------------------------------------------ X4 NaN polarity
NAN_PROPAGATE_BLOCKERS = {'min', 'max', 'fmin', 'fmax', 'isnan', 'isfinite', 'isinf', 'signbit',
                          'lround', 'lrint', 'ilogb'}


def is_float_t(t):
    t = t.replace('const ', '').replace('&', '').strip()
    return t in ('double', 'float', 'long double')


class NanEval:
    """Kleene evaluation of guards with one parameter set to NaN."""

    def __init__(self, f, pidx, prog=None, depth=0, outargs=False):
        self.f = f
        self.prog = prog
        self.depth = depth
        self.outargs = outargs      # NAN2: taint also flows into locals passed by non-const reference
        # pidx: index of the NaN parameter, or a collection of indexes (inlined helper)
        self.pds = {f.params[i]['d'] for i in ([pidx] if isinstance(pidx, int) else pidx)}
        self.tainted = self._taint()

    def _dep(self, nid):
        """does floating expression nid carry the NaN of the parameter?"""
        f = self.f
        nid = f.strip(nid)
        n = f.nodes[nid]
        k = n['k']
        t = n.get('t', '')
        if k == 'DeclRefExpr':
            return n.get('d') in self.pds or n.get('d') in self.tainted
        if not is_float_t(t) and k not in ('ImplicitCastExpr',):
            return False
        if k in ('IntegerLiteral', 'FloatingLiteral'):
            return False
        if k in ('CallExpr', 'CXXMemberCallExpr', 'CXXOperatorCallExpr'):
            ce = n.get('callee') or {}
            if ce.get('name') in NAN_PROPAGATE_BLOCKERS:
                return False
            if ce.get('name') in T.NAN_FILTERS:
                return False
            return any(self._dep(a) for a in n.get('args', []))
        if k == 'ConditionalOperator':
            return self._dep(n['then']) or self._dep(n['else'])
        if k in ('BinaryOperator', 'UnaryOperator', 'ImplicitCastExpr', 'CXXFunctionalCastExpr',
                 'CStyleCastExpr', 'CXXStaticCastExpr', 'ParenExpr'):
            if k == 'BinaryOperator' and n['op'] in ('<', '>', '<=', '>=', '==', '!=', '&&', '||'):
                return False
            return any(self._dep(c) for c in n['ch'])
        return False

    def _taint(self):
        f = self.f
        self.tainted = set()
        changed = True
        while changed:
            changed = False
            for i, n in f.all_nodes():
                tg = []
                if n['k'] == 'DeclStmt':
                    for d in n['decls']:
                        if d.get('init', -1) >= 0 and is_float_t(d['t']) and self._dep(d['init']):
                            tg.append(d['d'])
                elif n['k'] in ('BinaryOperator', 'CompoundAssignOperator') and n['op'] in ASSIGN_OPS:
                    ln = f.nodes[f.strip(n['ch'][0])]
                    if ln['k'] == 'DeclRefExpr' and ln.get('rk') == 'local' and is_float_t(ln.get('t', '')) \
                            and self._dep(n['ch'][1]):
                        tg.append(ln['d'])
                if n['k'] in ('CallExpr', 'CXXMemberCallExpr') and self.outargs:
                    # f(x, out1, out2) with x carrying the NaN: float locals passed by non-const reference receive it
                    ce = n.get('callee') or {}
                    pk = ce.get('pk') or []
                    args = n.get('args', [])
                    if 'r' in pk and ce.get('name') not in NAN_PROPAGATE_BLOCKERS and \
                            any(self._dep(a) for a, k_ in zip(args, pk) if k_ != 'r'):
                        for a, k_ in zip(args, pk):
                            an = f.nodes[f.strip(a)]
                            if k_ == 'r' and an['k'] == 'DeclRefExpr' and an.get('rk') == 'local' \
                                    and is_float_t(an.get('t', '')):
                                tg.append(an['d'])
                for d in tg:
                    if d not in self.tainted:
                        self.tainted.add(d)
                        changed = True
        return self.tainted

    def ev(self, nid):
        """'T' / 'F' / 'U' and whether NaN decided it."""
        f = self.f
        n = f.nodes[nid]
        k = n['k']
        if k in ('ParenExpr', 'ImplicitCastExpr', 'ExprWithCleanups', 'CXXFunctionalCastExpr',
                 'MaterializeTemporaryExpr') and n['ch']:
            return self.ev(n['ch'][0])
        if k == 'UnaryOperator' and n['op'] == '!':
            v = self.ev(n['ch'][0])
            return {'T': 'F', 'F': 'T', 'U': 'U'}[v]
        if k == 'BinaryOperator':
            op = n['op']
            if op in ('&&', '||'):
                a, b = self.ev(n['ch'][0]), self.ev(n['ch'][1])
                if op == '&&':
                    if a == 'F' or b == 'F':
                        return 'F'
                    if a == 'T' and b == 'T':
                        return 'T'
                    return 'U'
                if a == 'T' or b == 'T':
                    return 'T'
                if a == 'F' and b == 'F':
                    return 'F'
                return 'U'
            if op in ('<', '>', '<=', '>=', '==', '!='):
                if self._dep(n['ch'][0]) or self._dep(n['ch'][1]):
                    return 'T' if op == '!=' else 'F'
                return 'U'
        if k in ('CallExpr',):
            ce = n.get('callee') or {}
            nm = ce.get('name')
            if nm in ('isnan',) and n.get('args') and self._dep(n['args'][0]):
                return 'T'
            if nm in ('isfinite', 'isinf', 'isnormal') and n.get('args') and self._dep(n['args'][0]):
                return 'F'
        if k in ('CallExpr', 'CXXMemberCallExpr'):
            return self._inline(n)
        return 'U'

    def _inline(self, n):
        """a call of a small in-repo predicate (body: a single return of a boolean expression) is decided by
        evaluating that expression with the parameters bound to NaN-carrying arguments set to NaN."""
        ce = n.get('callee') or {}
        callee = self.prog.fns.get(ce.get('usr')) if self.prog is not None else None
        if callee is None or self.depth >= 3 or callee.d.get('body', -1) < 0:
            return 'U'
        if callee.d.get('ret', '').replace('const ', '').strip() != 'bool':
            return 'U'
        rets = [i for i, m in callee.all_nodes() if m['k'] == 'ReturnStmt']
        stmts = [i for i, m in callee.all_nodes()
                 if m['k'] in ('IfStmt', 'ForStmt', 'WhileStmt', 'DoStmt', 'SwitchStmt', 'CXXTryStmt', 'CXXThrowExpr')]
        if len(rets) != 1 or stmts or not callee.nodes[rets[0]]['ch']:
            return 'U'
        args = n.get('args', [])
        off = 1 if (n.get('ckind') == 'operator' and ce.get('method')) else 0
        nanp = [ai for ai, a in enumerate(args[off:]) if ai < len(callee.params) and self._dep(a)]
        if not nanp:
            return 'U'
        # the helper must not reassign its parameters (single return, no control flow: check stores)
        return NanEval(callee, nanp, self.prog, self.depth + 1).ev(callee.nodes[rets[0]]['ch'][0])


def guards_of(f, nid):
    """enclosing branch conditions of node nid: list of (cond node, polarity)."""
    out = []
    child = nid
    for a in f.ancestors(nid):
        an = f.nodes[a]
        if an['k'] == 'IfStmt':
            if _contains(f, an.get('then', -1), child):
                out.append((an['cond'], True))
            elif _contains(f, an.get('else', -1), child):
                out.append((an['cond'], False))
        elif an['k'] == 'ConditionalOperator':
            if _contains(f, an.get('then', -1), child):
                out.append((an['cond'], True))
            elif _contains(f, an.get('else', -1), child):
                out.append((an['cond'], False))
        elif an['k'] == 'BinaryOperator' and an.get('op') in ('&&', '||'):
            if len(an['ch']) == 2 and _contains(f, an['ch'][1], child):
                out.append((an['ch'][0], an['op'] == '&&'))
        child = a
    return out


def _contains(f, root, nid):
    if root is None or root < 0:
        return False
    if root == nid:
        return True
    for j in f.walk(root):
        if j == nid:
            return True
    return False


def _call_sites(ctx):
    """usr -> [(calling function, argument node ids)] over the library."""
    out = {}
    for g in ctx.lib_fns():
        for i, n in g.all_nodes():
            ce = n.get('callee')
            if ce and ce.get('inrepo') and n['k'] in ('CallExpr', 'CXXMemberCallExpr'):
                out.setdefault(ce.get('usr'), []).append((g, n.get('args', [])))
    return out


def _never_nan(g, nid):
    n = g.nodes[g.strip_casts(nid)]
    if n['k'] in ('FloatingLiteral', 'IntegerLiteral'):
        return True
    ce = n.get('callee') or {}
    if n['k'] == 'CallExpr' and ce.get('name') in ('fmax', 'fmin') and not ce.get('inrepo') and len(n.get('args', [])) == 2:
        for a in n['args']:
            m = g.nodes[g.strip_casts(a)]
            while m['k'] in ('CXXFunctionalCastExpr', 'CStyleCastExpr', 'CXXStaticCastExpr', 'ImplicitCastExpr', 'ParenExpr') and m['ch']:
                m = g.nodes[g.strip_casts(m['ch'][0])]
            if m['k'] in ('FloatingLiteral', 'IntegerLiteral'):
                return True
    return False


def rule_X4(ctx, files=None):
    res = RuleResult('X4', 'NaN polarity: in ordinary (non-constructor) functions no throw guard is true '
                           'because an argument is NaN (guards are written so that NaNs succeed)')
    nthrow = 0
    sites = None
    for f in scoped_fns(ctx, files):
        if f.is_ctor or f.is_dtor or f.q in T.VALIDATING_SETTERS:
            continue
        throws = [i for i, n in f.all_nodes() if n['k'] == 'CXXThrowExpr' and not n.get('rethrow')]
        if not throws:
            continue
        fparams = [i for i, p in enumerate(f.params) if p.get('float') and p['pk'] in ('v', 'cr')]
        if fparams and f.d.get('access') == 'private':
            # a private member is reached only through the class's own calls: an argument position that every
            # call site fills with fmax(c, x) / fmin(c, x) for a literal c (never NaN) or with a literal cannot be NaN
            if sites is None:
                sites = _call_sites(ctx)
            cs = sites.get(f.usr, [])
            if cs:
                fparams = [pi for pi in fparams if not all(_never_nan(g, args[pi]) for g, args in cs if pi < len(args))]
        if not fparams:
            continue
        fl = ctx.flow(f)
        evs = {pi: NanEval(f, pi, ctx.prog) for pi in fparams}
        for t in throws:
            if any(f.nodes[a]['k'] == 'CXXCatchStmt' for a in f.ancestors(t)):
                continue
            nthrow += 1
            gs = guards_of(f, t)
            mf = fl.must_facts(t)
            if mf is None:
                continue
            for pi in fparams:
                p = f.params[pi]
                # NaN excluded on every path?  (isnan(p) false / isfinite(p) true)
                notnan = any((a == 'isnan(v:%s)' % p['d'] and not pol) or
                             (a == 'std::isnan(v:%s)' % p['d'] and not pol) or
                             (a.endswith('isfinite(v:%s)' % p['d']) and pol) for a, pol in mf)
                if notnan:
                    res.ob(True, None)
                    continue
                vals = []
                for c, pol in gs:
                    v = evs[pi].ev(c)
                    if not pol:
                        v = {'T': 'F', 'F': 'T', 'U': 'U'}[v]
                    vals.append(v)
                bad = ('F' not in vals) and ('T' in vals)
                res.ob(not bad, {'fn': f.q, 'param': p['name'], 'throw': f.loc(t), 'guards': vals}
                       if (bad or res.obligations % 80 == 0) else None)
                if bad:
                    res.fail(f.q, '%s@%s' % (p['name'], f.src_text(gs[vals.index('T')][0])[:60].strip()),
                             f.loc(t),
                             'a NaN in argument %s makes the guard at %s true: the function throws instead of '
                             'returning NaN' % (p['name'], f.loc(gs[vals.index('T')][0])))
    res.analysed['throw_sites_examined'] = nthrow
    return res, nthrow


# ------------------------------------------------------------------ X2b strchr membership
def rule_X2b(ctx, files=None):
    res = RuleResult('X2b', 'strchr/memchr used as an alphabet membership test excludes the NUL character '
                            '(strchr matches the terminator)')
    n = 0
    for f in scoped_fns(ctx, None):
        for i, nd in f.all_nodes():
            ce = nd.get('callee')
            if not ce or ce.get('inrepo') or ce.get('name') not in ('strchr', 'index', 'strrchr', 'wcschr'):
                continue
            n += 1
            args = nd.get('args', [])
            if len(args) < 2:
                continue
            # the character argument, looking through toupper/tolower and casts
            a = args[1]
            while True:
                a = f.strip_casts(a)
                an = f.nodes[a]
                ce2 = an.get('callee')
                if ce2 and ce2.get('name') in ('toupper', 'tolower') and an.get('args'):
                    a = an['args'][0]
                    continue
                break
            an = f.nodes[a]
            ok = False
            why = ''
            if 'cv' in an:
                ok = int(an['cv']) != 0
                why = 'constant'
            else:
                c = ctx.flow(f).canon.of(a)
                mf = ctx.flow(f).must_facts(i)
                if c is not None and mf is not None:
                    v = c[0]
                    forms_true = {'(0!=%s)' % v, v}
                    forms_false = {'(0==%s)' % v, '(!%s)' % v}
                    ok = any((a_ in forms_true and pol) or (a_ in forms_false and not pol) for a_, pol in mf)
                    why = 'path facts: %s' % sorted(x for x in mf if v in x[0])
            res.ob(ok, {'call': 'strchr', 'in': f.q, 'at': f.loc(i), 'nonzero_established': ok, 'how': why})
            if not ok:
                res.fail(f.q, 'strchr', f.loc(i),
                         'strchr is used as a membership test without excluding c == 0: the terminating NUL '
                         'is reported as a member (index strlen(s)), so parsers built on it accept embedded NULs')
    res.analysed['strchr_calls'] = n
    res.floor('strchr membership sites', n, 1)
    return res


# ------------------------------------------------------------------ X6 iteration caps
STEP_OPS = {'++', '--', '+=', '-=', '*=', '/=', '>>=', '<<=', '%='}


def _vars_in(f, nid):
    out = set()
    for j in f.walk(nid):
        n = f.nodes[j]
        if n['k'] == 'DeclRefExpr' and n.get('rk') in ('local', 'param'):
            out.add(n['d'])
        elif n['k'] == 'MemberExpr' and n.get('mk') == 'field' and n.get('thisbase'):
            out.add('this.' + n['m'])
    return out


def _stepped_vars(f, roots):
    """variables changed by ++/--/op= (or v = v op c) inside the given subtrees."""
    out = set()
    for r in roots:
        if r is None or r < 0:
            continue
        for j in f.walk(r):
            n = f.nodes[j]
            tgt = None
            if n['k'] == 'UnaryOperator' and n['op'] in ('++', '--'):
                tgt = n['ch'][0]
            elif n['k'] == 'CompoundAssignOperator' and n['op'] in STEP_OPS:
                tgt = n['ch'][0]
            elif n['k'] == 'BinaryOperator' and n['op'] == '=':
                lv = _vars_in(f, n['ch'][0])
                if lv and lv & _vars_in(f, n['ch'][1]):
                    tgt = n['ch'][0]
            elif n['k'] == 'CXXOperatorCallExpr' and n.get('op') in ('++', '--', '+=', '-=') and n.get('args'):
                tgt = n['args'][0]
            if tgt is not None:
                out |= _vars_in(f, tgt)
    return out


def _is_intlike_var_cond(f, cond, stepped):
    """does cond compare (or test) a stepped variable?"""
    return bool(_vars_in(f, cond) & stepped)


def classify_loop(f, i):
    n = f.nodes[i]
    k = n['k']
    if k == 'CXXForRangeStmt':
        return 'container', 'range-for'
    cond = n.get('cond', -1)
    body = n.get('body', -1)
    inc = n.get('inc', -1) if k == 'ForStmt' else -1
    stepped = _stepped_vars(f, [inc, body] + ([cond] if cond is not None and cond >= 0 else []))
    const_true = False
    if cond is None or cond < 0:
        const_true = True
    else:
        cn = f.nodes[f.strip(cond)]
        if k == 'DoStmt' and cn.get('cv') is not None and int(cn['cv']) == 0:
            return 'once', 'do { } while (false)'
        # reading from a stream until it fails: bounded by the (finite) stream
        for j in f.walk(cond):
            ce = f.nodes[j].get('callee')
            if ce and not ce.get('inrepo') and (ce.get('name') == 'getline' or
                                                (ce.get('name') == 'operator>>')):
                return 'stream', 'bounded by the input stream (%s)' % ce['name']
        if cn.get('cv') is not None and int(cn['cv']) != 0 and not _vars_in(f, cond):
            const_true = True
    if not const_true:
        cv = _vars_in(f, cond)
        if cv & stepped:
            # integer / iterator / pointer typed?
            for j in f.walk(cond):
                nn = f.nodes[j]
                if nn['k'] == 'DeclRefExpr' and nn.get('d') in (cv & stepped):
                    t = nn.get('t', '')
                    if not is_float_t(t):
                        return 'counted', 'condition tests stepped variable %s' % nn['name']
                if nn['k'] == 'MemberExpr' and ('this.' + nn.get('m', '')) in (cv & stepped):
                    t = nn.get('t', '')
                    if not is_float_t(t):
                        return 'counted', 'condition tests stepped member %s' % nn['m']
    # an exit (break/return/throw) inside the body guarded by a stepped integer variable
    if body is not None and body >= 0:
        for j in f.walk(body):
            nn = f.nodes[j]
            if nn['k'] == 'IfStmt':
                exits = False
                for b in (nn.get('then', -1), nn.get('else', -1)):
                    if b is None or b < 0:
                        continue
                    bn = f.nodes[b]
                    kids = [b] if bn['k'] != 'CompoundStmt' else bn['ch']
                    for kk in kids:
                        if f.nodes[kk]['k'] in ('BreakStmt', 'ReturnStmt', 'CXXThrowExpr') or \
                                (f.nodes[kk]['k'] == 'ExprWithCleanups' and
                                 any(f.nodes[x]['k'] == 'CXXThrowExpr' for x in f.walk(kk))):
                            exits = True
                if exits:
                    cvars = _vars_in(f, nn['cond'])
                    for jj in f.walk(nn['cond']):
                        x = f.nodes[jj]
                        if x['k'] == 'DeclRefExpr' and x.get('d') in (cvars & stepped):
                            t = x.get('t', '')
                            if not is_float_t(t):
                                # the exit must not be nested in an inner loop
                                inner = False
                                for a in f.ancestors(j):
                                    if a == i:
                                        break
                                    if f.nodes[a]['k'] in ('ForStmt', 'WhileStmt', 'DoStmt', 'CXXForRangeStmt'):
                                        inner = True
                                if not inner:
                                    return 'counted', 'exit guarded by stepped variable %s' % x['name']
    return 'unbounded', 'no stepped integer variable in the loop condition or in an exit guard'


def rule_X6(ctx, files=None):
    res = RuleResult('X6', 'every loop is counted (a stepped integer/iterator variable is tested by the loop '
                           'condition or by an exit guard), container-bounded, or audited with its termination argument')
    nloops = 0
    kinds = {}
    used = {}
    for f in scoped_fns(ctx, files):
        for i, n in f.all_nodes():
            if n['k'] not in ('ForStmt', 'WhileStmt', 'DoStmt', 'CXXForRangeStmt'):
                continue
            nloops += 1
            kind, why = classify_loop(f, i)
            if kind == 'unbounded':
                aud = T.AUDITED_LOOPS.get(f.q)
                used[f.usr] = used.get(f.usr, 0) + 1
                if aud is not None and used[f.usr] <= aud[0]:
                    kind, why = 'audited', aud[1]
            kinds[kind] = kinds.get(kind, 0) + 1
            ok = kind != 'unbounded'
            res.ob(ok, {'loop': f.loc(i), 'in': f.q, 'class': kind, 'why': why}
                   if (not ok or kind == 'audited' or nloops % 50 == 1) else None)
            if not ok:
                res.fail(f.q, 'loop@' + f.src_text(i)[:50], f.loc(i),
                         'loop has no iteration cap: %s (a NaN or adversarial input may never satisfy a '
                         'floating-point exit test)' % why)
    res.analysed['loops'] = nloops
    res.analysed['classes'] = kinds
    return res, nloops


# ------------------------------------------------------------------ X5 constructor validation
NAN = float('nan')
INF = float('inf')
ROLE_OF = {'a': 'radius', 'f': 'flattening', 'k0': 'scale', 'k1': 'scale', 'k': 'scale',
           'stdlat': 'latitude', 'stdlat1': 'latitude', 'stdlat2': 'latitude', 'lat': 'latitude',
           'sinlat1': 'sine', 'sinlat2': 'sine', 'coslat1': 'cosine', 'coslat2': 'cosine'}
BAD = {'radius': [NAN, INF, -INF, 0.0, -1.0],
       'flattening': [NAN, INF, -INF, 1.0, 2.0],
       'scale': [NAN, INF, -INF, 0.0, -1.0],
       'latitude': [NAN, 91.0, -91.0, INF, -INF, 300.0, 450.0, -270.0, 360.0, 1e10],   # incl. aliases mod 360 with cos >= 0
       'sine': [NAN, 2.0, -2.0],
       'cosine': [NAN, -0.5, 2.0]}
GOOD = {'radius': 6378137.0, 'flattening': 1 / 298.257223563, 'scale': 0.9996, 'latitude': 40.0,
        'sine': 0.6, 'cosine': 0.8}


def x5_targets(ctx):
    out = []
    for f in scoped_fns(ctx, None):
        if f.d.get('implicit') or f.access != 'public' or f.d.get('nested_private'):
            continue
        if not (f.is_ctor or f.q in T.X5_SETTERS):
            continue
        if f.cls in T.X5_EXEMPT_CLASSES:
            continue
        roles = [(i, ROLE_OF[p['name']]) for i, p in enumerate(f.params)
                 if p.get('float') and p['pk'] in ('v', 'cr') and p['name'] in ROLE_OF]
        if not roles:
            continue
        if f.is_ctor and not any(r in ('radius', 'flattening') for _, r in roles):
            continue
        out.append((f, roles))
    return out


def rule_X5(ctx, classes=None):
    from ..cinterp import Interp, UNK
    res = RuleResult('X5', 'constructors and parameter setters reject every bad cell (NaN, +-inf, zero, negative, '
                           'out of range) of each ellipsoid / projection parameter, on every path (witness '
                           'interpretation of the validation logic, delegated constructors followed)')
    targets = [(f, r) for f, r in x5_targets(ctx) if classes is None or f.cls in classes]
    ip = Interp(ctx.prog, follow=T.X5_FOLLOW, nofollow=set(T.NOTHROW_WHEN_INTERNAL))
    nt = 0
    import itertools
    for f, roles in targets:
        nt += 1
        bools = [i for i, p in enumerate(f.params) if p['t'] in ('bool', 'const bool')]
        base = []
        for i, p in enumerate(f.params):
            r = dict(roles).get(i)
            if r is not None:
                v = GOOD[r]
                if p['name'] == 'stdlat2':
                    v = 60.0
                base.append(v)
            elif i in bools:
                base.append(None)
            else:
                base.append(UNK)
        combos = list(itertools.product([True, False], repeat=len(bools)))
        # sanity: all-good arguments construct successfully on some path
        anyok = False
        allouts = set()
        for cb in combos:
            args = list(base)
            for bi, bv in zip(bools, cb):
                args[bi] = bv
            outs = ip.explore(f, args, stop_on_ok=True)
            allouts |= outs
            anyok = anyok or ('ok' in outs)
            if anyok:
                break
        if not anyok:
            raise AnalysisBroken('X5: valid witness arguments do not construct %s (%s): %s'
                                 % (f.q, f.loc(), sorted(allouts)))
        for i, role in roles:
            for w in BAD[role]:
                bad_paths = []
                for cb in combos:
                    args = list(base)
                    for bi, bv in zip(bools, cb):
                        args[bi] = bv
                    args[i] = w
                    outs = ip.explore(f, args, stop_on_ok=True)     # one accepting path settles the question
                    if 'budget' in outs and 'ok' not in outs:
                        raise AnalysisBroken('X5: exploration budget exceeded in %s' % f.q)
                    if 'ok' in outs:
                        bad_paths.append(dict(zip([f.params[b]['name'] for b in bools], cb)))
                ok = not bad_paths
                res.ob(ok, {'fn': f.q, 'at': f.loc(), 'param': f.params[i]['name'], 'role': role,
                            'witness': repr(w), 'rejected': ok}
                       if (not ok or res.obligations % 60 == 0) else None)
                if not ok:
                    res.fail(f.q, '%s=%r' % (f.params[i]['name'], w), f.loc(),
                             '%s(%s) accepts %s = %r (%s): some path reaches normal return without a throw%s'
                             % (f.q, ', '.join(p['name'] for p in f.params), f.params[i]['name'], w, role,
                                (' for ' + str(bad_paths[0])) if bad_paths[0] else ''))
    res.analysed['constructors_and_setters'] = nt
    res.analysed['targets'] = sorted({f.q for f, _ in targets})
    return res, nt


# ------------------------------------------------------------------ NAN2 a NaN-decided arm keeps the NaN
def _arm_assigns(f, root):
    """float scalars assigned by plain `=` inside the statement root: decl id -> [(assignment node, rhs node)]."""
    out = {}
    if root is None or root < 0:
        return out
    for i in [root] + list(f.walk(root)):
        n = f.nodes[i]
        if n['k'] == 'BinaryOperator' and n.get('op') == '=' and len(n['ch']) == 2:
            ln = f.nodes[f.strip(n['ch'][0])]
            if ln['k'] == 'DeclRefExpr' and ln.get('rk') in ('local', 'param') and is_float_t(ln.get('t', '')):
                out.setdefault(ln['d'], []).append((i, n['ch'][1]))
    return out


def _fields_written(f):
    """fields of *this that the function stores into (they may carry what the function computed)."""
    out = set()
    for i, n in f.all_nodes():
        if n['k'] in ('BinaryOperator', 'CompoundAssignOperator') and n.get('op') in ASSIGN_OPS and n['ch']:
            ln = f.nodes[f.strip(n['ch'][0])]
            if ln['k'] == 'MemberExpr' and ln.get('mk') == 'field':
                out.add(ln.get('md'))
    return out


def _pure_const(f, nid, written=frozenset()):
    """the expression reads no local variable, no parameter, no field this function writes and is not Math::NaN():
    literals, untouched members and constant getters only, so its value cannot carry the NaN of an argument."""
    for i in [nid] + list(f.walk(nid)):
        n = f.nodes[i]
        if n['k'] == 'MemberExpr' and n.get('mk') == 'field' and n.get('md') in written:
            return False
        if n['k'] == 'DeclRefExpr' and n.get('rk') in ('local', 'param'):
            return False
        if n['k'] == 'LambdaExpr':
            return False
        ce = n.get('callee') or {}
        if ce.get('name') in ('NaN', 'quiet_NaN', 'signaling_NaN', 'nan'):
            return False
    return True


def _mentions_nan_test(f, nid):
    for i in [nid] + list(f.walk(nid)):
        ce = f.nodes[i].get('callee') or {}
        if ce.get('name') in ('isnan', 'isfinite', 'isinf', 'isnormal', 'signbit'):
            return True
    return False


def rule_NAN2(ctx, files=None):
    res = RuleResult('NAN2', 'a two-armed if whose condition is decided by a NaN argument (every ordered comparison '
                             'with NaN is false) does not send the NaN into the arm that stores pure constants in the '
                             'variables the other arm computes from that argument (the NaN would be replaced by a number)')
    nifs = 0
    for f in scoped_fns(ctx, files):
        if f.is_ctor or f.is_dtor:
            continue
        fparams = [i for i, p in enumerate(f.params) if p.get('float') and p['pk'] in ('v', 'cr')]
        if not fparams:
            continue
        ifs = [(i, n) for i, n in f.all_nodes()
               if n['k'] == 'IfStmt' and n.get('then', -1) >= 0 and n.get('else', -1) >= 0]
        if not ifs:
            continue
        written = _fields_written(f)
        for pi in fparams:
            ne = NanEval(f, pi, ctx.prog, outargs=True)
            for i, n in ifs:
                v = ne.ev(n['cond'])
                if v == 'U' or _mentions_nan_test(f, n['cond']):
                    continue
                # an enclosing test that already excludes the NaN (isnan / a comparison the NaN fails) makes this unreachable
                dead = False
                for c, pol in guards_of(f, i):
                    gv = ne.ev(c)
                    if gv != 'U' and (gv == 'T') != pol:
                        dead = True
                if dead:
                    continue
                nifs += 1
                taken, other = (n['then'], n['else']) if v == 'T' else (n['else'], n['then'])
                ta, oa = _arm_assigns(f, taken), _arm_assigns(f, other)
                bad = None
                for d, lst in ta.items():
                    if d not in oa:
                        continue
                    if all(_pure_const(f, r, written) for _, r in lst) and any(ne._dep(r) for _, r in oa[d]):
                        bad = (d, lst[0][0])
                        break
                res.ob(bad is None, {'fn': f.q, 'param': f.params[pi]['name'], 'if': f.loc(i), 'value': v}
                       if (bad or res.obligations % 40 == 0) else None)
                if bad:
                    res.fail(f.q, '%s@%s' % (f.params[pi]['name'], f.src_text(n['cond'])[:60].strip()), f.loc(i),
                             'a NaN in argument %s makes the condition %s and selects the arm that stores a constant '
                             '(no local, no argument: independent of %s) at %s, where the other arm computes it from %s: the NaN is replaced '
                             'by a number' % (f.params[pi]['name'], 'true' if v == 'T' else 'false',
                                              f.params[pi]['name'], f.loc(bad[1]), f.params[pi]['name']))
    res.analysed['nan_decided_two_armed_ifs'] = nifs
    return res, nifs
