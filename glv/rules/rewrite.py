"""RW1: order of a chain of literal rewrites.

DMS::Decode canonicalises its input with a straight-line chain of `replace(s, "<bytes>", '<c>')` calls. Two
orderings are forced by the literals themselves and are decided here from the literal values in the AST:

(a) a pattern that contains another pattern as a proper substring is rewritten first (the two-byte UTF-8 form
    "\\xc2\\xb0" before the bare byte "\\xb0", otherwise the bare rule eats half of the UTF-8 sequence);
(b) a pattern that contains the product character of other rewrites is rewritten after all of them (the pair
    "''" -> '"' only after every alternative minute symbol has become '), otherwise the documented equivalence of
    the alternatives is lost for that pattern.
"""
from ..core import RuleResult
from ..build import AnalysisBroken


def _chain(f):
    """{(callee, target decl): [(node, pattern bytes, product byte)]} in source order."""
    out = {}
    for i, n in f.all_nodes():
        ce = n.get('callee')
        if not ce or n['k'] != 'CallExpr' or len(n.get('args', [])) != 3:
            continue
        a0, a1, a2 = [f.nodes[f.strip_casts(a)] for a in n['args']]
        if a0['k'] != 'DeclRefExpr' or 'basic_string' not in a0.get('t', ''):
            continue
        pat = None
        for j in f.walk(n['args'][1]):
            if f.nodes[j]['k'] == 'StringLiteral':
                pat = bytes(f.nodes[j]['bytes'])
        if pat is None or a2['k'] != 'CharacterLiteral':
            continue
        out.setdefault((ce.get('q'), a0.get('d')), []).append((i, pat, int(a2['v']) & 0xff))
    return out


def rule_RW1(ctx, files=None):
    res = RuleResult('RW1', 'order of literal rewrites: in a chain of replace(s, pattern, c) calls, a pattern containing '
                            'another pattern is rewritten before it, and a pattern containing the product character of other '
                            'rewrites is rewritten after all of them')
    nchain = 0
    ncalls = 0
    for f in sorted(ctx.lib_fns(), key=lambda x: (x.file, x.line)):
        if files and not any(f.file.endswith(x) for x in files):
            continue
        if f.d.get('body', -1) < 0:
            continue
        for (q, tgt), calls in sorted(_chain(f).items(), key=lambda kv: str(kv[0])):
            if len(calls) < 2:
                continue
            nchain += 1
            ncalls += len(calls)
            calls.sort(key=lambda c: (f.nodes[c[0]].get('l', 0), f.nodes[c[0]].get('c', 0)))
            for k, (ik, pk, ck) in enumerate(calls):
                for j, (ij, pj, cj) in enumerate(calls):
                    if j == k:
                        continue
                    if len(pj) < len(pk) and pj in pk:
                        ok = k < j
                        res.ob(ok, {'fn': f.q, 'longer': repr(pk), 'shorter': repr(pj), 'at': [f.loc(ik), f.loc(ij)]})
                        if not ok:
                            res.fail(f.q, 'replace(%r)' % pk, f.loc(ik),
                                     'the pattern %r (at %s) contains the pattern %r, which is rewritten earlier (at %s) and '
                                     'consumes part of it' % (pk, f.loc(ik), pj, f.loc(ij)))
                    if bytes([cj]) in pk and cj != 0 and pj != pk:
                        ok = j < k
                        res.ob(ok, {'fn': f.q, 'pattern': repr(pk), 'needs_product_of': repr(pj), 'at': [f.loc(ik), f.loc(ij)]}
                               if not ok else None)
                        if not ok:
                            res.fail(f.q, 'replace(%r)' % pk, f.loc(ik),
                                     'the pattern %r (at %s) contains %r, which the rewrite of %r at %s produces only '
                                     'afterwards: that alternative spelling is not recognised in this pattern'
                                     % (pk, f.loc(ik), chr(cj), pj, f.loc(ij)))
    res.analysed.update({'rewrite_chains': nchain, 'rewrite_calls': ncalls})
    return res, nchain, ncalls
