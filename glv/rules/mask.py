"""R-MASK: the output-mask / capability discipline (C12; instances in C03, C08, C09, C17)."""
from ..build import AnalysisBroken
from ..core import RuleResult
from ..flow import Flow, BV, TRUE, FALSE, NBITS
from .tab import Consts

NS = 'GeographicLib::'
MASK_CLASSES = ['Geodesic', 'GeodesicLine', 'GeodesicExact', 'GeodesicLineExact', 'Rhumb', 'RhumbLine']
OUTPUT_NAMES = ['LATITUDE', 'LONGITUDE', 'AZIMUTH', 'DISTANCE', 'DISTANCE_IN', 'REDUCEDLENGTH',
                'GEODESICSCALE', 'AREA', 'LONG_UNROLL']
OUT_MASK = 0xFF80
# output parameter name -> enumerator (confirmed by reading the documentation of each Gen* function)
PARAM_ENUM = {
    'lat2': 'LATITUDE', 'lon2': 'LONGITUDE', 'azi2': 'AZIMUTH', 'azi1': 'AZIMUTH', 'azi12': 'AZIMUTH',
    's12': 'DISTANCE', 's12b': 'DISTANCE', 's12s': 'DISTANCE',
    'm12': 'REDUCEDLENGTH', 'm12b': 'REDUCEDLENGTH', 'm12a': 'REDUCEDLENGTH', 'm0': 'REDUCEDLENGTH',
    'M12': 'GEODESICSCALE', 'M21': 'GEODESICSCALE', 'S12': 'AREA',
}
GATED_FUNCS = ['GenDirect', 'GenInverse', 'GenPosition', 'Lengths']


def enums(ctx, cls):
    return ctx.prog.enum_values(NS + cls)


def out_bit(ctx, cls, name):
    ev = enums(ctx, cls)
    if name not in ev:
        raise AnalysisBroken('anchor vanished: %s::%s' % (cls, name))
    b = ev[name] & OUT_MASK
    if b == 0 or (b & (b - 1)) != 0:
        raise AnalysisBroken('%s::%s does not have exactly one output bit (0x%x)' % (cls, name, ev[name]))
    return b.bit_length() - 1


# ------------------------------------------------------------------ M1
def rule_M1(ctx):
    res = RuleResult('M1', 'the six mask enums agree: same output bit per name everywhere, line == solver, '
                           'exact capability bits are a subset of the series ones (caps are reinterpreted), '
                           'OUT_MASK/OUT_ALL/CAP_ALL equal and ALL == OUT_ALL | CAP_ALL')
    K = Consts(ctx.prog)
    ev = {c: enums(ctx, c) for c in MASK_CLASSES}
    for c in MASK_CLASSES:
        if 'LATITUDE' not in ev[c]:
            raise AnalysisBroken('anchor vanished: mask enum of ' + c)
    ref = ev['Geodesic']
    n = 0
    # (a) output bits identical across all six
    for name in OUTPUT_NAMES:
        for c in MASK_CLASSES:
            if name not in ev[c]:
                continue
            n += 1
            a, b = ev[c][name] & OUT_MASK, ref[name] & OUT_MASK
            ok = a == b and a != 0 and (a & (a - 1)) == 0
            res.ob(ok, {'enumerator': '%s::%s' % (c, name), 'out_bits': hex(a), 'reference': hex(b)} if (not ok or n % 12 == 1) else None)
            if not ok:
                res.fail(c, name, '', '%s::%s has output bits 0x%x but Geodesic::%s has 0x%x: masks are forwarded '
                         'verbatim between these classes' % (c, name, a, name, b))
    # distinct output bits within a class
    for c in MASK_CLASSES:
        seen = {}
        for name in OUTPUT_NAMES:
            if name in ev[c]:
                b = ev[c][name] & OUT_MASK
                n += 1
                ok = b not in seen
                res.ob(ok, None)
                if not ok:
                    res.fail(c, name, '', '%s::%s shares its output bit 0x%x with %s' % (c, name, b, seen[b]))
                seen[b] = name
    # (b) line == solver
    for line, solver in (('GeodesicLine', 'Geodesic'), ('GeodesicLineExact', 'GeodesicExact'), ('RhumbLine', 'Rhumb')):
        for name, v in ev[solver].items():
            if name in ev[line]:
                n += 1
                ok = ev[line][name] == v
                res.ob(ok, {'pair': '%s::%s == %s::%s' % (line, name, solver, name), 'value': hex(v)} if (not ok or n % 10 == 0) else None)
                if not ok:
                    res.fail(line, name, '', '%s::%s = 0x%x differs from %s::%s = 0x%x' % (line, name, ev[line][name], solver, name, v))
    # (c) capability reinterpretation Geodesic -> GeodesicExact
    for name in OUTPUT_NAMES + ['ALL']:
        if name in ev['Geodesic'] and name in ev['GeodesicExact']:
            n += 1
            cs = ev['Geodesic'][name] & ~OUT_MASK
            ce = ev['GeodesicExact'][name] & ~OUT_MASK
            ok = (ce & ~cs) == 0
            res.ob(ok, {'reinterpretation': name, 'series_caps': hex(cs), 'exact_caps': hex(ce)})
            if not ok:
                res.fail('GeodesicExact', name, '', 'GeodesicExact::%s needs capability bits 0x%x that Geodesic::%s (0x%x) '
                         'does not carry: GeodesicLine::LineInit hands series caps to the exact line' % (name, ce & ~cs, name, cs))
    # (d) OUT_MASK / OUT_ALL / CAP_ALL
    vals = {}
    for c in MASK_CLASSES:
        for nm in ('OUT_MASK', 'OUT_ALL', 'CAP_ALL'):
            try:
                vals[(c, nm)] = K.i(NS + c + '::' + nm)
            except AnalysisBroken:
                pass
    for nm in ('OUT_MASK', 'OUT_ALL'):
        vs = {c: v for (c, k), v in vals.items() if k == nm}
        n += 1
        ok = len(set(vs.values())) == 1 and len(vs) >= 4
        res.ob(ok, {'constant': nm, 'values': {c: hex(v) for c, v in vs.items()}})
        if not ok:
            res.fail('Geodesic', nm, '', '%s differs between classes: %s' % (nm, {c: hex(v) for c, v in vs.items()}))
    for c in MASK_CLASSES:
        if (c, 'OUT_ALL') in vals and (c, 'CAP_ALL') in vals and 'ALL' in ev[c]:
            n += 1
            ok = ev[c]['ALL'] == vals[(c, 'OUT_ALL')] | vals[(c, 'CAP_ALL')]
            res.ob(ok, {'check': '%s::ALL == OUT_ALL | CAP_ALL' % c, 'ALL': hex(ev[c]['ALL'])})
            if not ok:
                res.fail(c, 'ALL', '', '%s::ALL = 0x%x is not OUT_ALL | CAP_ALL' % (c, ev[c]['ALL']))
        if (c, 'OUT_MASK') in vals:
            # every output enumerator lies inside OUT_MASK and every cap bit outside
            for name in OUTPUT_NAMES:
                if name in ev[c]:
                    n += 1
                    ok = (ev[c][name] & vals[(c, 'OUT_MASK')]) == (ev[c][name] & OUT_MASK)
                    res.ob(ok, None)
    # (e) the line initialisers of the sibling classes force the same always-available outputs
    forced = {}
    for cls in ('GeodesicLine', 'GeodesicLineExact'):
        fs = ctx.prog.fn(NS + cls + '::LineInit')
        if not fs:
            raise AnalysisBroken('anchor vanished: %s::LineInit' % cls)
        f = fs[0]
        fl = Flow(f)
        env = fl.env_in.get(f.cfg['exit'], {})
        bv = env.get('this._caps')
        if bv is None:
            raise AnalysisBroken('%s::LineInit does not assign _caps on every path' % cls)
        forced[cls] = {k for k in range(16) if bv.bits[k] == TRUE}
    n += 1
    ok = forced['GeodesicLine'] == forced['GeodesicLineExact']
    want = set()
    for nm in ('LATITUDE', 'AZIMUTH', 'LONG_UNROLL'):
        want |= {k for k in range(16) if (ref[nm] >> k) & 1 and (1 << k) & OUT_MASK}
    res.ob(ok, {'forced_caps': {c: sorted(v) for c, v in forced.items()}})
    if not ok:
        res.fail('GeodesicLineExact', 'LineInit::_caps', '', 'GeodesicLine::LineInit forces capability bits %s but '
                 'GeodesicLineExact::LineInit forces %s: the same request is answered by one kind of line and silently '
                 'dropped by the other' % (sorted(forced['GeodesicLine']), sorted(forced['GeodesicLineExact'])))
    for cls in forced:
        n += 1
        ok = want <= forced[cls]
        res.ob(ok, {'class': cls, 'always_allowed': sorted(want), 'forced': sorted(forced[cls])})
        if not ok:
            res.fail(cls, 'LineInit::_caps', '', '%s::LineInit does not force the always-available outputs LATITUDE, '
                     'AZIMUTH, LONG_UNROLL (bits %s) into _caps; it forces %s' % (cls, sorted(want), sorted(forced[cls])))
    res.analysed['relations'] = n
    return res, n


# ------------------------------------------------------------------ gated functions
def gated_functions(ctx):
    """library functions with a mask parameter and floating reference outputs."""
    out = []
    for f in ctx.lib_fns():
        if not f.is_method or f.name not in GATED_FUNCS:
            continue
        cls = (f.cls or '').replace(NS, '')
        if cls not in MASK_CLASSES:
            continue
        mp = [i for i, p in enumerate(f.params) if p['name'] == 'outmask' and p['pk'] == 'v']
        outs = [i for i, p in enumerate(f.params) if p['pk'] == 'r' and p.get('float') and p['name'] in PARAM_ENUM]
        if not mp or not outs:
            continue
        out.append((f, cls, mp[0], outs))
    return out


class MaskCtx:
    """per-run cache: flows with call-site-derived entry constraints for private gated functions."""

    def __init__(self, ctx):
        self.ctx = ctx
        self.gated = gated_functions(ctx)
        self.by_usr = {f.usr: (f, cls, mp, outs) for f, cls, mp, outs in self.gated}
        self.flows = {}
        self.entry_zero = {}      # fn usr -> set of mask bits known to be 0 at every call site
        self._entry_constraints()

    def flow(self, f):
        fl = self.flows.get(f.usr)
        if fl is None:
            env = {}
            if f.usr in self.by_usr and f.usr in self.entry_zero:
                _, cls, mp, _ = self.by_usr[f.usr]
                p = f.params[mp]
                bits = []
                for k in range(NBITS):
                    if k in self.entry_zero[f.usr]:
                        bits.append(FALSE)
                    else:
                        bits.append(frozenset([frozenset([('b:in:%s:%d' % (p['name'], k), True)])]))
                env['v:' + p['d']] = BV(bits)
            fl = Flow(f, entry_env=env)
            self.flows[f.usr] = fl
        return fl

    def _entry_constraints(self):
        """for non-public gated functions: bits of the incoming mask that are 0 at every call site."""
        prog = self.ctx.prog
        private = {u for u, (f, cls, mp, outs) in self.by_usr.items() if f.access == 'private'}
        for _ in range(4):
            changed = False
            sites = {u: [] for u in private}
            for f in self.ctx.lib_fns():
                calls = [(i, n) for i, n in f.all_nodes() if n.get('callee') and n['callee'].get('usr') in private]
                if not calls:
                    continue
                fl = self.flow(f)
                for i, n in calls:
                    cu = n['callee']['usr']
                    mp = self.by_usr[cu][2]
                    if mp >= len(n.get('args', [])):
                        continue
                    bv = fl.eval_bv(n['args'][mp], fl.env_at(i))
                    sites[cu].append({k for k in range(NBITS) if bv.bits[k] == FALSE})
            for u, ss in sites.items():
                z = set.intersection(*ss) if ss else set()
                if self.entry_zero.get(u) != z:
                    self.entry_zero[u] = z
                    changed = True
                    self.flows.pop(u, None)
            if not changed:
                break
            # callers that are themselves private gated functions must be re-flowed
            for u in private:
                self.flows.pop(u, None)


def get_maskctx(ctx):
    if not hasattr(ctx, '_maskctx'):
        ctx._maskctx = MaskCtx(ctx)
    return ctx._maskctx


def _entailed(alts, lit):
    return all(lit in a for a in alts)


def _entailed_with(alts, cond_dnf, lit):
    """facts /\\ cond |= lit ?"""
    for a in alts:
        for c in cond_dnf:
            z = a | c
            if any((l[0], not l[1]) in z for l in z):
                continue
            if lit not in z:
                return False
    return True


# ------------------------------------------------------------------ M2
def rule_M2(ctx, only_outputs=None, classes=None):
    res = RuleResult('M2', 'gated write: every store to an output argument of a Gen*/Lengths function is on paths '
                           'that establish the corresponding bit of the incoming mask (unrequested outputs untouched); '
                           'writes made by callees are judged through the bit-level value of the mask they are passed')
    mc = get_maskctx(ctx)
    S = ctx.summaries
    nfn = 0
    nst = 0
    for f, cls, mp, outs in sorted(mc.gated, key=lambda x: (x[0].file, x[0].line)):
        if classes and cls not in classes:
            continue
        nfn += 1
        fl = mc.flow(f)
        mname = f.params[mp]['name']
        need = {}
        for pi in outs:
            pn = f.params[pi]['name']
            if only_outputs and pn not in only_outputs:
                continue
            need[pi] = out_bit(ctx, cls, PARAM_ENUM[pn])
        for kind, nid, path, extra in S.events[f.usr]:
            if path is None or path.root[0] != 'param' or path.root[1] not in need:
                continue
            pi = path.root[1]
            bit = need[pi]
            lit = ('b:in:%s:%d' % (mname, bit), True)
            alts = fl.facts_at(nid)
            if not alts:
                continue     # unreachable
            if kind == 'store' or kind == 'mcall':
                nst += 1
                ok = _entailed(alts, lit)
                how = 'direct store'
            elif kind == 'argout':
                ce, j = extra
                cu = ce.get('usr')
                nst += 1
                if cu in mc.by_usr:
                    cf, ccls, cmp_, couts = mc.by_usr[cu]
                    if j in couts:
                        cbit = out_bit(ctx, ccls, PARAM_ENUM[cf.params[j]['name']])
                        n = f.nodes[nid]
                        bv = fl.eval_bv(n['args'][cmp_], fl.env_at(nid))
                        cond = bv.bits[cbit]
                        ok = _entailed_with(alts, cond, lit)
                        how = 'callee %s writes position %s under its bit %d = %s' % (cf.q, cf.params[j]['name'], cbit,
                                                                                      BV([cond] + [FALSE] * (NBITS - 1)).show())
                    else:
                        # non-gated output position of a gated callee (salp1 ...): does the callee write it?
                        ok = not S.writes_param(cu, j) or _entailed(alts, lit)
                        how = 'ungated position of %s' % cf.q
                elif cu in ctx.prog.fns:
                    ok = (not S.writes_param(cu, j)) or _entailed(alts, lit)
                    how = 'callee %s may write it' % ce.get('q')
                else:
                    ok = _entailed(alts, lit)
                    how = 'external callee %s' % ce.get('q')
            else:
                continue
            res.ob(ok, {'fn': f.q, 'output': f.params[pi]['name'], 'at': f.loc(nid), 'needs_bit': bit, 'how': how}
                   if (not ok or nst % 12 == 1) else None)
            if not ok:
                res.fail(f.q, f.params[pi]['name'], f.loc(nid),
                         'output %s is written (%s) on a path that does not establish bit %d (%s) of the incoming mask: '
                         'an unrequested output would be modified'
                         % (f.params[pi]['name'], how, bit, PARAM_ENUM[f.params[pi]['name']]))
    res.analysed['gated_functions'] = nfn
    res.analysed['writes_examined'] = nst
    return res, nfn, nst


# ------------------------------------------------------------------ M4 (overload forwarding)
def rule_M4_overloads(ctx, only_outputs=None):
    res = RuleResult('M4', 'requested >= consumed (forwarding overloads): a user-visible reference parameter is forwarded '
                           'to a Gen* function only at a position whose bit is in the mask that call passes')
    mc = get_maskctx(ctx)
    ncalls = 0
    nargs = 0
    for f in sorted(ctx.lib_fns(), key=lambda x: (x.file, x.line)):
        if f.usr in mc.by_usr:
            continue       # the gated functions themselves are judged by M2
        userrefs = {i for i, p in enumerate(f.params) if p['pk'] == 'r' and p.get('float')}
        if not userrefs:
            continue
        fl = None
        for i, n in f.all_nodes():
            ce = n.get('callee')
            if not ce or ce.get('usr') not in mc.by_usr:
                continue
            cf, ccls, cmp_, couts = mc.by_usr[ce['usr']]
            args = n.get('args', [])
            if cmp_ >= len(args):
                continue
            if fl is None:
                fl = mc.flow(f)
            ncalls += 1
            bv = fl.eval_bv(args[cmp_], fl.env_at(i))
            alts = fl.facts_at(i)
            for j in couts:
                if j >= len(args):
                    continue
                an = f.nodes[f.strip(args[j])]
                if an['k'] != 'DeclRefExpr' or an.get('rk') != 'param' or an.get('pidx') not in userrefs:
                    continue
                pn = cf.params[j]['name']
                if only_outputs and pn not in only_outputs:
                    continue
                cbit = out_bit(ctx, ccls, PARAM_ENUM[pn])
                nargs += 1
                cond = bv.bits[cbit]
                ok = cond == TRUE
                if not ok and cond != FALSE:
                    # requested under a condition the path establishes (e.g. arcmode-dependent masks)
                    ok = all(any(c <= a for c in cond) for a in alts) if alts else True
                res.ob(ok, {'overload': f.q, 'at': f.loc(i), 'forwards': f.params[an['pidx']]['name'],
                            'to': '%s(%s)' % (cf.name, pn), 'bit': cbit, 'mask': bv.show()}
                       if (not ok or nargs % 15 == 1) else None)
                if not ok:
                    res.fail(f.q, f.params[an['pidx']]['name'], f.loc(i),
                             '%s forwards its result parameter %s to %s at the %s position but the mask it passes (%s) '
                             'does not request bit %d (%s): the caller gets an untouched value'
                             % (f.q, f.params[an['pidx']]['name'], cf.q, pn, bv.show(), cbit, PARAM_ENUM[pn]))
    res.analysed['forwarding_call_sites'] = ncalls
    res.analysed['forwarded_outputs'] = nargs
    return res, ncalls, nargs
