"""D1: derived members are re-established by every setter.

Construction computes some data members from others (`_nrho0 = _a * _k0 / _scbet0`).  A public non-const member
function that later rewrites a source member (`_k0 *= k`) must also rewrite every member construction derived
from it, or re-run the initialisation; otherwise the object describes two different parameter sets at once.

The dependence relation is read from the code of the constructors and of the functions they call on `this`
(member read in the right-hand side of a member's definition, closed over locals and transitively over
members); the write sets are the transitive member-write summaries.  Nothing is frozen.
"""
from ..core import RuleResult
from ..flow import ASSIGN_OPS


def _member_reads(f, root, local_defs, seen_locals):
    """members of *this read by expression root (through locals defined in f)."""
    out = set()
    # the value of a chained assignment `a = b = e` is e: the assigned-to lvalues are not read
    skip = set()
    for j in f.walk(root):
        n = f.nodes[j]
        if n['k'] == 'BinaryOperator' and n.get('op') == '=':
            skip.update(f.walk(n['ch'][0]))
    for j in f.walk(root):
        if j in skip:
            continue
        n = f.nodes[j]
        if n['k'] == 'MemberExpr' and n.get('mk') == 'field' and n.get('thisbase'):
            out.add(n['m'])
        elif n['k'] == 'DeclRefExpr' and n.get('rk') == 'local' and n['d'] not in seen_locals:
            seen_locals.add(n['d'])
            for r in local_defs.get(n['d'], []):
                out |= _member_reads(f, r, local_defs, seen_locals)
    return out


def _local_defs(f):
    defs = {}
    for i, n in f.all_nodes():
        if n['k'] == 'DeclStmt':
            for d in n['decls']:
                if d.get('init', -1) >= 0:
                    defs.setdefault(d['d'], []).append(d['init'])
        elif n['k'] in ('BinaryOperator', 'CompoundAssignOperator') and n.get('op') in ASSIGN_OPS:
            ln = f.nodes[f.strip(n['ch'][0])]
            if ln['k'] == 'DeclRefExpr' and ln.get('rk') == 'local':
                defs.setdefault(ln['d'], []).append(n['ch'][1])
        elif n.get('callee') and n.get('args'):
            # a local passed by non-const reference is defined from the other arguments
            pk = (n['callee'] or {}).get('pk', [])
            off = 1 if (n.get('ckind') == 'operator' and n['callee'].get('method')) else 0
            for ai, a in enumerate(n['args'][off:]):
                if ai < len(pk) and pk[ai] in ('r', 'p'):
                    an = f.nodes[f.strip(a)]
                    if an['k'] == 'DeclRefExpr' and an.get('rk') == 'local':
                        for bi, b in enumerate(n['args'][off:]):
                            if bi != ai:
                                defs.setdefault(an['d'], []).append(b)
    return defs


def _member_defs(f):
    """(member, rhs root) pairs of function f: ctor initialisers, assignments, by-reference outputs."""
    out = []
    for it in f.d.get('inits', []):
        if it.get('kind') == 'member' and it.get('init', -1) >= 0 and it.get('written'):
            out.append((it['m'], it['init'], False))
    for i, n in f.all_nodes():
        if n['k'] in ('BinaryOperator', 'CompoundAssignOperator') and n.get('op') in ASSIGN_OPS:
            ln = f.nodes[f.strip(n['ch'][0])]
            if ln['k'] == 'MemberExpr' and ln.get('mk') == 'field' and ln.get('thisbase'):
                out.append((ln['m'], n['ch'][1], n['op'] != '='))
        elif n.get('callee') and n.get('args'):
            pk = (n['callee'] or {}).get('pk', [])
            off = 1 if (n.get('ckind') == 'operator' and n['callee'].get('method')) else 0
            for ai, a in enumerate(n['args'][off:]):
                if ai < len(pk) and pk[ai] in ('r', 'p'):
                    an = f.nodes[f.strip(a)]
                    if an['k'] == 'MemberExpr' and an.get('mk') == 'field' and an.get('thisbase'):
                        for bi, b in enumerate(n['args'][off:]):
                            if bi != ai:
                                out.append((an['m'], b, False))
    return out


def rule_D1(ctx, classes, audited=None):
    from . import licrules
    res = RuleResult('D1', 'derived members: a public non-const member function that rewrites a member from which '
                           'construction derives other members also rewrites those (or re-runs the initialisation)')
    audited = audited or {}
    lc = licrules.get_licctx(ctx)
    mw = lc.member_writes
    prog = ctx.prog
    nset = 0
    ndeps = 0
    for cls in classes:
        fns = [f for f in ctx.lib_fns() if f.cls == cls and f.is_method and not f.d.get('implicit')]
        if not fns:
            continue
        by_usr = {f.usr: f for f in fns}
        # INIT: constructors and what they call on this
        init = {f.usr for f in fns if f.is_ctor}
        work = list(init)
        while work:
            u = work.pop()
            f = by_usr.get(u)
            if f is None:
                continue
            for kind, nid, path, extra in ctx.summaries.events[u]:
                if kind in ('mcall', 'ccall') and path is not None and path.root == ('this',) and not path.steps:
                    cu = extra.get('usr')
                    if cu in by_usr and cu not in init:
                        init.add(cu)
                        work.append(cu)
        deps = {}
        for u in init:
            f = by_usr[u]
            ld = _local_defs(f)
            for m, rhs, compound in _member_defs(f):
                rd = _member_reads(f, rhs, ld, set())
                if compound:
                    rd.add(m)
                deps.setdefault(m, set()).update(rd - {m})
        # transitive closure
        changed = True
        while changed:
            changed = False
            for m, ds in deps.items():
                for d in list(ds):
                    extra = deps.get(d, set()) - ds - {m}
                    if extra:
                        ds |= extra
                        changed = True
        ndeps += sum(len(v) for v in deps.values())
        for f in fns:
            if f.usr in init or f.is_ctor or f.is_dtor or f.is_const or f.is_static or f.access != 'public':
                continue
            if f.name.startswith('operator'):
                continue
            w = mw.get(f.usr, set())
            if not w:
                continue
            nset += 1
            stale = {}
            for m2, ds in deps.items():
                if m2 in w:
                    continue
                src = ds & w
                if src:
                    stale[m2] = sorted(src)
            ok = not stale
            for m2, src in sorted(stale.items()):
                key = (f.q, m2)
                if key in audited:
                    res.ob(True, {'fn': f.q, 'member': m2, 'audited': audited[key]})
                    continue
                res.ob(False, {'fn': f.q, 'rewrites': src, 'stale': m2})
                res.fail(f.q, m2, f.loc(),
                         '%s rewrites %s but not %s, which construction derives from %s: the object is left '
                         'inconsistent' % (f.q, ', '.join(src), m2, ', '.join(src)))
            if ok:
                res.ob(True, {'fn': f.q, 'writes': sorted(w)[:8]} if nset % 5 == 1 else None)
    res.analysed.update({'setters': nset, 'member_dependences': ndeps, 'classes': len(classes)})
    return res, nset, ndeps
