"""Generic contradiction rules with (near) zero expected count, scoped per property by its anchor files.

SW1  swapped arguments: a call passes two variables whose names are exactly the names of the callee's
     parameters at each other's position (`Sv(k, m, n, f)` for `Sv(int k, int n, int m, real f)`).
OV1  overflow before widening: a product of two or more non-constant 32-bit integer factors is converted to a
     64-bit type only after the multiplication (`pixel_size_ * _width * _height` compared with a 64-bit length).
"""
import json
import os
import re

from ..core import RuleResult
from ..build import VERIF

NS = 'GeographicLib::'

# audited name-swaps: deliberate, with the reason
SW1_AUDITED = {
    (NS + 'AzimuthalEquidistant::Reverse', 'atan2d'): 'azimuth is measured from north, clockwise: atan2d(x, y) on purpose',
    (NS + 'Gnomonic::Reverse', 'atan2d'): 'azimuth is measured from north, clockwise: atan2d(x, y) on purpose',
}


def anchor_files(prop):
    out = []
    with open(os.path.join(VERIF, 'properties.jsonl')) as f:
        for line in f:
            d = json.loads(line)
            if d['id'] == prop:
                out = list(d.get('anchors', {}).get('files', []))
    if any('*' in x for x in out):
        return None          # the whole library
    return [x.replace('include/', '') for x in out]


def _in(f, files):
    return files is None or any(f.file.endswith(x) for x in files)


def rule_SW1(ctx, files=None):
    res = RuleResult('SW1', 'swapped arguments: no call passes two variables that carry the names of the callee\'s parameters at '
                            'each other\'s position')
    ncalls = 0
    for f in sorted(ctx.lib_fns(), key=lambda x: (x.file, x.line)):
        if not _in(f, files):
            continue
        for i, nd in f.all_nodes():
            ce = nd.get('callee')
            if not ce or not ce.get('pn') or not nd.get('args'):
                continue
            off = 1 if (nd.get('ckind') == 'operator' and ce.get('method')) else 0
            args = nd['args'][off:]
            pn = ce['pn']
            cdef = ctx.prog.fns.get(ce.get('usr'))
            if cdef is not None and len(cdef.params) == len(pn):
                pn = [p_['name'] for p_ in cdef.params]       # the definition's names (a declaration may differ)
            names = []
            for a in args:
                an = f.nodes[f.strip_casts(a)]
                names.append(an.get('name') if an['k'] == 'DeclRefExpr' else (an.get('m') if an['k'] == 'MemberExpr' else None))
            if sum(1 for x in names if x) < 1:
                continue
            ncalls += 1
            for a_i in range(min(len(names), len(pn))):
                for a_j in range(a_i + 1, min(len(names), len(pn))):
                    if names[a_i] and names[a_j] and names[a_i] != names[a_j] and \
                            names[a_i] == pn[a_j] and names[a_j] == pn[a_i]:
                        key = (f.q, ce.get('name'))
                        if key in SW1_AUDITED:
                            res.ob(True, {'fn': f.q, 'call': ce.get('q'), 'audited': SW1_AUDITED[key]})
                            continue
                        res.ob(False, {'fn': f.q, 'call': ce.get('q'), 'at': f.loc(i), 'arguments': [names[a_i], names[a_j]],
                                       'parameters': [pn[a_i], pn[a_j]]})
                        res.fail(f.q, '%s(%s,%s)' % (ce.get('name'), names[a_i], names[a_j]), f.loc(i),
                                 '%s is called with (%s, %s) at the positions of its parameters (%s, %s): the arguments are '
                                 'swapped' % (ce.get('q'), names[a_i], names[a_j], pn[a_i], pn[a_j]))
            # a boolean flag passed at the position of a different flag although the callee has a flag of that very name
            pt = ce.get('pk', [])
            for a_i in range(min(len(names), len(pn))):
                an = f.nodes[f.strip_casts(args[a_i])]
                if not names[a_i] or names[a_i] == pn[a_i] or names[a_i] not in pn:
                    continue
                if an.get('t', '').replace('const ', '').strip() != 'bool':
                    continue
                a_j = pn.index(names[a_i])
                other = names[a_j] if a_j < len(names) else None
                if other == names[a_i]:
                    continue
                res.ob(False, {'fn': f.q, 'call': ce.get('q'), 'at': f.loc(i), 'flag': names[a_i], 'passed_as': pn[a_i]})
                res.fail(f.q, '%s(%s as %s)' % (ce.get('name'), names[a_i], pn[a_i]), f.loc(i),
                         'the flag %s is passed to %s at the position of its parameter %s, while the parameter called %s '
                         'receives %s: boolean arguments in the wrong order'
                         % (names[a_i], ce.get('q'), pn[a_i], names[a_i], other or 'another expression'))
            # a by-value flag of the caller that carries the very name of the callee's flag is what is passed there
            own = {p_['name'] for p_ in f.params if p_['pk'] in ('v', 'cr') and
                   p_.get('t', '').replace('const ', '').strip() == 'bool'}
            for a_i in range(min(len(names), len(pn))):
                an = f.nodes[f.strip_casts(args[a_i])]
                if not names[a_i] or names[a_i] == pn[a_i] or pn[a_i] not in own or pn[a_i] in names:
                    continue
                if an['k'] != 'DeclRefExpr' or an.get('t', '').replace('const ', '').strip() != 'bool':
                    continue
                res.ob(False, {'fn': f.q, 'call': ce.get('q'), 'at': f.loc(i), 'flag': names[a_i], 'passed_as': pn[a_i]})
                res.fail(f.q, '%s(%s as %s)' % (ce.get('name'), names[a_i], pn[a_i]), f.loc(i),
                         '%s receives the flag %s for its parameter %s although %s has a flag argument called %s that is '
                         'passed nowhere in this call' % (ce.get('q'), names[a_i], pn[a_i], f.q, pn[a_i]))
            res.ob(True, None)
    res.analysed['calls_with_named_arguments'] = ncalls
    return res, ncalls


W64 = ('long long', 'unsigned long long', 'long', 'unsigned long', 'std::streamoff', 'streamoff', 'size_t', 'std::size_t',
       'std::streamsize')


def _is32(t):
    return t.replace('const ', '').strip() in ('int', 'unsigned int', 'unsigned')


def rule_OV1(ctx, files=None):
    res = RuleResult('OV1', 'overflow before widening: no product of two or more non-constant 32-bit integer factors is '
                            'converted to a 64-bit type only after the multiplication')
    nmul = 0
    for f in sorted(ctx.lib_fns(), key=lambda x: (x.file, x.line)):
        if not _in(f, files):
            continue
        for i, nd in f.all_nodes():
            if nd['k'] != 'BinaryOperator' or nd.get('op') != '*' or not _is32(nd.get('t', '')) or 'cv' in nd:
                continue
            # only the outermost product of a chain
            p = f.parent[i]
            if p >= 0 and f.nodes[p]['k'] == 'BinaryOperator' and f.nodes[p].get('op') == '*' and _is32(f.nodes[p].get('t', '')):
                continue
            nmul += 1
            # non-constant factors of the chain
            fac = []
            st = [i]
            while st:
                j = f.strip(st.pop())
                jn = f.nodes[j]
                if jn['k'] == 'BinaryOperator' and jn.get('op') == '*' and _is32(jn.get('t', '')) and 'cv' not in jn:
                    st += jn['ch']
                elif 'cv' not in jn and not any('cv' in f.nodes[x] for x in [f.strip_casts(j)]):
                    fac.append(j)
            j = i
            p = f.parent[j]
            while p >= 0 and f.nodes[p]['k'] == 'ParenExpr':
                j = p
                p = f.parent[j]
            widened = False
            if p >= 0:
                pn = f.nodes[p]
                t = pn.get('t', '').replace('const ', '').strip()
                widened = pn['k'] == 'ImplicitCastExpr' and pn.get('ck') == 'IntegralCast' and (t in W64 or 'long' in t)
            bad = widened and len(fac) >= 2
            res.ob(not bad, None)
            if bad:
                res.fail(f.q, 'product@%s' % f.src_text(i)[:40].strip(), f.loc(i),
                         'the product %s is evaluated in 32-bit arithmetic and only then converted to %s: it wraps for large '
                         'operands (e.g. a raster header declaring more than 4 GiB) before the comparison / allocation sees it'
                         % (f.src_text(i)[:70].strip(), f.nodes[p].get('t')))
    res.analysed['products_32bit'] = nmul
    return res, nmul


# ------------------------------------------------------------------ N1: fold before use
def _is_fold(f, n, d):
    """p *= <sign>  |  p = C - p  |  p = -p   (reflection of a by-value argument onto its principal range)"""
    if n['k'] == 'CompoundAssignOperator' and n.get('op') == '*=':
        rn = f.nodes[f.strip_casts(n['ch'][1])]
        return (rn['k'] == 'DeclRefExpr' and rn.get('t', '').replace('const ', '') == 'int') or rn['k'] == 'ConditionalOperator'
    if n['k'] == 'BinaryOperator' and n.get('op') == '=':
        rn = f.nodes[f.strip_casts(n['ch'][1])]
        if rn['k'] == 'BinaryOperator' and rn.get('op') == '-':
            b = f.nodes[f.strip_casts(rn['ch'][1])]
            a = f.nodes[f.strip(rn['ch'][0])]
            return b['k'] == 'DeclRefExpr' and b.get('d') == d and ('cv' in a or a['k'] in ('IntegerLiteral', 'FloatingLiteral'))
        if rn['k'] == 'UnaryOperator' and rn.get('op') == '-':
            b = f.nodes[f.strip_casts(rn['ch'][0])]
            return b['k'] == 'DeclRefExpr' and b.get('d') == d
    return False


def rule_N1(ctx, files=None):
    res = RuleResult('N1', 'fold before use: a by-value argument that is reflected onto its principal range (p *= sign, '
                           'p = C - p) is not handed to a function before its last such fold (the value would be taken '
                           'before the normalisation is complete)')
    nfold = 0
    PRED = ('signbit', 'isnan', 'isfinite', 'isinf', 'fabs', 'abs', 'copysign', 'swap')
    for f in sorted(ctx.lib_fns(), key=lambda x: (x.file, x.line)):
        if not _in(f, files) or f.d.get('body', -1) < 0:
            continue
        for p in f.params:
            if p['pk'] != 'v' or not p.get('float'):
                continue
            d = p['d']
            folds = []
            for i, n in f.all_nodes():
                if n['k'] in ('BinaryOperator', 'CompoundAssignOperator') and n.get('op', '').endswith('=') and \
                        n['op'] not in ('==', '!=', '<=', '>='):
                    ln = f.nodes[f.strip(n['ch'][0])]
                    if ln['k'] == 'DeclRefExpr' and ln.get('d') == d and _is_fold(f, n, d):
                        folds.append(i)
            if not folds:
                continue
            nfold += 1
            last = max(folds, key=lambda i: (f.nodes[i]['l'], f.nodes[i].get('c', 0)))
            ll = (f.nodes[last]['l'], f.nodes[last].get('c', 0))
            for i, n in f.all_nodes():
                ce = n.get('callee')
                if not ce or not n.get('args') or (n['l'], n.get('c', 0)) >= ll or ce.get('name') in PRED:
                    continue
                anc = list(f.ancestors(i))
                if any(f.nodes[a]['k'] in ('ReturnStmt', 'CXXThrowExpr') for a in anc):
                    continue
                # p = F(p): a normalisation of p itself
                selfnorm = False
                for a in anc:
                    an = f.nodes[a]
                    if an['k'] == 'BinaryOperator' and an.get('op') == '=':
                        ln = f.nodes[f.strip(an['ch'][0])]
                        if ln['k'] == 'DeclRefExpr' and ln.get('d') == d:
                            selfnorm = True
                        break
                    if an['k'] in ('CompoundStmt', 'DeclStmt'):
                        break
                if selfnorm:
                    continue
                for a in n['args']:
                    an = f.nodes[f.strip_casts(a)]
                    if an['k'] == 'DeclRefExpr' and an.get('d') == d:
                        res.ob(False, {'fn': f.q, 'argument': p['name'], 'passed_to': ce.get('q'), 'at': f.loc(i),
                                       'last_fold_line': ll[0]})
                        res.fail(f.q, '%s->%s' % (p['name'], ce.get('name')), f.loc(i),
                                 '%s is passed to %s at line %d but is still folded afterwards (line %d: %s): the value is '
                                 'taken before the reflection onto the principal range is complete'
                                 % (p['name'], ce.get('q'), n['l'], ll[0], f.src_text(last)[:50].strip()))
            res.ob(True, None)
    res.analysed['folded_arguments'] = nfold
    return res, nfold


# ------------------------------------------------------------------ D3: stale sine / cosine of a corrected angle
def _exclusive_arms(f, a, b):
    """are the nodes a and b in different arms of one IfStmt / ConditionalOperator?"""
    anc_a = list(f.ancestors(a))
    chain_a = [a] + anc_a
    set_b = set([b] + list(f.ancestors(b)))
    for k, x in enumerate(anc_a):
        n = f.nodes[x]
        if n['k'] in ('IfStmt', 'ConditionalOperator') and x in set_b:
            t, e = n.get('then', -1), n.get('else', -1)
            if t < 0 or e < 0:
                return False
            child_a = chain_a[k]
            in_then_a = child_a == t or t in chain_a[:k + 1]
            in_else_a = child_a == e or e in chain_a[:k + 1]
            in_then_b = t in set_b
            in_else_b = e in set_b
            return (in_then_a and in_else_b) or (in_else_a and in_then_b)
    return False


def rule_D3(ctx, files=None):
    res = RuleResult('D3', 'stale companions: when a local holds sin(v) or cos(v) and v is assigned again afterwards (a Newton '
                           'correction), the sine/cosine is recomputed before it is read again')
    npairs = 0
    for f in sorted(ctx.lib_fns(), key=lambda x: (x.file, x.line)):
        if not _in(f, files) or f.d.get('body', -1) < 0:
            continue
        defs = []
        for i, n in f.all_nodes():
            if n['k'] == 'DeclStmt':
                for d in n['decls']:
                    if d.get('init', -1) >= 0:
                        defs.append(((n['l'], n.get('c', 0)), d['d'], d['init'], i, True, d.get('name', '?')))
            elif n['k'] in ('BinaryOperator', 'CompoundAssignOperator') and n.get('op', '').endswith('=') and \
                    n['op'] not in ('==', '!=', '<=', '>='):
                ln = f.nodes[f.strip(n['ch'][0])]
                if ln['k'] == 'DeclRefExpr' and ln.get('rk') in ('local', 'param'):
                    defs.append(((n['l'], n.get('c', 0)), ln['d'], n['ch'][1], i, False, ln.get('name')))
        defs.sort()
        for pos, w, rhs, st, isdecl, wname in defs:
            rn = f.nodes[f.strip_casts(rhs)]
            ce = rn.get('callee') or {}
            if ce.get('name') not in ('sin', 'cos') or ce.get('inrepo'):
                continue
            rv = {f.nodes[j]['d'] for j in f.walk(rhs) if f.nodes[j]['k'] == 'DeclRefExpr' and f.nodes[j].get('rk') in ('local', 'param')}
            if len(rv) != 1:
                continue
            v = next(iter(rv))
            npairs += 1
            for pos2, v2, rhs2, st2, isdecl2, vname in defs:
                if v2 != v or pos2 <= pos or isdecl2:
                    continue
                if _exclusive_arms(f, st, st2):
                    continue          # the definition and the reassignment sit in different arms of one if: never both run
                redefs = [p3 for p3, w3, _, _, _, _ in defs if w3 == w and p3 > pos2]
                nxt = min(redefs) if redefs else (10 ** 9, 0)
                inside = set(f.walk(st2))
                stale = [j for j, nn in f.all_nodes() if nn['k'] == 'DeclRefExpr' and nn.get('d') == w and
                         pos2 < (nn['l'], nn.get('c', 0)) < nxt and j not in inside]
                ok = not stale
                res.ob(ok, None)
                if stale:
                    res.fail(f.q, '%s/%s' % (wname, vname), f.loc(stale[0]),
                             '%s = %s(%s) (line %d); %s is assigned again at line %d, and %s is read at line %d without being '
                             'recomputed: it still describes the old %s'
                             % (wname, ce.get('name'), vname, pos[0], vname, pos2[0], wname, f.nodes[stale[0]]['l'], vname))
                    break
    res.analysed['sine_cosine_companions'] = npairs
    return res, npairs


_TRANSPARENT = ('ImplicitCastExpr', 'ParenExpr', 'ExprWithCleanups', 'MaterializeTemporaryExpr', 'CXXBindTemporaryExpr')


def _shape(f, i, ids):
    """structure of a statement with its variable references abstracted to ID (collected in order in `ids`)."""
    n = f.nodes[i]
    k = n['k']
    if k in _TRANSPARENT and n.get('ch'):
        return _shape(f, n['ch'][0], ids)
    if k == 'DeclRefExpr' and n.get('rk') in ('param', 'local', 'var'):
        ids.append((n.get('name'), i))
        return 'ID'
    if k == 'MemberExpr' and n.get('thisbase'):
        ids.append((n.get('m'), i))
        return 'ID'
    lab = k
    for key in ('op', 'cv', 'm', 'name', 'val', 'v'):
        if key in n and not isinstance(n[key], (dict, list)):
            lab += ':%s=%s' % (key, n[key])
    ce = n.get('callee')
    if ce:
        lab += ':' + str(ce.get('q'))
    return '(' + lab + ' ' + ' '.join(_shape(f, c, ids) for c in n.get('ch', [])) + ')'


def rule_CP1(ctx, files=None):
    res = RuleResult('CP1', 'consistent renaming between sibling clones: when two statements of one block have the same '
                            'structure and differ only in the variables they name (the easting clause and the northing '
                            'clause), a variable that is renamed at two or more positions is renamed at every position (a '
                            'position left unrenamed is the copy/paste slip)')
    npairs = 0
    for f in sorted(ctx.lib_fns(), key=lambda x: (x.file, x.line)):
        if not _in(f, files) or f.d.get('body', -1) < 0:
            continue
        for i, n in f.all_nodes():
            groups = []
            if n['k'] == 'CompoundStmt':
                groups.append(list(n['ch']))
            elif n['k'] == 'IfStmt' and n.get('else', -1) >= 0 and n.get('then', -1) >= 0:
                groups.append([n['then'], n['else']])
            for ch in groups:
                sh = []
                for c in ch:
                    ids = []
                    sh.append((_shape(f, c, ids), ids))
                for a in range(len(ch)):
                    for b in range(a + 1, len(ch)):
                        (sa, ia), (sb, ib) = sh[a], sh[b]
                        if sa != sb or len(ia) < 3:
                            continue
                        na = [x[0] for x in ia]
                        nb = [x[0] for x in ib]
                        if na == nb:
                            continue
                        npairs += 1
                        cnt = {}
                        for x, y in zip(na, nb):
                            cnt[(x, y)] = cnt.get((x, y), 0) + 1
                        bad = None
                        for (x, y), c in cnt.items():
                            if x == y or c < 2:
                                continue
                            for z in (x, y):
                                if 0 < cnt.get((z, z), 0) < c:
                                    pos = [k for k, (p, q) in enumerate(zip(na, nb)) if p == z and q == z]
                                    bad = (x, y, z, c, (ia if z == y else ib)[pos[0]][1])
                        res.ob(bad is None, {'fn': f.q, 'clones': [f.loc(ch[a]), f.loc(ch[b])], 'renaming': sorted(
                            '%s->%s x%d' % (x, y, c) for (x, y), c in cnt.items() if x != y)} if (bad or npairs % 12 == 1) else None)
                        if bad:
                            x, y, z, c, at = bad
                            res.fail(f.q, '%s/%s' % (x, y), f.loc(at),
                                     'the statements at %s and %s are clones in which %s is renamed to %s at %d positions, but %s '
                                     'appears unrenamed in both at %s' % (f.loc(ch[a]), f.loc(ch[b]), x, y, c, z, f.loc(at)))
    res.analysed.update({'clone_pairs': npairs})
    return res, npairs


def rule_NB1(ctx, files=None):
    res = RuleResult('NB1', 'normalised copy supersedes the original: once a function makes a working copy of a string '
                            'argument (trimmed, upper-cased, with symbols replaced), the raw argument is not read again '
                            'except to fill that copy')
    bt = lambda t: t.replace('const ', '').replace('&', '').strip()
    ncopy = 0
    seen = set()
    for f in sorted(ctx.lib_fns(), key=lambda x: (x.file, x.line)):
        if not _in(f, files) or f.d.get('body', -1) < 0:
            continue
        pd = {p['d']: p for p in f.params}
        for i, n in f.all_nodes():
            if n['k'] != 'DeclStmt':
                continue
            for dcl in n.get('decls', []):
                if dcl.get('init', -1) < 0 or 'basic_string' not in dcl.get('t', ''):
                    continue
                refs = [f.nodes[j] for j in f.walk(dcl['init'])
                        if f.nodes[j]['k'] == 'DeclRefExpr' and f.nodes[j].get('rk') in ('param', 'local', 'var')]
                if len(refs) != 1 or refs[0].get('rk') != 'param':
                    continue
                p = pd.get(refs[0].get('d'))
                if not p or p['pk'] not in ('v', 'cr') or bt(dcl['t']) != bt(p.get('t', '')):
                    continue
                key = (f.file, dcl['line'], dcl['name'])
                if key in seen:
                    continue        # other instantiations of the same template
                seen.add(key)
                ncopy += 1
                bad = []
                for j, m in f.all_nodes():
                    if m['k'] != 'DeclRefExpr' or m.get('d') != p['d'] or m.get('l', 0) <= dcl['line']:
                        continue
                    ok = False
                    for a in f.ancestors(j):
                        an = f.nodes[a]
                        if an['k'] == 'CXXThrowExpr':
                            ok = True
                        if an['k'] in ('ForStmt', 'WhileStmt') and an.get('body', -1) >= 0 and j not in set(f.walk(an['body'])):
                            # the header of a loop whose whole body fills the copy
                            bn = f.nodes[f.strip_casts(an['body'])]
                            if bn['k'] in ('BinaryOperator', 'CXXOperatorCallExpr') and str(bn.get('op', '')).endswith('=') and \
                                    bn.get('ch') and any(f.nodes[x]['k'] == 'DeclRefExpr' and f.nodes[x].get('d') == dcl['d']
                                                         for x in f.walk(bn['ch'][0] if bn['k'] == 'BinaryOperator'
                                                                         else (bn.get('args') or bn['ch'])[0])):
                                ok = True
                        if an['k'] in ('BinaryOperator', 'CompoundAssignOperator', 'CXXOperatorCallExpr') and \
                                str(an.get('op', '')).endswith('='):
                            lhs = an['ch'][0] if an['k'] != 'CXXOperatorCallExpr' else (an.get('args') or an['ch'])[0]
                            if j not in set(f.walk(lhs)) and any(
                                    f.nodes[x]['k'] == 'DeclRefExpr' and f.nodes[x].get('d') == dcl['d'] for x in f.walk(lhs)):
                                ok = True
                    if not ok:
                        bad.append(j)
                res.ob(not bad, {'fn': f.q, 'copy': dcl['name'], 'of': p['name'], 'at': f.loc(i)})
                for j in bad[:1]:
                    res.fail(f.q, '%s/%s' % (p['name'], dcl['name']), f.loc(j),
                             'the raw argument %s is read at %s although the normalised copy %s (made at %s) is what the rest '
                             'of the function works on' % (p['name'], f.loc(j), dcl['name'], f.loc(i)))
    res.analysed.update({'normalised_copies': ncopy})
    return res, ncopy


_ZERO_PRESERVING = {'sin', 'sinh', 'tan', 'tanh', 'atan', 'asin', 'asinh', 'atanh', 'sqrt', 'expm1', 'log1p', 'fabs',
                    'abs', 'sq', 'cbrt'}


def _roots(f, i):
    """conditions under which the expression is exactly zero: ('z', d) = variable d is 0; ('d', a, b) = a equals b."""
    n = f.nodes[f.strip_casts(i)]
    k = n['k']
    if k == 'DeclRefExpr' and n.get('rk') in ('param', 'local', 'var'):
        return {('z', n['d'])}
    if k == 'ParenExpr':
        return _roots(f, n['ch'][0])
    if k == 'UnaryOperator' and n.get('op') in ('-', '+'):
        return _roots(f, n['ch'][0])
    if k == 'BinaryOperator':
        a, b = n['ch'][0], n['ch'][1]
        if n.get('op') == '-':
            x = f.nodes[f.strip_casts(a)]
            y = f.nodes[f.strip_casts(b)]
            if x['k'] == 'DeclRefExpr' and y['k'] == 'DeclRefExpr' and x.get('d') != y.get('d'):
                return {('d',) + tuple(sorted((x['d'], y['d'])))}
            return set()
        if n.get('op') == '*':
            return _roots(f, a) | _roots(f, b)
        if n.get('op') == '/':
            return _roots(f, a)
    ce = n.get('callee')
    if ce and n.get('args') and ce.get('name') in _ZERO_PRESERVING | {'atan2', 'atan2d'}:
        return _roots(f, n['args'][0])
    return set()


def _root_guards(r):
    if r[0] == 'z':
        v = 'v:' + r[1]
        return {('(0!=%s)' % v, True), ('(0==%s)' % v, False), ('(%s!=0)' % v, True), ('(%s==0)' % v, False),
                ('(0<%s)' % v, True), ('(%s<0)' % v, True), ('(0<=%s)' % v, False), ('(%s<=0)' % v, False)}
    a, b = 'v:' + r[1], 'v:' + r[2]
    out = set()
    for x, y in ((a, b), (b, a)):
        out |= {('(%s==%s)' % (x, y), False), ('(%s!=%s)' % (x, y), True), ('(%s<%s)' % (x, y), True),
                ('(%s<=%s)' % (x, y), False)}
    return out


def rule_ZQ1(ctx, files=None):
    from ..flow import Flow
    res = RuleResult('ZQ1', 'vanishing quotients stay guarded: where a function singles out x == y (or d == 0) as a special '
                            'case, every quotient whose numerator and denominator both vanish in that case is evaluated only on '
                            'paths that exclude it *after the last assignment* to the variables (a guard taken before '
                            '`tx = 1/tx; ty = 1/ty` no longer protects `f(ty - tx) / g(ty - tx)`)')
    nq = 0
    seen = set()
    for f in sorted(ctx.lib_fns(), key=lambda x: (x.file, x.line)):
        if not _in(f, files) or f.d.get('body', -1) < 0 or not f.cfg:
            continue
        fl = None
        for i, n in f.all_nodes():
            if n['k'] != 'BinaryOperator' or n.get('op') != '/':
                continue
            common = _roots(f, n['ch'][0]) & _roots(f, n['ch'][1])
            if not common or f.loc(i) in seen:
                continue
            fl = fl or Flow(f)
            atoms = set(fl.mentions) | {l[0] for alts in fl.facts_in.values() for a in alts for l in a}
            for r in sorted(common):
                guards = _root_guards(r)
                if not any(g[0] in atoms for g in guards if '==' in g[0] or '!=' in g[0]):
                    continue       # the function never treats this coincidence as special: no belief to hold it to
                seen.add(f.loc(i))
                nq += 1
                alts = fl.facts_at(i)
                ok = all(any(g in a for g in guards) for a in alts)
                names = [x.split('@')[0] for x in r[1:]]
                res.ob(ok, {'fn': f.q, 'at': f.loc(i), 'vanishes_when': ('%s == 0' % names[0]) if r[0] == 'z' else
                            '%s == %s' % tuple(names)})
                if not ok:
                    res.fail(f.q, '/'.join(names), f.loc(i),
                             'numerator and denominator of the quotient at %s both vanish when %s; the function tests for that '
                             'case, but not on every path after the last assignment to %s: 0/0 = NaN'
                             % (f.loc(i), ('%s == 0' % names[0]) if r[0] == 'z' else '%s == %s' % tuple(names), ', '.join(names)))
    res.analysed.update({'guarded_quotients': nq})
    return res, nq


def rule_PRT1(ctx, files=None):
    from .dispatch import _regions
    res = RuleResult('PRT1', 'sibling switches partition alike: two switch statements of one class over the same set of three '
                             'or more case labels give distinct arms to the same labels (labels that every sibling keeps apart '
                             'are not merged into one fall-through arm in another)')
    groups = {}
    seen = set()
    for f in sorted(ctx.lib_fns(), key=lambda x: (x.file, x.line)):
        if not _in(f, files) or f.d.get('body', -1) < 0:
            continue
        for i, n in f.all_nodes():
            if n['k'] != 'SwitchStmt' or f.loc(i) in seen:
                continue
            seen.add(f.loc(i))
            parts = [frozenset(l for l in r[0] if isinstance(l, int)) for r in _regions(f, i)]
            parts = frozenset(p for p in parts if p)
            labels = frozenset(l for p in parts for l in p)
            if len(labels) >= 3:
                groups.setdefault((f.cls or f.file, labels), []).append((f, i, parts))
    npair = 0
    for (cls, labels), sws in sorted(groups.items(), key=lambda kv: (str(kv[0][0]), sorted(kv[0][1]))):
        for a in range(len(sws)):
            for b in range(a + 1, len(sws)):
                npair += 1
                (fa, ia, pa), (fb, ib, pb) = sws[a], sws[b]
                ok = pa == pb
                res.ob(ok, {'class': cls, 'switches': [fa.loc(ia), fb.loc(ib)], 'labels': sorted(labels)})
                if not ok:
                    coarse, fine = ((fa, ia, pa), (fb, ib, pb)) if len(pa) < len(pb) else ((fb, ib, pb), (fa, ia, pa))
                    merged = [sorted(p) for p in coarse[2] if p not in fine[2]]
                    res.fail(coarse[0].q, 'case %s' % merged, coarse[0].loc(coarse[1]),
                             'the switch at %s gives the labels %s one arm, the sibling switch at %s (%s) keeps them apart'
                             % (coarse[0].loc(coarse[1]), merged, fine[0].loc(fine[1]), fine[0].q))
    res.analysed.update({'switch_pairs': npair})
    return res, npair


def rule_TW1(ctx, files=None):
    from ..flow import Canon
    res = RuleResult('TW1', 'twin guards agree: a function that compares |v| with a bound does not elsewhere compare the bare v '
                            'with the same bound in the same direction (the far-side test written once with and once without '
                            'fabs)')
    ncmp = 0
    seen = set()
    flipop = {'<': '>', '<=': '>=', '>': '<', '>=': '<='}
    for f in sorted(ctx.lib_fns(), key=lambda x: (x.file, x.line)):
        if not _in(f, files) or f.d.get('body', -1) < 0:
            continue
        can = Canon(f)
        forms = {}
        for i, n in f.all_nodes():
            if n['k'] != 'BinaryOperator' or n.get('op') not in flipop:
                continue
            for side, other, flip in ((0, 1, False), (1, 0, True)):
                a = f.nodes[f.strip_casts(n['ch'][side])]
                op = flipop[n['op']] if flip else n['op']
                fab = False
                if a.get('callee') and a['callee'].get('name') in ('fabs', 'abs') and a.get('args'):
                    a = f.nodes[f.strip_casts(a['args'][0])]
                    fab = True
                if a['k'] != 'DeclRefExpr' or a.get('rk') not in ('param', 'local', 'var'):
                    continue
                c = can.of(n['ch'][other])
                if c is None:
                    continue
                c = c[0]
                forms.setdefault((a['d'], a.get('name'), op[0], c), {}).setdefault(fab, []).append(i)
        for (d, name, op, c), v in sorted(forms.items(), key=lambda kv: str(kv[0])):
            if True not in v:
                continue
            key = (f.file, f.nodes[v[True][0]].get('l'), name)
            if key in seen:
                continue
            seen.add(key)
            ncmp += 1
            ok = False not in v
            res.ob(ok, {'fn': f.q, 'variable': name, 'bound': c, 'with_fabs': [f.loc(x) for x in v[True]]} if (not ok or ncmp % 8 == 1) else None)
            if not ok:
                res.fail(f.q, name, f.loc(v[False][0]),
                         '%s is compared with %s through fabs() at %s but bare at %s' %
                         (name, c, f.loc(v[True][0]), f.loc(v[False][0])))
    res.analysed.update({'fabs_comparisons': ncmp})
    return res, ncmp


def rule_ONE1(ctx, files=None):
    res = RuleResult('ONE1', 'two-sided guard on a signed angular difference: a variable holding the result of Math::AngDiff '
                             '(range [-180, 180]) that has not been folded to its magnitude is not compared with a positive '
                             'bound on one side only (`dlon > 60` without `dlon < -60` or fabs)')
    nvars = 0
    seen = set()
    for f in sorted(ctx.lib_fns(), key=lambda x: (x.file, x.line)):
        if not _in(f, files) or f.d.get('body', -1) < 0 or (f.file, f.line, f.name) in seen:
            continue
        seen.add((f.file, f.line, f.name))
        src = {}                 # decl -> (name, line of the AngDiff assignment)
        for i, n in f.all_nodes():
            if n['k'] == 'DeclStmt':
                for d in n['decls']:
                    if d.get('init', -1) >= 0 and (f.nodes[f.strip_casts(d['init'])].get('callee') or {}).get('name') == 'AngDiff':
                        src[d['d']] = (d['name'], d.get('line', n.get('l', 0)))
            elif n['k'] == 'BinaryOperator' and n.get('op') == '=':
                ln, rn = f.nodes[f.strip_casts(n['ch'][0])], f.nodes[f.strip_casts(n['ch'][1])]
                if ln['k'] == 'DeclRefExpr' and (rn.get('callee') or {}).get('name') == 'AngDiff':
                    src[ln['d']] = (ln.get('name'), n.get('l', 0))
        for d, (name, line) in sorted(src.items(), key=lambda kv: kv[1][1]):
            # folded to a magnitude (v *= sign, v = fabs(v), v = -v under a sign test)?
            folded = False
            sides = {'+': [], '-': []}       # comparisons with a bound on the positive / negative side
            for i, n in f.all_nodes():
                if n['k'] in ('BinaryOperator', 'CompoundAssignOperator') and n.get('op') in ('*=', '='):
                    ln = f.nodes[f.strip_casts(n['ch'][0])]
                    if ln['k'] == 'DeclRefExpr' and ln.get('d') == d and n.get('l', 0) > line:
                        if n['op'] == '*=' or (f.nodes[f.strip_casts(n['ch'][1])].get('callee') or {}).get('name') in ('fabs', 'abs'):
                            folded = True
                if n['k'] == 'BinaryOperator' and n.get('op') in ('<', '<=', '>', '>='):
                    for side in (0, 1):
                        a = f.nodes[f.strip_casts(n['ch'][side])]
                        o = f.nodes[f.strip_casts(n['ch'][1 - side])]
                        if a['k'] != 'DeclRefExpr' or a.get('d') != d or 'cv' not in o:
                            continue
                        try:
                            c = int(o['cv'])
                        except ValueError:
                            continue
                        if c == 0:
                            continue                  # a sign test
                        op = n['op'] if side == 0 else {'<': '>', '<=': '>=', '>': '<', '>=': '<='}[n['op']]
                        if op in ('>', '>=') and c > 0:
                            sides['+'].append(i)
                        elif op in ('<', '<=') and c < 0:
                            sides['-'].append(i)
            if folded or not (sides['+'] or sides['-']):
                continue
            nvars += 1
            ok = bool(sides['+']) == bool(sides['-'])
            res.ob(ok, {'fn': f.q, 'variable': name, 'at': f.loc(i)})
            if not ok:
                at = (sides['+'] or sides['-'])[0]
                res.fail(f.q, name, f.loc(at), '%s = Math::AngDiff(..) lies in [-180, 180] but is bounded on the %s side only at %s'
                         % (name, 'positive' if sides['+'] else 'negative', f.loc(at)))
    res.analysed['signed_differences_with_a_bound'] = nvars
    return res, nvars


def rule_CP2(ctx, files=None):
    res = RuleResult('CP2', 'consistent renaming between sibling functions: two functions of one class whose bodies have the '
                            'same structure and differ only in the variables and members they name (UTMUPSRepresentation / '
                            'AltUTMUPSRepresentation) rename a name that is renamed at two or more positions at every position')
    groups = {}
    seen = set()
    for f in sorted(ctx.lib_fns(), key=lambda x: (x.file, x.line)):
        if not _in(f, files) or f.d.get('body', -1) < 0 or not f.cls or (f.file, f.line, f.name) in seen:
            continue
        seen.add((f.file, f.line, f.name))
        ids = []
        sh = _shape(f, f.d['body'], ids)
        if len(ids) >= 4:
            groups.setdefault((f.cls, sh), []).append((f, ids))
    npairs = 0
    for (cls, sh), fs in sorted(groups.items(), key=lambda kv: (kv[0][0], kv[1][0][0].line)):
        for a in range(len(fs)):
            for b in range(a + 1, len(fs)):
                (f, ia), (g, ib) = fs[a], fs[b]
                na, nb = [x[0] for x in ia], [x[0] for x in ib]
                if na == nb:
                    continue
                npairs += 1
                cnt = {}
                for x, y in zip(na, nb):
                    cnt[(x, y)] = cnt.get((x, y), 0) + 1
                bad = None
                for (x, y), c in cnt.items():
                    if x == y or c < 2:
                        continue
                    for z in (x, y):
                        if 0 < cnt.get((z, z), 0) < c:
                            pos = [k for k, (p_, q_) in enumerate(zip(na, nb)) if p_ == z and q_ == z]
                            owner, lst = (g, ib) if z == x else (f, ia)
                            bad = (x, y, z, c, owner, lst[pos[0]][1])
                res.ob(bad is None, {'functions': [f.q, g.q], 'renaming': sorted('%s->%s x%d' % (x, y, c) for (x, y), c in cnt.items() if x != y)})
                if bad:
                    x, y, z, c, owner, at = bad
                    res.fail(owner.q, '%s/%s' % (x, y), owner.loc(at),
                             '%s and %s are clones in which %s is renamed to %s at %d positions, but %s appears unrenamed at %s'
                             % (f.q, g.q, x, y, c, z, owner.loc(at)))
    res.analysed.update({'function_clone_pairs': npairs})
    return res, npairs


def rule_SWP1(ctx, files=None):
    res = RuleResult('SWP1', 'sine/cosine companions are exchanged together: where a block exchanges the sines of two angles '
                             '(`swap(sphi1, sphi2)`), it also exchanges their cosines (`swap(cphi1, cphi2)`), and vice versa')
    import re as _r
    nsw = 0
    seen = set()
    for f in sorted(ctx.lib_fns(), key=lambda x: (x.file, x.line)):
        if not _in(f, files) or f.d.get('body', -1) < 0 or (f.file, f.line, f.name) in seen:
            continue
        seen.add((f.file, f.line, f.name))
        for i, n in f.all_nodes():
            if n['k'] != 'CompoundStmt' and n['k'] != 'IfStmt':
                continue
            # swaps that are direct statements of this block (or the single statement of this if)
            stmts = n['ch'] if n['k'] == 'CompoundStmt' else [x for x in (n.get('then', -1), n.get('else', -1)) if x >= 0 and
                                                              f.nodes[x]['k'] != 'CompoundStmt']
            swaps = []
            for st in stmts:
                m = f.nodes[f.strip(st)] if st >= 0 else None
                if m is None or (m.get('callee') or {}).get('name') != 'swap' or len(m.get('args', [])) != 2:
                    continue
                a, b = [f.nodes[f.strip_casts(x)] for x in m['args']]
                if a['k'] == 'DeclRefExpr' and b['k'] == 'DeclRefExpr':
                    swaps.append((a.get('name'), b.get('name'), st))
            names = {(a, b) for a, b, _ in swaps} | {(b, a) for a, b, _ in swaps}
            for a, b, st in swaps:
                ma, mb = _r.match(r'^([sc])([a-z]+[0-9]*)$', a or ''), _r.match(r'^([sc])([a-z]+[0-9]*)$', b or '')
                if not ma or not mb or ma.group(1) != mb.group(1) or ma.group(2) == mb.group(2):
                    continue
                other = 'c' if ma.group(1) == 's' else 's'
                ca, cb = other + ma.group(2), other + mb.group(2)
                # only where the companions exist as variables of this function
                have = {p_['name'] for p_ in f.params}
                for j, m in f.all_nodes():
                    if m['k'] == 'DeclStmt':
                        have |= {d['name'] for d in m['decls']}
                if ca not in have or cb not in have:
                    continue
                nsw += 1
                ok = (ca, cb) in names
                res.ob(ok, {'fn': f.q, 'swap': [a, b], 'companions': [ca, cb], 'at': f.loc(st)})
                if not ok:
                    res.fail(f.q, '%s,%s' % (a, b), f.loc(st), '%s and %s are exchanged at %s but their companions %s and %s are not'
                             % (a, b, f.loc(st), ca, cb))
    res.analysed['companion_swaps'] = nsw
    return res, nsw


def rule_SC1(ctx, files=None):
    res = RuleResult('SC1', 'sine and cosine results land in the variables named for them: a call Math::sincosd(x, a, b) / '
                            'sincosde(x, t, a, b) whose result variables are named s<X> and c<X> passes the sine one first')
    import re as _r
    n = 0
    seen = set()
    for f in sorted(ctx.lib_fns(), key=lambda x: (x.file, x.line)):
        if not _in(f, files) or f.d.get('body', -1) < 0 or (f.file, f.line, f.name) in seen:
            continue
        seen.add((f.file, f.line, f.name))
        for i, nd in f.all_nodes():
            ce = nd.get('callee') or {}
            if ce.get('name') not in ('sincosd', 'sincosde') or not (ce.get('q') or '').startswith(NS + 'Math::'):
                continue
            args = nd.get('args', [])
            if len(args) < 3:
                continue
            a, b = [f.nodes[f.strip_casts(x)] for x in args[-2:]]
            na = a.get('name') if a['k'] == 'DeclRefExpr' else (a.get('m') if a['k'] == 'MemberExpr' else None)
            nb = b.get('name') if b['k'] == 'DeclRefExpr' else (b.get('m') if b['k'] == 'MemberExpr' else None)
            ma, mb = _r.match(r'^(_?)([sc])(\w*)$', na or ''), _r.match(r'^(_?)([sc])(\w*)$', nb or '')
            if not ma or not mb or ma.group(3) != mb.group(3) or ma.group(2) == mb.group(2):
                continue
            n += 1
            ok = ma.group(2) == 's'
            res.ob(ok, None)
            if not ok:
                res.fail(f.q, '%s,%s' % (na, nb), f.loc(i), 'sincosd writes the sine to its first result and the cosine to its second: '
                         '%s receives the sine and %s the cosine at %s' % (na, nb, f.loc(i)))
    res.analysed['named_sine_cosine_results'] = n
    return res, n


def rule_POS1(ctx, files=None):
    res = RuleResult('POS1', 'positions are not lengths: the length argument of s.substr(pos, len) / std::string(s, pos, len) '
                             'with a non-zero pos is not a variable that the function uses as a position in the string (a '
                             'subscript, a result of find...) without ever turning it into a length by subtraction')
    ncalls = 0
    seen = set()
    for f in sorted(ctx.lib_fns(), key=lambda x: (x.file, x.line)):
        if not _in(f, files) or f.d.get('body', -1) < 0 or (f.file, f.line, f.name) in seen:
            continue
        seen.add((f.file, f.line, f.name))
        pos = set()
        reduced = set()
        for i, n in f.all_nodes():
            if n['k'] == 'ArraySubscriptExpr' or (n['k'] == 'CXXOperatorCallExpr' and (n.get('callee') or {}).get('name') == 'operator[]'):
                ch = n.get('args') or n['ch']
                if len(ch) >= 2:
                    for j in f.walk(ch[1]):
                        m = f.nodes[j]
                        if m['k'] == 'DeclRefExpr' and m.get('rk') in ('local', 'param'):
                            pos.add(m['d'])
            if n['k'] == 'DeclStmt':
                for d in n['decls']:
                    if d.get('init', -1) >= 0 and any(str((f.nodes[j].get('callee') or {}).get('name', '')).startswith('find')
                                                      for j in f.walk(d['init'])):
                        pos.add(d['d'])
            if n['k'] == 'CompoundAssignOperator' and n.get('op') == '-=':
                ln = f.nodes[f.strip_casts(n['ch'][0])]
                if ln['k'] == 'DeclRefExpr':
                    reduced.add(ln['d'])
        for i, n in f.all_nodes():
            ce = n.get('callee') or {}
            args = None
            if ce.get('name') == 'substr' and len(n.get('args', [])) == 2:
                args = n['args']
            elif ce.get('name') == 'basic_string' and ce.get('ctor') and len(n.get('args', [])) >= 3 and \
                    'basic_string' in f.nodes[f.strip_casts(n['args'][0])].get('t', ''):
                args = n['args'][1:3]
            if not args:
                continue
            ncalls += 1
            p_, l_ = f.nodes[f.strip_casts(args[0])], f.nodes[f.strip_casts(args[1])]
            pzero = 'cv' in p_ and int(p_['cv']) == 0
            bad = l_['k'] == 'DeclRefExpr' and l_.get('d') in pos and l_.get('d') not in reduced and not pzero
            res.ob(not bad, None)
            if bad:
                res.fail(f.q, str(l_.get('name')), f.loc(i), '%s is used as a position in the string elsewhere in %s but is passed as '
                         'the length of the substring starting at a non-zero position at %s' % (l_.get('name'), f.q, f.loc(i)))
    res.analysed['substring_calls'] = ncalls
    return res, ncalls


# ------------------------------------------------------------------ DZ1: division by a member that an accepted argument makes zero
# members that vanish together with the flattening (a sphere, f = 0, is accepted by every class but TransverseMercatorExact)
DZ1_FLATTENING = {'_f', '_e2', '_e', '_e1', '_ep2', '_es', '_e12', '_e2a', '_ep'}
# other members that a documented, accepted argument makes zero: class -> members (with the argument)
DZ1_CLASS = {
    'LambertConformalConic': {'_n': 'the Mercator limit, standard parallels +-phi'},
    'AlbersEqualArea': {'_n0': 'the cylindrical limit, standard parallels +-phi'},
    'EllipticFunction': {'_kp2': 'k2 = 1', '_k2': 'k2 = 0', '_alpha2': 'alpha2 = 0', '_alphap2': 'alpha2 = 1'},
}


def _dz1_members(f, nid, names, out):
    n = f.nodes[f.strip_casts(nid)]
    if n['k'] == 'ParenExpr' and n['ch']:
        return _dz1_members(f, n['ch'][0], names, out)
    if n['k'] == 'MemberExpr' and n.get('thisbase') and n.get('m') in names:
        out.add(n['m'])
    elif n['k'] == 'BinaryOperator' and n.get('op') == '*':
        _dz1_members(f, n['ch'][0], names, out)
        _dz1_members(f, n['ch'][1], names, out)


def _dz1_positive_only(ctx, cls):
    """the class's constructors reject f <= 0 (TransverseMercatorExact): its flattening members cannot vanish."""
    from ..flow import Flow
    for g in ctx.lib_fns():
        if not (g.is_ctor and g.cls == cls and g.cfg):
            continue
        fl = None
        for i, n in g.all_nodes():
            if n['k'] != 'CXXThrowExpr':
                continue
            fl = fl or Flow(g)
            alts = fl.facts_at(i)
            if alts and all(any((a == '(0<this._f)' and not pol) or (a == '(this._f<=0)' and pol) for a, pol in alt)
                            for alt in alts):
                return True
    return False


def rule_DZ1(ctx, files=None):
    from ..flow import Flow
    res = RuleResult('DZ1', 'no division by a member that an accepted argument makes zero: a quotient whose divisor is (a product '
                            'containing) a member that vanishes for the sphere (_f, _e2, _e, ...) or for a documented limiting '
                            'case (_n of LambertConformalConic, _n0 of AlbersEqualArea, _kp2 of EllipticFunction, ...) is '
                            'evaluated only on paths that test that member (or, for the flattening family, any member of the '
                            'family) against a constant')
    nsite = 0
    posonly = {}
    seen = set()
    for f in sorted(ctx.lib_fns(), key=lambda x: (x.file, x.line)):
        if not _in(f, files) or f.d.get('body', -1) < 0 or not f.cfg or not f.cls:
            continue
        cname = f.cls.split('::')[-1]
        names = set(DZ1_FLATTENING) | set(DZ1_CLASS.get(cname, {}))
        fl = None
        for i, n in f.all_nodes():
            if n['k'] != 'BinaryOperator' or n.get('op') != '/' or f.loc(i) + ':%d' % n.get('c', 0) in seen:
                continue
            ms = set()
            _dz1_members(f, n['ch'][1], names, ms)
            if not ms:
                continue
            if ms & DZ1_FLATTENING:
                if f.cls not in posonly:
                    posonly[f.cls] = _dz1_positive_only(ctx, f.cls)
                if posonly[f.cls]:
                    ms -= DZ1_FLATTENING
                    if not ms:
                        continue
            seen.add(f.loc(i) + ':%d' % n.get('c', 0))
            fl = fl or Flow(f)
            alts = fl.facts_at(i)
            if alts is None:
                continue
            nsite += 1
            bad = None
            # tests made by enclosing conditional expressions (also inside a helper whose body was resolved in place,
            # which has no position of its own in the caller's flow graph)
            syntactic = set()
            child = i
            for a in f.ancestors(i):
                an = f.nodes[a]
                cnd = None
                if an['k'] == 'ConditionalOperator' and len(an['ch']) == 3 and child in an['ch'][1:]:
                    cnd = an['ch'][0]
                elif an['k'] == 'IfStmt' and child in (an.get('then', -1), an.get('else', -1)):
                    # the path facts can be incomplete in a function with many branches (alternatives are bounded);
                    # an enclosing `if` that tests the member is a guard all the same
                    cnd = an.get('cond', -1)
                if cnd is not None and cnd >= 0:
                    cmem, clocal = set(), False
                    for j in f.walk(cnd):
                        jn = f.nodes[j]
                        if jn['k'] == 'MemberExpr' and jn.get('thisbase'):
                            cmem.add(jn.get('m'))
                        elif jn['k'] == 'DeclRefExpr' and jn.get('rk') in ('local', 'param'):
                            clocal = True
                    if not clocal:
                        syntactic |= cmem
                child = a
            for m in sorted(ms):
                family = DZ1_FLATTENING if m in DZ1_FLATTENING else {m}
                if family & syntactic:
                    continue
                keys = ['this.%s' % x for x in family]

                def tests(atom):
                    # a comparison between members / constants only (no local variable, no equality fact)
                    return not atom.startswith('eq:') and 'v:' not in atom and \
                        any(re.search(re.escape(k_) + r'(?![A-Za-z0-9_])', atom) for k_ in keys)
                if not all(any(tests(a) for a, pol in alt) for alt in alts):
                    if all(len(alt) == 0 for alt in alts) and any(tests(a) for a in fl.mentions):
                        # no fact at all survives here although the function does test the member somewhere: the
                        # bounded set of alternatives was collapsed (many branches); nothing can be concluded
                        res.note('undecided (path facts collapsed): %s at %s' % (m, f.loc(i)))
                        continue
                    bad = m
                    break
            res.ob(bad is None, {'fn': f.q, 'at': f.loc(i), 'divisor_members': sorted(ms)})
            if bad is not None:
                why = 'the sphere, f = 0' if bad in DZ1_FLATTENING else DZ1_CLASS[cname][bad]
                res.fail(f.q, '/%s' % bad, f.loc(i),
                         'the quotient %s divides by %s, which is zero for an accepted argument (%s), on a path that never '
                         'tests it: x/0 or 0/0' % (f.src_text(i)[:60].replace('\n', ' '), bad, why))
    res.analysed.update({'quotients_by_vanishing_members': nsite})
    return res, nsite


# ------------------------------------------------------------------ DEAD1: an arm of an else-if chain that earlier arms exclude
def rule_DEAD1(ctx, files=None):
    from ..flow import Flow
    res = RuleResult('DEAD1', 'every arm of an else-if chain can be taken: an arm whose condition is built only from tests that '
                              'earlier conditions of the chain already made, and which those conditions (all false on the way '
                              'there) contradict, is dead code the author believed live (`if (a || b) .. else if (a) .. else '
                              'if (b) ..`)')
    narm = 0
    for f in sorted(ctx.lib_fns(), key=lambda x: (x.file, x.line)):
        if not _in(f, files) or f.d.get('body', -1) < 0 or not f.cfg:
            continue
        chains = [(i, n) for i, n in f.all_nodes() if n['k'] == 'IfStmt' and n.get('else', -1) is not None
                  and n.get('else', -1) >= 0 and f.nodes[n['else']]['k'] == 'IfStmt']
        if not chains:
            continue
        inner = {n['else'] for i, n in chains}
        blocks = {b['id']: b for b in f.cfg['blocks']}
        entry = max(blocks)
        reach, st = {entry}, [entry]
        while st:
            b = st.pop()
            for s_ in blocks[b]['succ']:
                if s_ and s_.get('reach') and s_['b'] not in reach:
                    reach.add(s_['b'])
                    st.append(s_['b'])
        fl = Flow(f)

        def atoms(cond):
            env = fl.env_at(cond)
            out = set()
            for d in fl.cond2(cond, env if env is not None else {}):
                for alt in (d or ()):
                    for a, pol in alt:
                        out.add(a)
            return out

        def first_stmt(a):
            while a is not None and a >= 0 and f.nodes[a]['k'] == 'CompoundStmt' and f.nodes[a]['ch']:
                a = f.nodes[a]['ch'][0]
            return a
        for i, n in chains:
            if i in inner:
                continue            # start at the head of each chain
            prev = atoms(n['cond'])
            j = n['else']
            while j is not None and j >= 0:
                jn = f.nodes[j]
                if jn['k'] == 'IfStmt':
                    here = atoms(jn['cond'])
                    arm, nxt = jn.get('then', -1), jn.get('else', -1)
                else:
                    here, arm, nxt = set(), j, -1
                tgt = first_stmt(arm)
                if tgt is not None and tgt >= 0 and here <= prev and (here or jn['k'] != 'IfStmt') and prev:
                    loc = fl.locate(tgt)
                    if loc is not None and loc[0] in reach:
                        narm += 1
                        alts = fl.facts_in.get(loc[0])
                        dead = alts is None or len(alts) == 0
                        res.ob(not dead, {'fn': f.q, 'arm': f.loc(tgt)} if (dead or narm % 10 == 1) else None)
                        if dead:
                            res.fail(f.q, 'arm@%s' % f.src_text(jn['cond'] if jn['k'] == 'IfStmt' else tgt)[:40].strip(),
                                     f.loc(tgt), 'this arm of the else-if chain starting at %s cannot be taken: the earlier '
                                     'conditions of the chain, all false here, contradict %s'
                                     % (f.loc(i), ('`%s`' % f.src_text(jn['cond'])[:60]) if jn['k'] == 'IfStmt' else 'every remaining case'))
                prev |= here
                j = nxt if jn['k'] == 'IfStmt' else -1
    res.analysed.update({'else_if_arms_judged': narm})
    return res, narm


# ------------------------------------------------------------------ DS1: an accumulated contribution that nothing reads
def _ds1_function(f):
    """[(store node, variable)] for compound updates (x += e, x -= e, x *= e, x /= e, x = x op e) of scalar locals whose
    result is read on no path (backward liveness over clang's CFG, sub-expressions are CFG elements)."""
    blocks = {b['id']: b for b in f.cfg['blocks']}
    par = {}
    for i, n in f.all_nodes():
        for c in n.get('ch', []):
            if isinstance(c, int) and c >= 0:
                par[c] = i
    locs = set()
    for i, n in f.all_nodes():
        if n['k'] == 'DeclStmt':
            for d in n['decls']:
                t = d.get('t', '').replace('const ', '').strip()
                if d.get('pk') == 'v' and not d.get('static_local') and \
                        (t in ('double', 'float', 'long double', 'int', 'unsigned int', 'long', 'long long', 'bool',
                               'unsigned long', 'unsigned long long') or t.endswith('real')):
                    locs.add(d['d'])
    for p_ in f.params:
        if p_['pk'] == 'v' and (p_.get('float') or p_.get('int')):
            locs.add(p_['d'])
    # variables whose storage is visible elsewhere are not judged
    escaped = set()
    for i, n in f.all_nodes():
        if (n['k'] == 'UnaryOperator' and n.get('op') == '&') or n['k'] == 'LambdaExpr':
            for j in f.walk(i):
                m = f.nodes[j]
                if m['k'] == 'DeclRefExpr':
                    escaped.add(m.get('d'))
        if n['k'] in ('CallExpr', 'CXXMemberCallExpr', 'CXXOperatorCallExpr', 'CXXConstructExpr'):
            ce = n.get('callee') or {}
            pk = ce.get('pk', [])
            off = 1 if (n['k'] == 'CXXOperatorCallExpr' and ce.get('method')) else 0
            for ai, a in enumerate(n.get('args', [])[off:]):
                kind = pk[ai] if ai < len(pk) else 'r'
                if kind != 'v':
                    m = f.nodes[f.strip_casts(a)]
                    if m['k'] == 'DeclRefExpr':
                        escaped.add(m.get('d'))

    def lhs_var(nid):
        l = f.nodes[f.strip_casts(nid)]
        while l['k'] == 'ParenExpr' and l['ch']:
            l = f.nodes[f.strip_casts(l['ch'][0])]
        return l.get('d') if l['k'] == 'DeclRefExpr' and l.get('d') in locs else None

    def store(e):
        """(variable, is an update of its own value, kills) for a store element."""
        n = f.nodes[e]
        if n['k'] == 'CompoundAssignOperator':
            d = lhs_var(n['ch'][0])
            return (d, True, False) if d else None
        if n['k'] == 'BinaryOperator' and n.get('op') == '=':
            d = lhs_var(n['ch'][0])
            if not d:
                return None
            rn = f.nodes[f.strip_casts(n['ch'][1])]
            own = rn['k'] == 'BinaryOperator' and rn.get('op') in ('+', '-', '*', '/') and \
                any(f.nodes[f.strip_casts(c)]['k'] == 'DeclRefExpr' and f.nodes[f.strip_casts(c)].get('d') == d for c in rn['ch'])
            return (d, own, True)
        return None

    def transfer(b, out, report=None):
        live = set(out)
        for e in reversed(blocks[b]['els']):
            if not isinstance(e, int):
                continue
            n = f.nodes[e]
            st = store(e)
            if st:
                d, own, kills = st
                if report is not None and own and d not in live and d not in escaped:
                    report.append((e, d))
                if kills:
                    live.discard(d)
            elif n['k'] == 'DeclRefExpr' and n.get('d') in locs:
                p_ = par.get(e)
                while p_ is not None and f.nodes[p_]['k'] == 'ParenExpr':
                    p_ = par.get(p_)
                pn = f.nodes[p_] if p_ is not None else None
                if not (pn is not None and pn['k'] == 'BinaryOperator' and pn.get('op') == '=' and
                        f.strip_casts(pn['ch'][0]) == e):
                    live.add(n['d'])
            elif n['k'] == 'DeclStmt':
                for d in n['decls']:
                    live.discard(d['d'])
        return live
    live_in = {b: set() for b in blocks}
    changed = True
    while changed:
        changed = False
        for b in blocks:
            out = set()
            for s_ in blocks[b]['succ']:
                if s_:
                    out |= live_in[s_['b']]
            li = transfer(b, out)
            if li != live_in[b]:
                live_in[b] = li
                changed = True
    rep = []
    nstores = 0
    for b in blocks:
        out = set()
        for s_ in blocks[b]['succ']:
            if s_:
                out |= live_in[s_['b']]
        transfer(b, out, rep)
        nstores += sum(1 for e in blocks[b]['els'] if isinstance(e, int) and (store(e) or (None, False))[1])
    return rep, nstores


def rule_DS1(ctx, files=None):
    res = RuleResult('DS1', 'no accumulated contribution is dropped: the result of an update of a scalar local by its own value '
                            '(x += e, x -= e, x *= e, x = x + e ...) is read on some path before x is overwritten or goes out of '
                            'scope (an update moved below the statements that consume it is dead)')
    nst = 0
    seen = set()
    for f in sorted(ctx.lib_fns(), key=lambda x: (x.file, x.line)):
        if not _in(f, files) or f.d.get('body', -1) < 0 or not f.cfg:
            continue
        rep, n = _ds1_function(f)
        nst += n
        res.obligations += n
        res.discharged += n
        for e, d in rep:
            key = (f.loc(e), f.nodes[e].get('c', 0), d)
            if key in seen:
                res.discharged -= 1 if False else 0
                continue
            seen.add(key)
            res.discharged -= 1
            res.fail(f.q, '%s@%s' % (d.split('@')[0], f.src_text(e)[:30].strip()), f.loc(e),
                     'the value that `%s` gives %s is read on no path: it is overwritten or goes out of scope first, so the '
                     'contribution is dropped' % (f.src_text(e)[:60].replace('\n', ' '), d.split('@')[0]))
    res.analysed.update({'own_value_updates_of_scalar_locals': nst})
    return res, nst
