"""H1: SetScale forgets the old scale (homogeneity-degree analysis).

A projection object carries its scale in a few members (`_k0`, `_scale`, `_nrho0`, `_k2` ...).  If the scale
factor given to the constructor is multiplied by kappa, member m is multiplied by kappa**deg(m); deg is read
from the constructor / Init by a degree type system (products add degrees, quotients subtract, sums need equal
degrees, sq doubles, sqrt halves, any other function needs degree-0 arguments).  `SetScale(lat, k)` must leave
a state that does not depend on the scale the object had before, i.e. after the call every member's value,
seen as a function of the old scale, has degree 0 ... measured against what the *new* scale requires:

    new value of m  ~  kappa_old ** 0

`_k0 *= k/kold` is fine because kold (the scale returned by Forward) has the degree of `_k0`; `_k0 = k/kold`
without first resetting `_k0` is not (degree -1), and a derived member that is not rescaled keeps degree 1.
"""
from ..core import RuleResult
from ..build import AnalysisBroken
from ..flow import ASSIGN_OPS

TOPD = 'mixed'
ZERO_FNS_ALL = True


def dmul(a, b):
    if TOPD in (a, b):
        return TOPD
    return a + b


def dsub(a, b):
    if TOPD in (a, b):
        return TOPD
    return a - b


def dsame(a, b):
    if a == b:
        return a
    return TOPD


class Degrees:
    """degree analysis of one function body (structured walk); `mem` maps member -> degree and is updated."""

    def __init__(self, prog, fn, mem, penv, depth=0):
        self.prog = prog
        self.fn = fn
        self.mem = mem
        self.env = dict(penv)       # decl id -> degree
        self.depth = depth
        self.zero_lit = set()       # variables whose current value is the literal 0

    def _is_zero_literal(self, nid):
        n = self.fn.nodes[self.fn.strip_casts(nid)]
        if 'cv' in n and n['k'] != 'DeclRefExpr':
            try:
                return int(n['cv']) == 0
            except ValueError:
                return False
        if n['k'] == 'FloatingLiteral':
            try:
                return float(n.get('v', '1')) == 0
            except ValueError:
                return False
        return False

    def ev(self, nid):
        f = self.fn
        if nid is None or nid < 0:
            return 0
        n = f.nodes[nid]
        k = n['k']
        if 'cv' in n or 'fv' in n and k != 'DeclRefExpr':
            return 0
        if k in ('IntegerLiteral', 'FloatingLiteral', 'CXXBoolLiteralExpr', 'CharacterLiteral'):
            return 0
        if k in ('ParenExpr', 'ImplicitCastExpr', 'ExprWithCleanups', 'MaterializeTemporaryExpr', 'CXXFunctionalCastExpr',
                 'CStyleCastExpr', 'CXXStaticCastExpr', 'ConstantExpr', 'CXXBindTemporaryExpr') and n['ch']:
            return self.ev(n['ch'][0])
        if k == 'DeclRefExpr':
            if n.get('rk') in ('param', 'local'):
                return self.env.get(n['d'], 0)
            return 0
        if k == 'MemberExpr':
            if n.get('mk') == 'field' and n.get('thisbase'):
                return self.mem.get(n['m'], 0)
            return 0
        if k == 'UnaryOperator':
            if n['op'] in ('-', '+'):
                return self.ev(n['ch'][0])
            if n['op'] in ('++', '--'):
                return self.ev(n['ch'][0])
            return 0 if self.ev(n['ch'][0]) == 0 else TOPD
        if k in ('BinaryOperator', 'CompoundAssignOperator'):
            op = n['op']
            if op in ASSIGN_OPS:
                rhs = self.ev(n['ch'][1])
                if op == '=':
                    v = rhs
                else:
                    cur = self.ev(n['ch'][0])
                    v = dmul(cur, rhs) if op == '*=' else (dsub(cur, rhs) if op == '/=' else
                                                           (dsame(cur, rhs) if op in ('+=', '-=') else TOPD))
                self.store(n['ch'][0], v)
                ln = f.nodes[f.strip(n['ch'][0])]
                if ln['k'] == 'DeclRefExpr':
                    if op == '=' and self._is_zero_literal(n['ch'][1]):
                        self.zero_lit.add(ln.get('d'))
                    else:
                        self.zero_lit.discard(ln.get('d'))
                return v
            a, b = self.ev(n['ch'][0]), self.ev(n['ch'][1])
            if op == '*':
                return dmul(a, b)
            if op == '/':
                return dsub(a, b)
            if op in ('+', '-'):
                return dsame(a, b)
            if op == ',':
                return b
            return 0        # comparisons, logic
        if k == 'ConditionalOperator':
            self.ev(n['cond'])
            a, b = self.ev(n['then']), self.ev(n['else'])
            # a constant arm (0, 1, NaN) is compatible with any degree only if it is the literal 0
            tn, en = f.nodes[f.strip_casts(n['then'])], f.nodes[f.strip_casts(n['else'])]
            if 'cv' in tn and int(tn['cv']) == 0:
                return b
            if 'cv' in en and int(en['cv']) == 0:
                return a
            return dsame(a, b)
        if k in ('CallExpr', 'CXXMemberCallExpr', 'CXXOperatorCallExpr'):
            return self.call(n)
        if k in ('CXXConstructExpr', 'CXXTemporaryObjectExpr'):
            args = n.get('args', [])
            return self.ev(args[0]) if len(args) == 1 else 0
        return 0

    def call(self, n):
        f = self.fn
        ce = n.get('callee') or {}
        nm = ce.get('name', '')
        q = ce.get('q', '')
        args = n.get('args', [])
        off = 1 if (n.get('ckind') == 'operator' and ce.get('method')) else 0
        args = args[off:]
        pk = ce.get('pk', [])
        ds = [self.ev(a) for a in args]
        if q.endswith('Math::sq') and ds:
            return TOPD if ds[0] == TOPD else 2 * ds[0]
        if nm == 'sqrt' and ds:
            if ds[0] == TOPD or ds[0] % 2:
                return TOPD if ds[0] != 0 else 0
            return ds[0] // 2
        if nm in ('fabs', 'abs', 'fmax', 'fmin', 'max', 'min', 'hypot', 'copysign') and ds:
            d = ds[0]
            for x in ds[1:]:
                d = dsame(d, x) if nm != 'copysign' else d
            return d
        if nm in ('atan2', 'atan2d') and len(ds) == 2:
            # homogeneous of degree 0 in its two arguments jointly
            return 0 if (ds[0] == ds[1] and ds[0] != TOPD) else TOPD
        callee = self.prog.fns.get(ce.get('usr'))
        onthis = n.get('objthis') or (ce.get('method') and n['k'] != 'CXXMemberCallExpr' and not ce.get('mstatic'))
        if callee is not None and callee.d.get('body', -1) >= 0 and ce.get('method') and not ce.get('mstatic') and \
                n.get('objthis') and self.depth < 2 and any(k_ in ('r', 'p') for k_ in pk):
            # a member function of the same object with outputs (Forward): analyse it with the current member degrees
            sub = Degrees(self.prog, callee, self.mem, {p['d']: (ds[i] if i < len(ds) and p['pk'] in ('v', 'cr') else 0)
                                                         for i, p in enumerate(callee.params)}, self.depth + 1)
            sub.ex(callee.d['body'])
            for i, p in enumerate(callee.params):
                if p['pk'] in ('r', 'p') and i < len(args):
                    self.store(args[i], sub.env.get(p['d'], 0))
            return 0
        # any other function: homogeneous of degree 0 only for degree-0 arguments; outputs by reference likewise
        ok = all(d == 0 for i, d in enumerate(ds) if not (i < len(pk) and pk[i] in ('r', 'p')))
        for i, a in enumerate(args):
            if i < len(pk) and pk[i] in ('r', 'p'):
                self.store(a, 0 if ok else TOPD)
        return 0 if ok else TOPD

    def store(self, lhs, d):
        f = self.fn
        n = f.nodes[f.strip(lhs)]
        if n['k'] == 'DeclRefExpr' and n.get('rk') in ('param', 'local'):
            self.env[n['d']] = d
        elif n['k'] == 'MemberExpr' and n.get('mk') == 'field' and n.get('thisbase'):
            self.mem[n['m']] = d

    def ex(self, nid):
        f = self.fn
        if nid is None or nid < 0:
            return
        n = f.nodes[nid]
        k = n['k']
        if k == 'CompoundStmt':
            for c in n['ch']:
                self.ex(c)
        elif k == 'DeclStmt':
            for d in n['decls']:
                self.env[d['d']] = self.ev(d['init']) if d.get('init', -1) >= 0 else 0
                if d.get('init', -1) >= 0 and self._is_zero_literal(d['init']):
                    self.zero_lit.add(d['d'])
                else:
                    self.zero_lit.discard(d['d'])
        elif k == 'IfStmt':
            self.ev(n['cond'])
            e0, m0, z0 = dict(self.env), dict(self.mem), set(self.zero_lit)
            self.ex(n.get('then', -1))
            e1, m1, z1 = self.env, dict(self.mem), set(self.zero_lit)
            self.env = dict(e0)
            self.mem.clear()
            self.mem.update(m0)
            self.zero_lit = set(z0)
            self.ex(n.get('else', -1))
            e2, m2, z2 = self.env, dict(self.mem), set(self.zero_lit)
            throws_then = self._throws(n.get('then', -1))
            throws_else = self._throws(n.get('else', -1))
            if throws_then and not throws_else:
                self.env = e2
                self.mem.clear()
                self.mem.update(m2)
            elif throws_else and not throws_then:
                self.env = e1
                self.mem.clear()
                self.mem.update(m1)
            else:
                # a literal 0 on one arm (the limit value of a removable singularity) is compatible with any degree
                def jn(kk):
                    if kk in z1 and kk not in z2:
                        return e2.get(kk, 0)
                    if kk in z2 and kk not in z1:
                        return e1.get(kk, 0)
                    return dsame(e1.get(kk, 0), e2.get(kk, 0))
                self.env = {kk: jn(kk) for kk in set(e1) | set(e2)}
                self.zero_lit = z1 & z2
                self.mem.clear()
                self.mem.update({kk: dsame(m1.get(kk, 0), m2.get(kk, 0)) for kk in set(m1) | set(m2)})
        elif k in ('ForStmt', 'WhileStmt', 'DoStmt'):
            for _ in range(2):
                self.ex(n.get('body', -1))
        elif k in ('ReturnStmt', 'NullStmt', 'BreakStmt', 'ContinueStmt'):
            if k == 'ReturnStmt' and n.get('val', -1) is not None and n.get('val', -1) >= 0:
                self.ev(n['val'])
        elif k == 'CXXTryStmt':
            self.ex(n['try'])
        else:
            self.ev(nid)

    def _throws(self, nid):
        if nid is None or nid < 0:
            return False
        f = self.fn
        n = f.nodes[nid]
        if n['k'] == 'CXXThrowExpr':
            return True
        if n['k'] == 'ExprWithCleanups' and n['ch']:
            return self._throws(n['ch'][0])
        if n['k'] == 'CompoundStmt' and n['ch']:
            return self._throws(n['ch'][-1])
        return False


SCALE_PARAMS = ('k0', 'k1', 'k')


def member_degrees(ctx, cls):
    """degrees of the members in the constructor's scale argument (joined over the public constructors)."""
    out = None
    nct = 0
    for f in ctx.lib_fns():
        if f.cls != cls or not f.is_ctor or f.d.get('implicit') or f.d.get('body', -1) < 0:
            continue
        sp = [p for p in f.params if p['name'] in SCALE_PARAMS and p.get('float')]
        if not sp:
            continue
        nct += 1
        mem = {}
        D = Degrees(ctx.prog, f, mem, {p['d']: (1 if p['name'] in SCALE_PARAMS else 0) for p in f.params})
        for it in f.d.get('inits', []):
            if it.get('kind') == 'member' and it.get('init', -1) >= 0:
                mem[it['m']] = D.ev(it['init'])
        # follow Init(...) calls on this
        for i, n in f.all_nodes():
            ce = n.get('callee') or {}
            callee = ctx.prog.fns.get(ce.get('usr'))
            if n['k'] == 'CXXMemberCallExpr' and n.get('objthis') and callee is not None and callee.d.get('body', -1) >= 0 \
                    and callee.cls == cls:
                args = n.get('args', [])
                ds = [D.ev(a) for a in args]
                sub = Degrees(ctx.prog, callee, mem, {p['d']: (ds[j] if j < len(ds) else 0) for j, p in enumerate(callee.params)}, 1)
                sub.ex(callee.d['body'])
        D.ex(f.d['body'])
        if out is None:
            out = dict(mem)
        else:
            out = {k: dsame(out.get(k, 0), mem.get(k, 0)) for k in set(out) | set(mem)}
    return out or {}, nct


def rule_H1(ctx, classes):
    res = RuleResult('H1', 'SetScale forgets the old scale: with the scale members typed by their homogeneity degree in the '
                           'constructor\'s scale argument, every member has degree 0 in the *old* scale after SetScale '
                           '(a member set from k/kold without resetting the scale first, or a derived member that is not '
                           'rescaled, keeps a dependence on the previous scale)')
    nset = 0
    nmem = 0
    for cls in classes:
        deg, nct = member_degrees(ctx, cls)
        scaled = {m: d for m, d in deg.items() if d != 0}
        if not nct or not scaled:
            raise AnalysisBroken('H1: no scale-carrying member derived for %s' % cls)
        if any(d == TOPD for d in scaled.values()):
            res.note('%s: members of mixed degree (not decided): %s' % (cls, sorted(m for m, d in scaled.items() if d == TOPD)))
        res.analysed.setdefault('member_degrees', {})[cls.rsplit('::', 1)[-1]] = {m: d for m, d in sorted(scaled.items())}
        for f in ctx.lib_fns():
            if f.cls != cls or f.name != 'SetScale' or f.d.get('body', -1) < 0:
                continue
            nset += 1
            mem = dict(deg)
            D = Degrees(ctx.prog, f, mem, {p['d']: 0 for p in f.params})
            D.ex(f.d['body'])
            for m, d0 in sorted(scaled.items()):
                if d0 == TOPD:
                    continue
                nmem += 1
                d1 = mem.get(m, 0)
                ok = d1 == 0
                res.ob(ok, {'fn': f.q, 'member': m, 'degree_in_constructor_scale': d0, 'degree_in_old_scale_after_SetScale': d1})
                if not ok:
                    res.fail(f.q, m, f.loc(),
                             'after SetScale member %s still scales as (old scale)**%s: the new state depends on the scale the '
                             'object had before the call' % (m, d1))
    return res, nset, nmem


OUT_DEGREE = {'x': 1, 'y': 1, 'k': 1, 'lat': 0, 'lon': 0, 'gamma': 0}


def rule_H2(ctx, classes):
    res = RuleResult('H2', 'scale homogeneity of the projections: with the scale members typed by their degree in the '
                           'constructor\'s scale argument, Forward returns x, y and k of degree 1 and gamma of degree 0; '
                           'Reverse (x, y of degree 1 in) returns lat, lon, gamma of degree 0 and k of degree 1 - on every '
                           'path (a scale factor applied on one branch only, or twice, shows as a mixed or wrong degree)')
    nfn = 0
    nout = 0
    for cls in classes:
        deg, nct = member_degrees(ctx, cls)
        if not nct or not any(d != 0 for d in deg.values()):
            raise AnalysisBroken('H2: no scale-carrying member derived for %s' % cls)
        for f in sorted(ctx.lib_fns(), key=lambda x: (x.file, x.line)):
            if f.cls != cls or f.name not in ('Forward', 'Reverse') or f.d.get('body', -1) < 0 or \
                    not any(p['name'] == 'k' and p['pk'] in ('r', 'p') for p in f.params):
                continue
            nfn += 1
            mem = dict(deg)
            penv = {}
            for p in f.params:
                penv[p['d']] = 1 if (f.name == 'Reverse' and p['name'] in ('x', 'y') and p['pk'] in ('v', 'cr')) else 0
            D = Degrees(ctx.prog, f, mem, penv)
            D.ex(f.d['body'])
            for p in f.params:
                if p['pk'] not in ('r', 'p') or p['name'] not in OUT_DEGREE:
                    continue
                nout += 1
                got = D.env.get(p['d'], 0)
                want = OUT_DEGREE[p['name']]
                ok = got == want
                res.ob(ok, {'fn': f.q, 'output': p['name'], 'degree': got, 'required': want} if (not ok or nout % 6 == 1) else None)
                if not ok:
                    res.fail(f.q, p['name'], f.loc(), 'output %s of %s has degree %s in the scale (required %d): the scale '
                             'factor is not applied uniformly on every path' % (p['name'], f.q, got, want))
    res.analysed.update({'functions': nfn, 'outputs': nout})
    return res, nfn, nout
