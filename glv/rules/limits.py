"""LIM1: the special arm of a removable singularity is the limit of the general arm.

The library writes  `v != 0 ? general(v) : special`  (and `v == 0 ? special : general(v)`) wherever a formula has a
removable singularity: `_n0 != 0 ? stheta / _n0 : _k2 * lam`, `d != 0 ? sin(d) / d : 1`,
`_n0 != 0 ? theta / (_k2 * _n0) : x / (y1 * _k0)`.  For every such conditional expression whose function body can be
evaluated symbolically (sympoly, callees uninterpreted) the value of the general arm is expanded in powers of v
(glv/series.py); where the expansion exists and has no pole, its constant term must equal the special arm at v = 0
(after clearing inverses).  Sites whose general arm has a pole (a direction cosine `Y / R`), or functions of
arguments that depend on v in a way that is not elementary, are not judged.
"""
from ..core import RuleResult
from ..build import AnalysisBroken
from ..sympoly import SymEval, Poly, Unsupported, clear_inverses, rebuild
from ..series import series_of, NotExpandable

NS = 'GeographicLib::'
# sites where the special arm is a convention, not a limit (read and confirmed)
LIM1_AUDITED = {}
# members for which the limit is meaningful with the other members held fixed: the cone constant of the Albers
# projection (n0 -> 0 is the cylindrical limit, rho0 n0 stays finite)
MEMBER_LIMITS = {('AlbersEqualArea', '_n0')}
# identities the class maintains between its members (constructor and SetScale; rule D1 checks that SetScale
# re-establishes them)
CLASS_IDENTITIES = {'AlbersEqualArea': {'_k2': Poly.sym('_k0') * Poly.sym('_k0')}}


def _sites(f):
    out = []
    for i, nd in f.all_nodes():
        if nd['k'] != 'ConditionalOperator' or nd.get('t', '') not in ('double', 'float', 'long double'):
            continue
        c = f.nodes[f.strip_casts(nd['cond'])]
        if c['k'] != 'BinaryOperator' or c.get('op') not in ('!=', '=='):
            continue
        a, b = f.nodes[f.strip_casts(c['ch'][0])], f.nodes[f.strip_casts(c['ch'][1])]
        if not ('cv' in b and int(b['cv']) == 0) or a['k'] not in ('DeclRefExpr', 'MemberExpr'):
            continue
        gen = nd['then'] if c['op'] == '!=' else nd['else']
        if not any(f.nodes[j]['k'] == 'BinaryOperator' and f.nodes[j].get('op') == '/' for j in f.walk(gen)):
            continue
        out.append((i, c['op'], c['ch'][0]))
    return out


def rule_LIM1(ctx, files=None):
    res = RuleResult('LIM1', 'removable singularities: in `v != 0 ? general : special` the special arm equals the limit of the '
                             'general arm as v -> 0, wherever that limit can be computed by an elementary expansion (sin s ~ s, '
                             'cos s ~ 1 - s^2/2, atan2(s, c) ~ s/c, 1/(b0 + b1 v) ~ ...) of the symbolically evaluated body')
    njudged = 0
    nskipped = 0
    seen = set()
    for f in sorted(ctx.lib_fns(), key=lambda x: (x.file, x.line)):
        if f.d.get('body', -1) < 0 or (files and not any(f.file.endswith(x) for x in files)) or (f.file, f.line, f.name) in seen:
            continue
        seen.add((f.file, f.line, f.name))
        sites = _sites(f)
        if not sites:
            continue
        if len(f.nodes) > 2500:
            nskipped += len(sites)          # the long solver bodies are not evaluated symbolically
            continue
        ev = SymEval(ctx.prog, inline=set(), max_paths=400)
        ev.watch = {i for i, _, _ in sites}
        try:
            paths = ev.explore(f)
        except (Unsupported, MemoryError, RecursionError):
            nskipped += len(sites)
            continue
        for i, op, vnode in sites:
            gen_arm = 'then' if op == '!=' else 'else'
            gens, specs = [], []
            for p in paths:
                for (nid, arm, val, fn) in p.watched:
                    if nid == i and fn is f and isinstance(val, Poly):
                        (gens if arm == gen_arm else specs).append((val, p))
            if not gens or not specs:
                nskipped += 1
                continue
            # v: a local or a by-value parameter (an independent quantity), or a member on the allow-list; if v is a linear
            # combination of inputs (`t = x - y`) one input is re-expressed through v
            gval, gp = min(gens, key=lambda x: len(x[1].eqs))        # the generic path of the general arm
            sval, sp = min(specs, key=lambda x: len(x[1].eqs))
            vn = f.nodes[f.strip_casts(vnode)]
            if vn['k'] == 'MemberExpr':
                if not vn.get('thisbase') or (f.cls.split('::')[-1], vn['m']) not in MEMBER_LIMITS:
                    nskipped += 1
                    continue
                fr_key = ('this', vn['m'])
            else:
                fr_key = ('v', vn.get('d'))
            vv = gp.env.get(fr_key)
            if vv is None and vn['k'] == 'MemberExpr':
                vv = Poly.sym(vn['m'])
            vsym = '@eps'
            if not isinstance(vv, Poly) or not vv.is_linear() or vv.is_const():
                nskipped += 1
                continue
            cands = [s_ for s_ in sorted(vv.symbols()) if s_ not in gp.pure_args and vv.t.get(((s_, 1),), 0) != 0]
            if not cands or any(s_ in gp.pure_args for s_ in vv.symbols()):
                nskipped += 1
                continue
            s0_ = cands[0]
            c0_ = vv.t[((s0_, 1),)]
            repl = (Poly.sym(vsym) - (vv - Poly.sym(s0_).scale(c0_))).scale(1 / c0_)
            try:
                ga, sa = {}, {}
                gval = rebuild(gval, {s0_: repl}, gp.pure_args, ga)
                sval = rebuild(sval, {s0_: repl}, sp.pure_args, sa)
            except Unsupported:
                nskipped += 1
                continue

            class _P:          # the rebuilt expressions carry their own function symbols
                pass
            gp2, sp2 = _P(), _P()
            gp2.pure_args, sp2.pure_args = {**gp.pure_args, **ga}, {**sp.pure_args, **sa}
            gp, sp = gp2, sp2
            try:
                new_args = {}
                ser = series_of(gval, gp.pure_args, vsym, None, new_args)
            except NotExpandable:
                nskipped += 1
                continue
            if not ser.is_zero() and ser.val < 0:
                nskipped += 1          # a pole: the special arm is a convention
                continue
            limit = ser.coeff(0)
            out_args = dict(new_args)
            try:
                s0 = rebuild(sval, {vsym: Poly()}, sp.pure_args, out_args)
                l0 = rebuild(limit, {vsym: Poly()}, {**gp.pure_args, **new_args}, out_args)
                ident = dict(CLASS_IDENTITIES.get(f.cls.split('::')[-1] if f.cls else '', {}))
                # companions of two coinciding points coincide (hx = hyp(x), hy = hyp(y), ... in the divided differences)
                pn = {p_['name'] for p_ in f.params}
                if s0_ in ('x', 'y') and vv.symbols() == {'x', 'y'}:
                    keep = 'y' if s0_ == 'x' else 'x'
                    for a_ in ('s', 'c', 'h'):
                        if a_ + 'x' in pn and a_ + 'y' in pn:
                            ident[a_ + s0_] = Poly.sym(a_ + keep)
                dd = s0 - l0
                for m_, e_ in ident.items():
                    dd = rebuild(dd, {m_: e_}, {**sp.pure_args, **gp.pure_args, **out_args}, out_args)
                d = clear_inverses(dd, {**sp.pure_args, **gp.pure_args, **out_args})
            except Unsupported:
                nskipped += 1
                continue
            njudged += 1
            ok = d.is_zero() or (f.name, f.loc(i).rsplit(':', 1)[-1]) in LIM1_AUDITED
            res.ob(ok, {'fn': f.q, 'at': f.loc(i), 'variable': vsym, 'limit': l0.show()[:80], 'special': s0.show()[:80]})
            if not ok:
                res.fail(f.q, vsym, f.loc(i), 'as %s -> 0 the general arm at %s tends to %s, the special arm is %s'
                         % (vsym, f.loc(i), l0.show()[:120], s0.show()[:120]))
    res.analysed.update({'sites_judged': njudged, 'sites_not_judged': nskipped})
    return res, njudged
