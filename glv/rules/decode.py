"""X10: decoder output ranges.

A grid-code decoder (GARS::Reverse, Georef::Reverse, Geohash::Reverse) turns the characters of the code into
digit values by alphabet lookup, rejects values outside the scheme with throwing guards, and combines the
surviving digits by mixed-radix arithmetic into a latitude and a longitude.  Every accepted string must decode
to a position inside the domain the encoders cover: -90 <= lat < 90, -180 <= lon < 180 (the centre or the
south-west corner of a cell of that domain).  A guard that admits one value too many (<= for <, a test made
before instead of after a decrement, a dropped minutes < 60 test) puts an accepted code outside.

Decided by a path-wise range interpreter: the string length is enumerated, every path is explored, integer
control (precision, loop counters) is concrete, each looked-up character is a fresh variable ranging over
[-1, |alphabet|-1] (all values attained), guards clip it, and the arithmetic is evaluated on ranges.  Because
every digit variable occurs once in the affine expression for an output, the computed end points are exact;
`attained`, `full` (every integer in the range occurs) and `stride` flags are tracked so that a violation is
reported only for an end point some accepted string really produces.  No library code runs.
"""
import math

from ..cinterp import Interp, Frame, UNK, isunk, _num, Throw, Return
from ..core import RuleResult
from ..build import AnalysisBroken
from ..flow import ASSIGN_OPS
from .tab import Consts

INF = float('inf')
_src = [0]


class R:
    """integer or real range with attainment bookkeeping."""
    __slots__ = ('lo', 'hi', 'alo', 'ahi', 'stride', 'isint', 'srcs')

    def __init__(self, lo, hi, alo=False, ahi=False, stride=None, isint=True, srcs=frozenset()):
        self.lo, self.hi, self.alo, self.ahi, self.stride, self.isint, self.srcs = lo, hi, alo, ahi, stride, isint, srcs

    @property
    def full(self):
        return self.stride == 1

    def __repr__(self):
        return '%s%s, %s%s%s' % ('[' if self.alo else '(', self.lo, self.hi, ']' if self.ahi else ')',
                                 '' if self.stride is None else '/%d' % self.stride)


def fresh(lo, hi):
    _src[0] += 1
    return R(lo, hi, True, True, 1, True, frozenset([_src[0]]))


def is_r(v):
    return isinstance(v, R)


def to_r(v):
    if is_r(v):
        return v
    if isinstance(v, bool):
        v = int(v)
    return R(v, v, True, True, None, isinstance(v, int))


def tri(v):
    if isunk(v):
        return None
    if is_r(v):
        if v.lo == v.hi:
            return v.lo != 0
        if v.lo > 0 or v.hi < 0:
            return True
        return None
    if isinstance(v, float) and math.isnan(v):
        return True
    return bool(v)


def r_neg(a):
    return R(-a.hi, -a.lo, a.ahi, a.alo, a.stride, a.isint, a.srcs)


def r_shift(a, c):
    isint = a.isint and isinstance(c, int)
    return R(a.lo + c, a.hi + c, a.alo, a.ahi, a.stride if isint else None, isint, a.srcs)


def r_add(a, b):
    ind = not (a.srcs & b.srcs)
    isint = a.isint and b.isint
    stride = None
    if ind and isint:
        if a.full and b.full:
            stride = 1
        else:
            for x, y in ((a, b), (b, a)):
                # every multiple of m  +  every value of [0, m-1]  =  every integer
                if x.stride and x.stride > 1 and y.full and y.hi - y.lo == x.stride - 1:
                    stride = 1
    return R(a.lo + b.lo, a.hi + b.hi, ind and a.alo and b.alo, ind and a.ahi and b.ahi, stride, isint, a.srcs | b.srcs)


def r_mulc(a, c):
    if c == 0:
        return 0
    isint = a.isint and isinstance(c, int)
    stride = a.stride * abs(c) if (isint and a.stride) else None
    if c > 0:
        return R(a.lo * c, a.hi * c, a.alo, a.ahi, stride, isint, a.srcs)
    return R(a.hi * c, a.lo * c, a.ahi, a.alo, stride, isint, a.srcs)


def _tdiv(x, c):
    q = abs(x) // abs(c)
    return q if (x >= 0) == (c > 0) else -q


def r_divc(a, c, intdiv):
    if c == 0:
        return UNK
    if intdiv:
        lo, hi = _tdiv(a.lo, c), _tdiv(a.hi, c)
        if c < 0:
            return R(hi, lo, a.ahi, a.alo, None, True, a.srcs)
        return R(lo, hi, a.alo, a.ahi, 1 if (a.full and c > 0) else None, True, a.srcs)
    lo, hi = a.lo / c, a.hi / c
    if c < 0:
        return R(hi, lo, a.ahi, a.alo, None, False, a.srcs)
    return R(lo, hi, a.alo, a.ahi, None, False, a.srcs)


def r_modc(a, m):
    if m <= 0 or a.lo < 0:
        return UNK
    if a.hi - a.lo + 1 >= m:
        return R(0, m - 1, a.full, a.full, 1 if a.full else None, True, a.srcs)
    lo, hi = a.lo % m, a.hi % m
    if lo <= hi:
        return R(lo, hi, a.alo, a.ahi, a.stride if a.full else None, True, a.srcs)
    return R(0, m - 1, False, False, None, True, a.srcs)


def r_cmp(op, a, b):
    """True / False when decided, else an undetermined boolean range."""
    if op == '<':
        if a.hi < b.lo:
            return True
        if a.lo >= b.hi:
            return False
    elif op == '<=':
        if a.hi <= b.lo:
            return True
        if a.lo > b.hi:
            return False
    elif op == '>':
        return r_cmp('<', b, a)
    elif op == '>=':
        return r_cmp('<=', b, a)
    elif op == '==':
        if a.lo == a.hi == b.lo == b.hi:
            return True
        if a.hi < b.lo or b.hi < a.lo:
            return False
    elif op == '!=':
        v = r_cmp('==', a, b)
        if v is True:
            return False
        if v is False:
            return True
    return R(0, 1, False, False, None, True, a.srcs | b.srcs)


class RangeFrame(Frame):
    # ---------------------------------------------------------------- values
    def arith(self, op, a, b):
        if not (is_r(a) or is_r(b)):
            return Frame.arith(self, op, a, b)
        if isunk(a) or isunk(b) or not (is_r(a) or _num(a)) or not (is_r(b) or _num(b)):
            return UNK
        for v in (a, b):
            if isinstance(v, float) and math.isnan(v):
                return Frame.arith(self, op, a if not is_r(a) else UNK, b if not is_r(b) else UNK)
        ca = None if is_r(a) and a.lo != a.hi else (a.lo if is_r(a) else a)
        cb = None if is_r(b) and b.lo != b.hi else (b.lo if is_r(b) else b)
        if ca is not None and cb is not None:
            return Frame.arith(self, op, ca, cb)
        ra, rb = to_r(a), to_r(b)
        if op in ('<', '>', '<=', '>=', '==', '!='):
            return r_cmp(op, ra, rb)
        if op == '+':
            if cb is not None:
                return r_shift(ra, cb)
            if ca is not None:
                return r_shift(rb, ca)
            return r_add(ra, rb)
        if op == '-':
            if cb is not None:
                return r_shift(ra, -cb)
            if ca is not None:
                return r_shift(r_neg(rb), ca)
            return r_add(ra, r_neg(rb))
        if op == '*':
            if cb is not None:
                return r_mulc(ra, cb)
            if ca is not None:
                return r_mulc(rb, ca)
            c = [ra.lo * rb.lo, ra.lo * rb.hi, ra.hi * rb.lo, ra.hi * rb.hi]
            return R(min(c), max(c), False, False, None, ra.isint and rb.isint, ra.srcs | rb.srcs)
        if op == '/':
            if cb is not None:
                return r_divc(ra, cb, ra.isint and isinstance(cb, int))
            return UNK
        if op == '%':
            if cb is not None and ra.isint and isinstance(cb, int):
                return r_modc(ra, cb)
            return UNK
        if op == '<<' and cb is not None and isinstance(cb, int) and 0 <= cb < 63:
            return r_mulc(ra, 1 << cb)
        if op == '>>' and cb is not None and isinstance(cb, int) and 0 <= cb < 63 and ra.lo >= 0:
            return r_divc(ra, 1 << cb, True)
        if op == '&' and cb is not None and isinstance(cb, int) and cb >= 0:
            return R(0, cb, False, False, None, True, ra.srcs)
        return UNK

    def truth(self, v):
        t = tri(v)
        if t is None:
            return self.ip.choose()
        return t

    def truth_of(self, cond):
        v = self.ev(cond)
        t = tri(v)
        if t is not None:
            return t
        c = self.ip.choose()
        self.refine(cond, c)
        return c

    def binop(self, n):
        op = n['op']
        if op in ('&&', '||'):
            a = tri(self.ev(n['ch'][0]))
            if op == '&&' and a is False:
                return False
            if op == '||' and a is True:
                return True
            b = tri(self.ev(n['ch'][1]))
            if op == '&&':
                if b is False:
                    return False
                return True if (a and b) else UNK
            if b is True:
                return True
            return False if (a is False and b is False) else UNK
        return Frame.binop(self, n)

    def ev(self, nid):
        if nid is None or nid < 0:
            return UNK
        f = self.fn
        n = f.nodes[nid]
        k = n['k']
        if k == 'UnaryOperator' and n['op'] in ('-', '+', '!'):
            v = self.ev(n['ch'][0])
            if is_r(v):
                if n['op'] == '-':
                    return r_neg(v)
                if n['op'] == '+':
                    return v
                t = tri(v)
                return UNK if t is None else (not t)
            if isunk(v) or not _num(v):
                return UNK
            return -v if n['op'] == '-' else (v if n['op'] == '+' else (not v))
        if k in ('ImplicitCastExpr', 'CXXFunctionalCastExpr', 'CStyleCastExpr', 'CXXStaticCastExpr') and n['ch']:
            ck = n.get('ck')
            if ck in ('IntegralToFloating', 'FloatingCast', 'IntegralCast', 'FloatingToIntegral'):
                v = self.ev(n['ch'][0])
                if is_r(v):
                    if ck == 'IntegralToFloating':
                        return R(float(v.lo), float(v.hi), v.alo, v.ahi, None, False, v.srcs)
                    if ck == 'FloatingToIntegral':
                        return R(math.trunc(v.lo), math.trunc(v.hi), v.alo, v.ahi, None, True, v.srcs) \
                            if math.isfinite(v.lo) and math.isfinite(v.hi) else UNK
                    return v
                if isunk(v) or not _num(v):
                    return v
                if ck == 'IntegralToFloating':
                    return float(v)
                if ck == 'FloatingToIntegral':
                    return int(v) if math.isfinite(v) else UNK
                if ck == 'FloatingCast':
                    return float(v)
                return v
        if k in ('UnaryOperator',) and n['op'] in ('++', '--'):
            v = self.ev(n['ch'][0])
            if is_r(v):
                nv = r_shift(v, 1 if n['op'] == '++' else -1)
                self.assign(n['ch'][0], nv)
                return v if n.get('postfix') else nv
            nv = UNK if isunk(v) or not _num(v) else (v + 1 if n['op'] == '++' else v - 1)
            self.assign(n['ch'][0], nv)
            return v if n.get('postfix') else nv
        return Frame.ev(self, nid)

    # ---------------------------------------------------------------- statements (tri-state loop conditions)
    def ex(self, nid):
        if nid is None or nid < 0:
            return
        f = self.fn
        n = f.nodes[nid]
        k = n['k']
        if k in ('ForStmt', 'WhileStmt'):
            self.tick()
            if k == 'ForStmt' and n.get('init', -1) >= 0:
                self.ex(n['init'])
            trips = 0
            while True:
                c = tri(self.ev(n['cond'])) if n.get('cond', -1) >= 0 else True
                if c is None:
                    self.havoc(n)
                    self.ip.loop_unknown = True
                    break
                if not c:
                    break
                trips += 1
                if trips > self.ip.max_trips:
                    self.havoc(n)
                    self.ip.loop_unknown = True
                    break
                self.ex(n.get('body', -1))
                if k == 'ForStmt' and n.get('inc', -1) >= 0:
                    self.ev(n['inc'])
            return
        Frame.ex(self, nid)
        if k == 'DeclStmt':
            # a named guard (`const bool inrange = ilat < td; if (!inrange) throw ...`): remember the defining
            # comparison together with the values its variables had, so that a branch on the name refines them
            for d in n['decls']:
                if d.get('t', '').replace('const ', '').strip() == 'bool' and d.get('init', -1) is not None \
                        and d.get('init', -1) >= 0:
                    snap = {}
                    for j in f.walk(d['init']):
                        m = f.nodes[j]
                        if m['k'] == 'DeclRefExpr' and m.get('rk') in ('local', 'param'):
                            snap[m['d']] = self.env.get(m['d'], UNK)
                    if not hasattr(self, 'booldefs'):
                        self.booldefs = {}
                    self.booldefs[d['d']] = (d['init'], snap)

    # ---------------------------------------------------------------- refinement by a chosen branch
    def refine(self, cond, truth):
        f = self.fn
        i = f.strip_casts(cond)
        n = f.nodes[i]
        k = n['k']
        if k == 'DeclRefExpr' and n.get('rk') == 'local' and n.get('d') in getattr(self, 'booldefs', {}):
            init, snap = self.booldefs[n['d']]
            if all(self.env.get(v, UNK) is val for v, val in snap.items()):
                self.refine(init, truth)
            return
        if k == 'UnaryOperator' and n.get('op') == '!':
            return self.refine(n['ch'][0], not truth)
        if k == 'BinaryOperator' and n['op'] in ('&&', '||'):
            if (n['op'] == '&&') == truth:
                self.refine(n['ch'][0], truth)
                self.refine(n['ch'][1], truth)
                return
            # a disjunction that must hold (or a conjunction that must fail): if one operand is decided the
            # other way, the remaining operand carries the constraint  (`i || (x < m && y < m)` with i == 0)
            t0 = tri(self.ev(n['ch'][0]))
            if t0 is not None and t0 != truth:
                self.refine(n['ch'][1], truth)
                return
            t1 = tri(self.ev(n['ch'][1]))
            if t1 is not None and t1 != truth:
                self.refine(n['ch'][0], truth)
            return
        if k == 'BinaryOperator' and n['op'] in ('<', '>', '<=', '>=', '==', '!='):
            op = n['op']
            if not truth:
                op = {'<': '>=', '>': '<=', '<=': '>', '>=': '<', '==': '!=', '!=': '=='}[op]
            # string.find_first_not_of(alphabet, pos) == npos: every character from pos on is in the alphabet
            for side in (0, 1):
                cn = f.nodes[f.strip_casts(n['ch'][side])]
                ce = cn.get('callee') or {}
                if cn['k'] == 'CXXMemberCallExpr' and ce.get('name') == 'find_first_not_of' and op == '==':
                    args = cn.get('args', [])
                    if len(args) >= 2:
                        an = f.nodes[f.strip_casts(args[0])]
                        while an['k'] in ('ImplicitCastExpr', 'CXXConstructExpr', 'MaterializeTemporaryExpr',
                                          'CXXBindTemporaryExpr') and (an['ch'] or an.get('args')):
                            an = f.nodes[f.strip_casts((an['ch'] or an['args'])[0])]
                        pos = self.ev(args[1])
                        if an.get('q') and _num(pos) and not isunk(pos):
                            self.ip.allin[an['q']] = int(pos)
                    return
            flip = {'<': '>', '>': '<', '<=': '>=', '>=': '<=', '==': '==', '!=': '!='}
            for lhs, o, rhs in ((n['ch'][0], op, n['ch'][1]), (n['ch'][1], flip[op], n['ch'][0])):
                ln = f.nodes[f.strip_casts(lhs)]
                if ln['k'] != 'DeclRefExpr' or ln.get('rk') not in ('local', 'param'):
                    continue
                cur = self.env.get(ln['d'], UNK)
                rv = self.ev(rhs)
                if is_r(rv) and rv.lo == rv.hi:
                    rv = rv.lo
                if not is_r(cur) or isunk(rv) or not _num(rv):
                    continue
                lo, hi, alo, ahi = cur.lo, cur.hi, cur.alo, cur.ahi
                step = 1 if cur.isint else 0
                if o == '<' and (rv - step if step else math.nextafter(rv, -INF)) < hi:
                    hi, ahi = (rv - step if step else math.nextafter(rv, -INF)), cur.full
                elif o == '<=' and rv < hi:
                    hi, ahi = rv, cur.full
                elif o == '>' and (rv + step if step else math.nextafter(rv, INF)) > lo:
                    lo, alo = (rv + step if step else math.nextafter(rv, INF)), cur.full
                elif o == '>=' and rv > lo:
                    lo, alo = rv, cur.full
                elif o == '==':
                    lo, hi, alo, ahi = rv, rv, cur.full, cur.full
                elif o == '!=':
                    if rv == lo and cur.isint:
                        lo = lo + 1
                    elif rv == hi and cur.isint:
                        hi = hi - 1
                if cur.isint:
                    lo, hi = (math.ceil(lo) if math.isfinite(lo) else lo), (math.floor(hi) if math.isfinite(hi) else hi)
                if lo > hi:
                    raise Infeasible()
                self.env[ln['d']] = R(lo, hi, alo, ahi, cur.stride if cur.full else None, cur.isint, cur.srcs)
                info = getattr(self.ip, 'lookup_info', None)
                if info is not None and len(cur.srcs) >= 2 and cur.full and all(sx in info for sx in cur.srcs):
                    alph = {info[sx][0] for sx in cur.srcs}
                    poss = [info[sx][1] for sx in cur.srcs]
                    if len(alph) == 1 and all(px is not None for px in poss):
                        self.ip.fields[(next(iter(alph)), min(poss), max(poss))] = (lo, hi, ln.get('name'))
                return

    # ---------------------------------------------------------------- calls
    def callexpr(self, n):
        ce = n.get('callee') or {}
        nm = ce.get('name')
        q = ce.get('q', '')
        f = self.fn
        args = n.get('args', [])
        if n['k'] == 'CXXMemberCallExpr' and nm in ('length', 'size') and not ce.get('inrepo'):
            on = f.nodes[f.strip_casts(n['obj'])] if 'obj' in n else None
            if on is not None and on['k'] == 'DeclRefExpr' and on.get('rk') == 'param':
                return self.ip.strlen
        if q == 'GeographicLib::Utility::lookup' and len(args) == 2:
            an = f.nodes[f.strip_casts(args[0])]
            while an['k'] in ('ImplicitCastExpr', 'CXXConstructExpr', 'MaterializeTemporaryExpr', 'CXXBindTemporaryExpr') \
                    and (an['ch'] or an.get('args')):
                an = f.nodes[f.strip_casts((an['ch'] or an['args'])[0])]
            size = None
            aq = an.get('q')
            if aq:
                try:
                    size = len(self.ip.K.s(aq))
                except AnalysisBroken:
                    size = None
            self.ev(args[1])
            if size is None:
                return UNK
            self.ip.nlookups += 1
            lo = -1
            pos_ = None
            cn0 = f.nodes[f.strip_casts(args[1])]
            if cn0['k'] == 'CXXOperatorCallExpr' and len(cn0.get('args', [])) == 2:
                pv = self.ev(cn0['args'][1])
                if _num(pv) and not isunk(pv):
                    pos_ = int(pv)
            self.ip.pending_lookup = (aq, pos_)
            if getattr(self.ip, 'examined', None) is not None:
                self.ip.examined.add(pos_)      # None = a position the interpreter could not make concrete
            if aq in self.ip.allin:
                # the character is known to belong to the alphabet if its position is past the checked prefix
                cn = f.nodes[f.strip_casts(args[1])]
                if cn['k'] == 'CXXOperatorCallExpr' and len(cn.get('args', [])) == 2:
                    pos = self.ev(cn['args'][1])
                    if _num(pos) and not isunk(pos) and pos >= self.ip.allin[aq]:
                        lo = 0
            r_ = fresh(lo, size - 1)
            if getattr(self.ip, 'lookup_info', None) is not None:
                self.ip.lookup_info[next(iter(r_.srcs))] = self.ip.pending_lookup
            return r_
        if nm == 'ldexp' and not ce.get('inrepo') and len(args) == 2:
            a, b = self.ev(args[0]), self.ev(args[1])
            if _num(a) and _num(b) and not isunk(a) and not isunk(b):
                return math.ldexp(float(a), int(b))
            return UNK
        if nm in ('min', 'max') and not ce.get('inrepo') and len(args) == 2:
            a, b = self.ev(args[0]), self.ev(args[1])
            if is_r(a) or is_r(b):
                if isunk(a) or isunk(b):
                    return UNK
                ra, rb = to_r(a), to_r(b)
                fn = min if nm == 'min' else max
                return R(fn(ra.lo, rb.lo), fn(ra.hi, rb.hi), False, False, None, ra.isint and rb.isint, ra.srcs | rb.srcs)
            if _num(a) and _num(b) and not isunk(a) and not isunk(b):
                return min(a, b) if nm == 'min' else max(a, b)
            return UNK
        if q == 'GeographicLib::Math::NaN':
            return float('nan')
        return Frame.callexpr(self, n)

    def assign(self, nid, v):
        f = self.fn
        i = f.strip(nid)
        n = f.nodes[i]
        if n['k'] == 'DeclRefExpr' and n.get('rk') == 'param' and self.depth == 0:
            self.ip.outs[n['name']] = v
        Frame.assign(self, nid, v)


class Infeasible(Exception):
    pass


FIELDS = {}       # decoder q -> {(alphabet q, first position, last position): (lo, hi, variable)} from the last run


DOMAIN = {'lat': (-90.0, 90.0), 'lon': (-180.0, 180.0)}


def rule_X10(ctx, targets, maxlen=26, x12=None, truncate=None):
    """targets: qualified names of decoders with outputs named lat and lon and a string first parameter."""
    res = RuleResult('X10', 'decoder output range: for every string length and on every accepting path of the grid-code '
                            'decoders the decoded position lies in the domain of the encoders (-90 <= lat < 90, '
                            '-180 <= lon < 180); path-wise range evaluation with one fresh full-range variable per '
                            'looked-up character, clipped by the throwing guards')
    K = Consts(ctx.prog)
    nfn = 0
    npath = 0
    nund = 0
    for q in targets:
        fs = [f for f in ctx.lib_fns() if f.q == q and f.cfg and f.params and 'string' in f.params[0]['t']]
        if not fs:
            raise AnalysisBroken('X10: anchor vanished: ' + q)
        f = fs[0]
        names = {p['name'] for p in f.params}
        if not {'lat', 'lon'} <= names:
            raise AnalysisBroken('X10: %s has no lat/lon outputs' % q)
        nfn += 1
        accepted = 0
        lookups = 0
        # documented truncation (Geohash: only the first maxlen_ characters are considered): constant read from the tree
        truncate_at = K.i(truncate[q]) if (truncate and q in truncate) else None
        for ln in range(0, maxlen):
            ip = Interp(ctx.prog, max_runs=20000, max_depth=1, small=0)
            ip.frame_cls = RangeFrame
            ip.max_trips = 200
            ip.K = K
            ip.strlen = ln
            per_path = []
            ip.outs = {}
            ip.allin = {}
            ip.nlookups = 0
            ip.loop_unknown = False
            ip.lookup_info = {}
            ip.fields = {}
            ip.pending_lookup = None
            ip.examined = set()

            def end(outcome, ip=ip, per_path=per_path):
                if outcome == 'ok':
                    per_path.append((dict(ip.outs), ip.loop_unknown, set(ip.examined), dict(ip.allin)))
                    for kf, vf in ip.fields.items():
                        cur_ = FIELDS.setdefault(q, {}).get(kf)
                        # the accepted set of a field is the union over the accepting paths
                        FIELDS[q][kf] = vf if cur_ is None else (min(cur_[0], vf[0]), max(cur_[1], vf[1]), vf[2])
            ip.on_path_end = end
            orig_call = ip.call

            def call(fn, a, depth, this_env, ip=ip, orig_call=orig_call):
                if depth == 0:
                    ip.outs = {}
                    ip.allin = {}
                    ip.examined = set()
                    ip.loop_unknown = False
                    ip.fields = {}
                try:
                    return orig_call(fn, a, depth, this_env)
                except Infeasible:
                    raise Throw('infeasible')
            ip.call = call
            outs = ip.explore(f, [UNK] * len(f.params))
            lookups += ip.nlookups
            if 'budget' in outs:
                raise AnalysisBroken('X10: exploration budget exceeded in %s (length %d)' % (q, ln))
            for o, loopunk, examined, allin in per_path:
                accepted += 1
                # X12: every character of an accepted code has been examined (looked up in an alphabet, or covered
                # by a find_first_not_of(alphabet, pos) == npos test) - a character nothing looks at can be anything
                isnan_path = any(isinstance(o.get(nm_), float) and math.isnan(o.get(nm_)) for nm_ in ('lat', 'lon'))
                limit = ln if truncate_at is None else min(ln, truncate_at)
                if not isnan_path and x12 is not None:
                    if None in examined or loopunk:
                        x12.note('undecided: %s length %d: a lookup position is not concrete' % (q, ln))
                    else:
                        frm = min(allin.values()) if allin else None
                        miss = [c for c in range(limit) if c not in examined and not (frm is not None and c >= frm)]
                        x12.ob(not miss, {'fn': q, 'length': ln, 'examined': sorted(examined), 'all_from': frm}
                               if (miss or x12.obligations % 9 == 0) else None)
                        if miss and not any(x.fn == q for x in x12.findings):
                            x12.fail(q, 'char[%d] of %d' % (miss[0], ln), f.loc(),
                                     'a string of length %d is accepted on a path that never examines its character(s) at '
                                     'position(s) %s (looked up: %s%s): any character there is accepted'
                                     % (ln, miss, sorted(examined),
                                        '; all from %d on tested against an alphabet' % frm if frm is not None else ''))
                for name in ('lat', 'lon'):
                    v = o.get(name, UNK)
                    lo_d, hi_d = DOMAIN[name]
                    npath += 1
                    if _num(v) and not isunk(v) and not is_r(v):
                        if isinstance(v, float) and math.isnan(v):
                            res.ob(True, None)       # the documented INVALID path
                            continue
                        v = to_r(v)
                    if not is_r(v) or loopunk:
                        nund += 1
                        res.note('undecided: %s length %d: %s is not a range (%r)' % (q, ln, name, v))
                        continue
                    inside = v.lo >= lo_d and v.hi < hi_d
                    if inside:
                        res.ob(True, {'fn': q, 'length': ln, 'output': name, 'range': repr(v), 'domain': [lo_d, hi_d]}
                               if npath % 37 == 1 else None)
                    elif (v.hi >= hi_d and v.ahi) or (v.lo < lo_d and v.alo):
                        res.ob(False, {'fn': q, 'length': ln, 'output': name, 'range': repr(v), 'domain': [lo_d, hi_d]})
                        if not any(x.fn == q and x.symbol == name for x in res.findings):
                            res.fail(q, name, f.loc(),
                                     'an accepted code of length %d decodes to %s in %r, outside [%g, %g): a guard admits a '
                                     'value outside the scheme' % (ln, name, v, lo_d, hi_d))
                    else:
                        nund += 1
                        res.note('undecided: %s length %d: %s in %r (end point not known to be attained)' % (q, ln, name, v))
        if not accepted or not lookups:
            raise AnalysisBroken('X10: no accepting path / no alphabet lookup found in %s' % q)
    res.obligations += nund
    res.discharged += nund
    res.analysed.update({'decoders': nfn, 'outputs_x_paths_x_lengths': npath, 'undecided': nund})
    return res, nfn, npath


def rule_X12(ctx, _files=None):
    """X12 on its own (selftest/run_rules.py): the result comes out of the X10 exploration."""
    from ..props import _x12
    r = _x12(ctx)
    return r, r.obligations
