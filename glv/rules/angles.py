"""ANG1: degrees and radians are not mixed.

A unit type system over every library function body.  Units: D (degrees), R (radians), N (not known to be an
angle), X (known to be both on different paths: no opinion).  Sources of units are the library's own conventions:

  D   results of atan2d, atand, AngNormalize, AngDiff, AngRound, LatFix;  Math::qd, hd, td;  x / degree()
  R   results of atan2, atan, asin, acos;  Math::pi();  x * degree()
  arguments of sincosd, sincosde, sind, cosd, tand, AngNormalize, AngDiff, AngRound, LatFix must not be R
  arguments of sin, cos, tan, sincos must not be D

Sums, differences and comparisons need compatible units (D with R is the violation; N goes with anything); a
product with a dimensionless factor keeps the unit; `x * degree()` turns D (or N) into R and is a violation on R;
`x / degree()` turns R (or N) into D and is a violation on D.  Variables take the unit of what is assigned to
them, in statement order; a variable assigned different units on the two arms of a branch becomes X.
"""
from ..core import RuleResult
from ..flow import ASSIGN_OPS

NS = 'GeographicLib::'
D, R, N, X = 'deg', 'rad', 'none', 'mixed'
DEGFACTOR = 'degree()'      # the conversion factor itself, when it is kept in a variable
DEG_RESULT = {'atan2d', 'atand', 'AngNormalize', 'AngDiff', 'AngRound', 'LatFix'}
RAD_RESULT = {'atan2', 'atan', 'asin', 'acos'}
DEG_ARG = {'sincosd': (0,), 'sincosde': (0, 1), 'sind': (0,), 'cosd': (0,), 'tand': (0,), 'AngNormalize': (0,),
           'AngDiff': (0, 1), 'AngRound': (0,), 'LatFix': (0,)}
RAD_ARG = {'sin': (0,), 'cos': (0,), 'tan': (0,)}
DEG_CONST = {'qd', 'hd', 'td', 'dm', 'ms', 'dms'}
TR = ('ParenExpr', 'ImplicitCastExpr', 'ExprWithCleanups', 'MaterializeTemporaryExpr', 'CXXFunctionalCastExpr',
      'CStyleCastExpr', 'CXXStaticCastExpr', 'ConstantExpr', 'CXXBindTemporaryExpr')


def join(a, b):
    if a == b:
        return a
    if 'degree()' in (a, b):
        return 'none' if {a, b} <= {'degree()', 'none'} else 'mixed'
    if a == N:
        return b
    if b == N:
        return a
    return X


import re as _re

# the public interface is in degrees throughout: parameters with these names carry degrees on entry
DEG_PARAM = _re.compile(r'^(lat|lon|azi|gamma)[0-9a-z]*$')


RETURN_UNIT = {}


class Units:
    def __init__(self, fn, report, prog=None, depth=0):
        self.fn = fn
        self.env = {}
        self.report = report
        self.prog = prog
        self.depth = depth
        self.checked = 0
        for p in fn.params:
            if p['pk'] in ('v', 'cr') and DEG_PARAM.match(p['name']) and \
                    p.get('t', '').replace('const ', '').replace('&', '').strip() in ('double', 'float', 'long double'):
                self.env[p['d']] = D

    def is_degree_call(self, i):
        n = self.fn.nodes[self.fn.strip_casts(i)]
        ce = n.get('callee') or {}
        if ce.get('name') == 'degree' and (ce.get('q') or '').startswith(NS + 'Math::'):
            return True
        # a variable (or member) that holds Math::degree(): `const real deg = Math::degree();`
        if n['k'] == 'DeclRefExpr' and n.get('rk') in ('param', 'local'):
            return self.env.get(n['d']) == DEGFACTOR
        if n['k'] == 'MemberExpr' and n.get('thisbase'):
            return self.env.get('this.' + n['m']) == DEGFACTOR
        return False

    def is_scale(self, i):
        """a literal, variable or member (possibly signed / a product of such): a plain scale factor."""
        f = self.fn
        n = f.nodes[f.strip_casts(i)]
        if 'cv' in n or n['k'] in ('IntegerLiteral', 'FloatingLiteral', 'DeclRefExpr', 'MemberExpr'):
            return True
        if n['k'] == 'UnaryOperator' and n.get('op') in ('-', '+'):
            return self.is_scale(n['ch'][0])
        if n['k'] == 'BinaryOperator' and n.get('op') in ('*', '/'):
            return self.is_scale(n['ch'][0]) and self.is_scale(n['ch'][1])
        if n['k'] == 'ConditionalOperator':
            return self.is_scale(n['then']) and self.is_scale(n['else'])
        return False

    def ev(self, i):
        f = self.fn
        if i is None or i < 0:
            return N
        n = f.nodes[i]
        k = n['k']
        if k in TR and n.get('ch'):
            return self.ev(n['ch'][0])
        if k == 'DeclRefExpr':
            if n.get('rk') in ('param', 'local'):
                return self.env.get(n['d'], N)
            if n.get('name') in ('qd', 'hd', 'td') and 'Math' in (n.get('q') or ''):
                return D
            return N
        if k == 'MemberExpr':
            if n.get('m') in ('qd', 'hd', 'td') and 'Math' in (n.get('q') or n.get('md') or ''):
                return D
            if n.get('thisbase'):
                return self.env.get('this.' + n['m'], N)
            return N
        if k == 'UnaryOperator':
            u = self.ev(n['ch'][0])
            return u if n.get('op') in ('-', '+', '++', '--') else N
        if k in ('BinaryOperator', 'CompoundAssignOperator'):
            op = n['op']
            if op in ASSIGN_OPS:
                rhs = self.ev(n['ch'][1])
                if op == '=':
                    v = rhs
                else:
                    cur = self.ev(n['ch'][0])
                    v = self.combine(op[:-1], cur, rhs, n['ch'][0], n['ch'][1], i)
                self.store(n['ch'][0], v)
                return v
            if op in ('&&', '||', ','):
                self.ev(n['ch'][0])
                b = self.ev(n['ch'][1])
                return b if op == ',' else N
            a, b = self.ev(n['ch'][0]), self.ev(n['ch'][1])
            return self.combine(op, a, b, n['ch'][0], n['ch'][1], i)
        if k == 'ConditionalOperator':
            self.ev(n['cond'])
            return join(self.ev(n['then']), self.ev(n['else']))
        if k in ('CallExpr', 'CXXMemberCallExpr', 'CXXOperatorCallExpr'):
            return self.call(i, n)
        if k in ('CXXConstructExpr', 'CXXTemporaryObjectExpr'):
            for a in n.get('args', []):
                self.ev(a)
            return N
        for c in n.get('ch', []):
            if isinstance(c, int) and c >= 0 and f.nodes[c]['k'] not in ('CompoundStmt',):
                pass
        return N

    def combine(self, op, a, b, ia, ib, at):
        f = self.fn
        if a == DEGFACTOR and not self.is_degree_call(ia):
            a = N
        if b == DEGFACTOR and not self.is_degree_call(ib):
            b = N
        if op == '*':
            if self.is_degree_call(ib) or self.is_degree_call(ia):
                other = a if self.is_degree_call(ib) else b
                if other in (D, R):
                    self.checked += 1
                if other == R:
                    self.report(at, 'a value in radians is multiplied by Math::degree() (degrees -> radians) once more')
                return R if other != X else X
            # a scale factor (constant, variable, member) keeps the unit; a factor computed by a call does not
            if DEGFACTOR in (a, b):
                return N
            if a == N:
                return b if self.is_scale(ia) else N
            if b == N:
                return a if self.is_scale(ib) else N
            return N
        if op == '/':
            if self.is_degree_call(ib):
                if a in (D, R):
                    self.checked += 1
                if a == D:
                    self.report(at, 'a value in degrees is divided by Math::degree() (radians -> degrees)')
                return D if a != X else X
            return a if (b == N and self.is_scale(ib)) else N
        if op in ('+', '-', '<', '<=', '>', '>=', '==', '!='):
            if a in (D, R) and b in (D, R):
                self.checked += 1
            if {a, b} == {D, R}:
                self.report(at, 'degrees and radians are %s' % ('compared' if op in ('<', '<=', '>', '>=', '==', '!=') else
                                                              ('added' if op == '+' else 'subtracted')))
                return X
            return N if op in ('<', '<=', '>', '>=', '==', '!=') else join(a, b)
        return N

    def store(self, i, v):
        f = self.fn
        n = f.nodes[f.strip(i)]
        if n['k'] == 'DeclRefExpr' and n.get('rk') in ('param', 'local'):
            self.env[n['d']] = v
        elif n['k'] == 'MemberExpr' and n.get('thisbase'):
            self.env['this.' + n['m']] = v

    def call(self, i, n):
        f = self.fn
        ce = n.get('callee') or {}
        nm = ce.get('name', '')
        off = 1 if (n.get('ckind') == 'operator' and ce.get('method')) else 0
        args = n.get('args', [])[off:]
        us = [self.ev(a) for a in args]
        inmath = (ce.get('q') or '').startswith(NS + 'Math::')
        if nm in DEG_ARG and (inmath or nm in ('sincosd', 'sind', 'cosd', 'tand')):
            for j in DEG_ARG[nm]:
                if j < len(us) and us[j] in (D, R):
                    self.checked += 1
                if j < len(us) and us[j] == R:
                    self.report(i, 'a value in radians is passed to %s, which takes degrees' % nm)
        if nm in RAD_ARG and not ce.get('inrepo'):
            for j in RAD_ARG[nm]:
                if j < len(us) and us[j] in (D, R):
                    self.checked += 1
                if j < len(us) and us[j] == D:
                    self.report(i, 'a value in degrees is passed to %s, which takes radians' % nm)
        # by-reference results
        pk = ce.get('pk', [])
        if nm == 'AngDiff' and len(args) == 3:
            self.store(args[2], D)
        if nm in DEG_RESULT and (inmath or nm in ('atan2d', 'atand')):
            return D
        if nm in RAD_RESULT and not ce.get('inrepo'):
            return R
        if nm == 'pi' and inmath:
            return R
        if nm == 'degree' and inmath and not args:
            return DEGFACTOR
        if ce.get('inrepo') and self.prog is not None and self.depth < 1:
            callee = self.prog.fns.get(ce.get('usr'))
            if callee is not None and callee.d.get('body', -1) >= 0:
                key = (callee.file, callee.line, callee.name)
                if key not in RETURN_UNIT:
                    RETURN_UNIT[key] = N            # recursion guard
                    sub = Units(callee, lambda at, msg: None, self.prog, self.depth + 1)
                    sub.ex(callee.d['body'])
                    ru = None
                    for j, m in callee.all_nodes():
                        if m['k'] == 'ReturnStmt' and m.get('val', -1) >= 0:
                            u1 = sub.ev(m['val'])
                            ru = u1 if ru is None else join(ru, u1)
                    RETURN_UNIT[key] = ru or N
                if RETURN_UNIT[key] in (D, R):
                    return RETURN_UNIT[key]
        if nm in ('fabs', 'abs', 'fmax', 'fmin', 'max', 'min', 'copysign', 'remainder', 'fmod', 'floor', 'ceil', 'round') and us:
            u = us[0]
            if nm in ('fmax', 'fmin', 'max', 'min', 'remainder', 'fmod') and len(us) > 1:
                if {us[0], us[1]} == {D, R}:
                    self.report(i, 'degrees and radians are combined by %s' % nm)
                u = join(us[0], us[1])
            return u
        return N

    # statements in order; both arms of a branch, then join
    def ex(self, i):
        f = self.fn
        if i is None or i < 0:
            return
        n = f.nodes[i]
        k = n['k']
        if k == 'CompoundStmt':
            for c in n['ch']:
                self.ex(c)
        elif k == 'DeclStmt':
            for d in n['decls']:
                if d.get('init', -1) >= 0:
                    self.env[d['d']] = self.ev(d['init'])
        elif k == 'IfStmt':
            self.ev(n['cond'])
            before = dict(self.env)
            self.ex(n.get('then', -1))
            a = self.env
            self.env = dict(before)
            self.ex(n.get('else', -1))
            b = self.env
            self.env = {key: join(a.get(key, N), b.get(key, N)) for key in set(a) | set(b)}
        elif k in ('ForStmt', 'WhileStmt', 'DoStmt'):
            if n.get('init', -1) >= 0:
                self.ex(n['init'])
            if n.get('cond', -1) >= 0:
                self.ev(n['cond'])
            self.ex(n.get('body', -1))
            if n.get('inc', -1) >= 0:
                self.ev(n['inc'])
        elif k == 'ReturnStmt':
            if n.get('val', -1) >= 0:
                self.ev(n['val'])
        elif k in ('SwitchStmt', 'CXXTryStmt', 'CaseStmt', 'DefaultStmt', 'CXXCatchStmt', 'CXXForRangeStmt'):
            for c in n.get('ch', []):
                self.ex(c)
        elif k in ('NullStmt', 'BreakStmt', 'ContinueStmt'):
            pass
        else:
            self.ev(i)


def rule_ANG1(ctx, files=None):
    res = RuleResult('ANG1', 'degrees and radians are not mixed: no value in radians reaches a degree-argument function '
                             '(sincosd, AngNormalize, ...) or is multiplied by Math::degree() again, no value in degrees reaches '
                             'sin/cos/tan or is divided by Math::degree(), and degrees are never added to, subtracted from or '
                             'compared with radians (unit inference over every function body)')
    nfn = 0
    nconv = 0
    nchk = 0
    seen = set()
    RETURN_UNIT.clear()
    for f in sorted(ctx.lib_fns(), key=lambda x: (x.file, x.line)):
        if f.d.get('body', -1) < 0 or (files and not any(f.file.endswith(x) for x in files)):
            continue
        if (f.file, f.line, f.name) in seen:
            continue            # other instantiations of a template
        seen.add((f.file, f.line, f.name))
        nfn += 1
        found = []
        u = Units(f, lambda at, msg, found=found: found.append((at, msg)), ctx.prog)
        for it in f.d.get('inits', []):
            if it.get('kind') == 'member' and it.get('init', -1) >= 0:
                u.env['this.' + it['m']] = u.ev(it['init'])
        u.ex(f.d['body'])
        nconv += sum(1 for i, n in f.all_nodes() if (n.get('callee') or {}).get('name') == 'degree')
        nchk += u.checked
        res.ob(not found, None)
        for at, msg in found[:3]:
            res.fail(f.q, 'units', f.loc(at), '%s: %s' % (f.q, msg))
    res.analysed.update({'functions': nfn, 'degree_conversions_seen': nconv, 'sites_with_known_units_checked': nchk})
    return res, nfn, nchk


# ---------------------------------------------------------------------------------------------- AUX1
AUX_KIND = {0: 'phi', 1: 'beta', 2: 'theta', 3: 'mu', 4: 'chi', 5: 'xi'}
_KIND_RE = _re.compile(r'^_?(phi|beta|theta|mu|chi|xi)(?![a-z])')


def _kind_of_name(name):
    m = _KIND_RE.match(name or '')
    return m.group(1) if m else None


def rule_AUX1(ctx, files=None):
    res = RuleResult('AUX1', 'auxiliary-latitude kinds agree with the variables: in every call of AuxLatitude::Convert / '
                             'DAuxLatitude::DConvert whose angle argument is a variable named after a latitude kind (phi, beta, '
                             'theta, mu, chi, xi) that kind is the one the auxin enumerator names, and a variable named after a '
                             'kind that receives the result is of the auxout kind')
    nsite = 0
    seen = set()
    for f in sorted(ctx.lib_fns(), key=lambda x: (x.file, x.line)):
        if f.d.get('body', -1) < 0 or (files and not any(f.file.endswith(x) for x in files)) or (f.file, f.line, f.name) in seen:
            continue
        seen.add((f.file, f.line, f.name))
        # variable (or member) initialised / assigned from a node
        target = {}
        for i, n in f.all_nodes():
            if n['k'] == 'DeclStmt':
                for d in n['decls']:
                    if d.get('init', -1) >= 0:
                        for j in f.walk(d['init']):
                            target.setdefault(j, d['name'])
            elif n['k'] in ('BinaryOperator', 'CXXOperatorCallExpr') and (n.get('op') == '=' or (n.get('callee') or {}).get('name') == 'operator='):
                ch = n.get('args') or n.get('ch')
                if len(ch) >= 2:
                    ln = f.nodes[f.strip_casts(ch[0])]
                    nm = ln.get('name') if ln['k'] == 'DeclRefExpr' else (ln.get('m') if ln['k'] == 'MemberExpr' else None)
                    if nm:
                        for j in f.walk(ch[1]):
                            target.setdefault(j, nm)
        for it in f.d.get('inits', []):
            if it.get('kind') == 'member' and it.get('init', -1) >= 0:
                for j in f.walk(it['init']):
                    target.setdefault(j, it['m'])
        for i, n in f.all_nodes():
            ce = n.get('callee') or {}
            if ce.get('name') not in ('Convert', 'DConvert') or 'AuxLatitude' not in (ce.get('q') or ''):
                continue
            args = n.get('args', [])
            if len(args) < 3:
                continue
            kin, kout = [f.nodes[f.strip_casts(a)].get('cv') for a in args[:2]]
            if kin is None or kout is None:
                continue                      # forwarded enumerators (the generic wrappers)
            kin, kout = AUX_KIND.get(int(kin)), AUX_KIND.get(int(kout))
            nang = 2 if ce['name'] == 'DConvert' else 1
            for a in args[2:2 + nang]:
                an = f.nodes[f.strip_casts(a)]
                while an['k'] in ('CXXConstructExpr', 'MaterializeTemporaryExpr', 'CXXBindTemporaryExpr') and (an.get('args') or an.get('ch')):
                    an = f.nodes[f.strip_casts((an.get('args') or an['ch'])[0])]
                nm = an.get('name') if an['k'] == 'DeclRefExpr' else (an.get('m') if an['k'] == 'MemberExpr' else None)
                kv = _kind_of_name(nm)
                if kv is None:
                    continue
                nsite += 1
                ok = kv == kin
                res.ob(ok, None)
                if not ok:
                    res.fail(f.q, '%s as %s' % (nm, kin), f.loc(i), '%s is converted from the %s latitude but is given %s'
                             % (f.loc(i), kin, nm))
            if ce['name'] == 'Convert':
                tv = _kind_of_name(target.get(i))
                if tv is not None:
                    nsite += 1
                    ok = tv == kout
                    res.ob(ok, None)
                    if not ok:
                        res.fail(f.q, '%s from %s' % (target.get(i), kout), f.loc(i),
                                 'the %s latitude computed at %s is stored in %s' % (kout, f.loc(i), target.get(i)))
    res.analysed['named_conversion_sites'] = nsite
    return res, nsite
