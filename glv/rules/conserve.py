"""CONS: value conservation of the error-free transformations, decided over the reals (glv/sympoly.py).

  Math::sum(u, v, t)          returns s with  s + t == u + v                       on every path
  Math::AngNormalize(x)       returns y with  y == x            (mod 360)
  Math::AngDiff(x, y, e)      returns d with  d + e == y - x    (mod 360)
  Accumulator::Add(y)         leaves          _s' + _t' == _s + _t + y
  Accumulator::operator*=(y)  leaves          _s' + _t' == y * (_s + _t)   (plain products are read as rounded,
                                                                           fma as exact)
  Accumulator::operator+=, -= (through Add)   _s' + _t' == _s + _t +- y
  Accumulator::operator*=(int n)              _s' + _t' == n * (_s + _t)

In the callers Math::sum is replaced by its contract (a fresh symbol r for the rounded sum and t = u + v - r), so
that the identities depend on how the error terms are threaded through, not on the fact that the error is zero
over the reals.  These are necessary conditions of "the error term is exact" / "the accumulator holds the sum": a
kernel that loses or double-counts a term over the reals cannot be right in floating point.
"""
from fractions import Fraction

from ..core import RuleResult
from ..build import AnalysisBroken
from ..sympoly import SymEval, Poly, Unsupported, entails_zero

NS = 'GeographicLib::'


def _sum_summary(ev, fr, n, args):
    u = ev.ev(fr, args[0])
    v = ev.ev(fr, args[1])
    r = Poly.sym(ev.newsym('rounded'))
    ev.env[ev.lvalue(fr, args[2])] = u + v - r
    return r


def _fn(ctx, q, ptypes=None, nparams=None):
    c = [f for f in ctx.prog.fns.values() if f.q == q and f.d.get('body', -1) >= 0 and
         (nparams is None or len(f.params) == nparams) and
         (ptypes is None or [p['t'].replace('const ', '') for p in f.params][:len(ptypes)] == ptypes)]
    if not c:
        raise AnalysisBroken('CONS: no body found for %s %s' % (q, ptypes or ''))
    return sorted(c, key=lambda f: (f.file, f.line))[0]


def rule_CONS(ctx):
    res = RuleResult('CONS', 'value conservation over the reals: the error-free sum satisfies s + t = u + v; AngNormalize and '
                             'AngDiff (with its error term) conserve the angle modulo 360; Accumulator::Add, +=, -=, *= '
                             'conserve _s + _t - on every path, with Math::sum replaced by its contract in the callers')
    real = ctx.prog.raw.get('real_type') or 'double'
    specs = []

    def P(name):
        return Poly.sym(name)
    # (function, use the sum contract, target builder(path) -> (Poly, modulus))
    fsum = _fn(ctx, NS + 'Math::sum', ['double', 'double'])
    specs.append((fsum, False, lambda p: (p.ret + p.env[('v', fsum.params[2]['d'])] - P('u') - P('v'), None), 's + t - (u + v)'))
    fnorm = _fn(ctx, NS + 'Math::AngNormalize', ['double'])
    specs.append((fnorm, True, lambda p: (p.ret - P('x'), 360), 'AngNormalize(x) - x  (mod 360)'))
    fdiff = _fn(ctx, NS + 'Math::AngDiff', ['double', 'double'], 3)
    specs.append((fdiff, True, lambda p: (p.ret + p.env[('v', fdiff.params[2]['d'])] - P('y') + P('x'), 360),
                  'd + e - (y - x)  (mod 360)'))
    st = lambda p: p.env.get(('this', '_s'), P('_s')) + p.env.get(('this', '_t'), P('_t'))
    fadd = _fn(ctx, NS + 'Accumulator::Add')
    specs.append((fadd, True, lambda p: (st(p) - P('_s') - P('_t') - P('y'), None), "_s' + _t' - (_s + _t + y)"))
    for f in sorted((f for f in ctx.prog.fns.values() if f.cls == NS + 'Accumulator' and f.d.get('body', -1) >= 0 and
                     f.name in ('operator+=', 'operator-=', 'operator*=')), key=lambda f: (f.name, f.line)):
        if not f.params:
            continue
        pn = f.params[0]['name']
        if f.name == 'operator+=':
            specs.append((f, True, lambda p, pn=pn: (st(p) - P('_s') - P('_t') - P(pn), None), "_s' + _t' - (_s + _t + %s)" % pn))
        elif f.name == 'operator-=':
            specs.append((f, True, lambda p, pn=pn: (st(p) - P('_s') - P('_t') + P(pn), None), "_s' + _t' - (_s + _t - %s)" % pn))
        else:
            specs.append((f, True, lambda p, pn=pn: (st(p) - P(pn) * (P('_s') + P('_t')), None),
                          "_s' + _t' - %s * (_s + _t)" % pn))
    npaths = 0
    for f, contract, target, text in specs:
        ev = SymEval(ctx.prog, summaries={NS + 'Math::sum': _sum_summary} if contract else {}, max_depth=3)
        # operator*=(T): the first product is rounded and fma recovers its error exactly
        ev.round_products = f.name == 'operator*=' and 'int' not in f.params[0].get('t', '')
        try:
            paths = ev.explore(f)
        except Unsupported as e:
            raise AnalysisBroken('CONS: %s not evaluated: %s' % (f.q, e))
        ret = [p for p in paths if p.outcome == 'return']
        if not ret:
            raise AnalysisBroken('CONS: no returning path in %s' % f.q)
        bad = None
        for p in ret:
            npaths += 1
            try:
                tgt, mod = target(p)
            except (KeyError, TypeError) as e:
                raise AnalysisBroken('CONS: outputs of %s not found (%s)' % (f.q, e))
            ok, rest = entails_zero(tgt, list(p.eqs), p.periods, mod)
            if not ok and bad is None:
                bad = (rest, p)
        res.ob(bad is None, {'fn': f.q, 'identity': text + ' == 0', 'paths': len(ret), 'at': f.loc()})
        if bad:
            res.fail(f.q, text, f.loc(),
                     'over the reals %s: on a path assuming %s the quantity %s is %s, not 0%s'
                     % (f.q, [e.show() + ' = 0' for e in bad[1].eqs][:3] or 'nothing', text, bad[0].show()[:200],
                        ' modulo 360' if '360' in text else ''))
    res.analysed.update({'kernels': len(specs), 'paths': npaths})
    return res, len(specs), npaths
