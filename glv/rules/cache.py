"""R-CACHE: history independence of Geoid (C20): K1-K6, and T5 (cubic tables are exact projectors)."""
from ..build import AnalysisBroken
from ..core import RuleResult
from ..flow import ASSIGN_OPS
from .tab import Consts

NS = 'GeographicLib::'
GEOID = NS + 'Geoid'


def _height(ctx):
    fs = [f for f in ctx.prog.fn(GEOID + '::height') if f.cfg]
    if len(fs) != 1:
        raise AnalysisBroken('anchor vanished: Geoid::height')
    return fs[0]


def _member_stores(f):
    """(node, member name, rhs node or None) for every store to a member of this in f."""
    out = []
    for i, n in f.all_nodes():
        if n['k'] in ('BinaryOperator', 'CompoundAssignOperator') and n.get('op') in ASSIGN_OPS:
            ln = f.nodes[f.strip(n['ch'][0])]
            base = ln
            while base['k'] == 'ArraySubscriptExpr':
                base = f.nodes[f.strip(base['ch'][0])]
            if base['k'] == 'MemberExpr' and base.get('thisbase') and base.get('mk') == 'field':
                out.append((i, base['m'], n['ch'][1]))
        elif n.get('callee') and n['callee'].get('name') in ('copy', 'memcpy', 'copy_n', 'fill') and n.get('args'):
            # std::copy(first, last, dest): dest may be a member array
            dst = n['args'][-1] if n['callee']['name'] != 'memcpy' else n['args'][0]
            dn = f.nodes[f.strip_casts(dst)]
            while dn['k'] in ('ImplicitCastExpr',) and dn['ch']:
                dn = f.nodes[dn['ch'][0]]
            if dn['k'] == 'MemberExpr' and dn.get('thisbase'):
                out.append((i, dn['m'], n['args'][0]))
    return out


def _member_reads(f, names):
    out = []
    for i, n in f.all_nodes():
        if n['k'] == 'MemberExpr' and n.get('thisbase') and n.get('m') in names:
            # a read unless it is the destination of a store
            p = f.parent[i]
            dest = False
            while p >= 0 and f.nodes[p]['k'] in ('ImplicitCastExpr', 'ParenExpr', 'ArraySubscriptExpr'):
                if f.nodes[p]['k'] == 'ImplicitCastExpr' and f.nodes[p].get('ck') == 'LValueToRValue':
                    break
                i2 = p
                p = f.parent[p]
                i = i2
            if p >= 0:
                pn = f.nodes[p]
                if pn['k'] in ('BinaryOperator', 'CompoundAssignOperator') and pn.get('op') in ASSIGN_OPS and \
                        pn['ch'][0] == i:
                    dest = True
                if pn.get('callee') and pn['callee'].get('name') in ('copy',) and pn.get('args') and pn['args'][-1] == i:
                    dest = True
            if not dest:
                out.append((i if f.nodes[i]['k'] == 'MemberExpr' else i, n['m']))
    return out


class Slicer:
    """flow-insensitive backward slice of local variables to their leaves."""

    def __init__(self, f):
        self.f = f
        self.defs = {}
        for i, n in f.all_nodes():
            if n['k'] == 'DeclStmt':
                for d in n['decls']:
                    if d.get('init', -1) >= 0:
                        self.defs.setdefault(d['d'], []).append(d['init'])
            elif n['k'] in ('BinaryOperator', 'CompoundAssignOperator') and n.get('op') in ASSIGN_OPS:
                ln = f.nodes[f.strip(n['ch'][0])]
                base = ln
                while base['k'] == 'ArraySubscriptExpr':
                    base = f.nodes[f.strip(base['ch'][0])]
                if base['k'] == 'DeclRefExpr' and base.get('rk') in ('local', 'param'):
                    self.defs.setdefault(base['d'], []).append(n['ch'][1])
                    if n['op'] != '=':
                        self.defs[base['d']].append(n['ch'][0])
            elif n.get('callee') and n.get('args'):
                ce = n['callee']
                pk = ce.get('pk', [])
                if ce.get('name') == 'copy' and len(n['args']) == 3:
                    dn = f.nodes[f.strip_casts(n['args'][2])]
                    while dn['k'] == 'ImplicitCastExpr' and dn['ch']:
                        dn = f.nodes[dn['ch'][0]]
                    if dn['k'] == 'DeclRefExpr':
                        self.defs.setdefault(dn['d'], []).append(n['args'][0])

    def leaves(self, nid, seen=None):
        """set of leaf descriptions reachable from expression nid through float locals."""
        f = self.f
        seen = seen if seen is not None else set()
        out = set()
        for j in f.walk(nid):
            n = f.nodes[j]
            if n['k'] == 'DeclRefExpr':
                rk = n.get('rk')
                t = n.get('t', '').replace('const ', '')
                isfloat = t.startswith(('double', 'float', 'long double'))
                if rk == 'param':
                    out.add(('param', n['name'], isfloat))
                elif rk == 'local':
                    if not isfloat:
                        out.add(('intlocal', n['name'], False))
                        continue
                    if n['d'] in seen:
                        continue
                    seen.add(n['d'])
                    ds = self.defs.get(n['d'], [])
                    if not ds:
                        out.add(('undef', n['name'], True))
                    for d in ds:
                        out |= self.leaves(d, seen)
            elif n['k'] == 'MemberExpr' and n.get('thisbase') and n.get('mk') == 'field':
                out.add(('member', n['m'], False))
        return out


def rule_K(ctx):
    res = RuleResult('K1-K3', 'Geoid cell cache: the cached value is a function of the key only (no position-dependent '
                              'value is cached), the cached branch is guarded by a comparison of every key member, key '
                              'and values are updated together from the locals that produced the result, and only '
                              'height() and the constructor write them')
    f = _height(ctx)
    fl = ctx.flow(f)
    stores = _member_stores(f)
    if len(stores) < 4:
        raise AnalysisBroken('K: fewer than 4 cache stores found in Geoid::height')
    rec = ctx.prog.record(GEOID)
    ftype = {x['name']: x['t'] for x in rec['fields']}
    keys = sorted({m for _, m, _ in stores if not ftype.get(m, '').startswith(('double', 'float', 'long double'))})
    vals = sorted({m for _, m, _ in stores if ftype.get(m, '').startswith(('double', 'float', 'long double'))})
    res.analysed['key_members'] = keys
    res.analysed['value_members'] = vals
    if not keys or not vals:
        raise AnalysisBroken('K: could not split cache members into keys and values')
    sl = Slicer(f)
    # K1b: nothing derived from the floating position is cached
    for i, m, rhs in stores:
        if m not in vals:
            continue
        lv = sl.leaves(rhs)
        bad = sorted(x[1] for x in lv if x[0] == 'param' and x[2])
        res.ob(not bad, {'store': '%s at %s' % (m, f.loc(i)), 'slice_leaves': sorted('%s:%s' % (a, b) for a, b, c in lv)})
        if bad:
            res.fail(f.q, m, f.loc(i), 'the value cached in %s depends on the query position (%s), not only on the '
                     'cell: a later query in the same cell would get a value computed for a different point'
                     % (m, ', '.join(bad)))
    # K1a: every read of a cached value is guarded by equality on every key
    reads = _member_reads(f, set(vals))
    if not reads:
        raise AnalysisBroken('K: no read of a cached value in Geoid::height')
    # which local is each key compared / stored with
    keylocal = {}
    for i, m, rhs in stores:
        if m in keys:
            rn = f.nodes[f.strip_casts(rhs)]
            if rn['k'] == 'DeclRefExpr':
                keylocal[m] = rn['d']
    for i, m in reads:
        mf = fl.must_facts(i)
        if mf is None:
            continue
        missing = []
        for k in keys:
            loc = keylocal.get(k)
            ok = False
            for a, pol in mf:
                if pol and a.startswith('(') and '==' in a and ('this.' + k) in a and (loc is None or ('v:' + loc) in a):
                    ok = True
            if not ok:
                missing.append(k)
        ts = ('this._threadsafe', False) in mf
        good = not missing and ts
        res.ob(good, {'read': '%s at %s' % (m, f.loc(i)), 'keys_established': [k for k in keys if k not in missing],
                      'not_threadsafe_established': ts})
        if missing:
            res.fail(f.q, m + '/key', f.loc(i), 'cached value %s is used on a path that does not establish equality of '
                     'the key member(s) %s with the current cell: the cache can answer for a different cell'
                     % (m, ', '.join(missing)))
        if not ts:
            res.fail(f.q, m + '/threadsafe', f.loc(i), 'cached value %s is read on a path that does not establish '
                     '!_threadsafe: a thread-safe Geoid must never consult the cell cache' % m)
    # K2: key and values updated together (same block), from the locals the result was computed from
    blocks = {}
    for i, m, rhs in stores:
        loc = fl.locate(i)
        if loc is None:
            continue
        blocks.setdefault(loc[0], set()).add(m)
    cubic_vals = {m for m in vals if ftype[m].endswith(']')}
    lin_vals = set(vals) - cubic_vals
    nkey_blocks = 0
    for b, ms in blocks.items():
        if not (ms & set(keys)):
            if ms & set(vals):
                res.ob(False, {'block': b, 'stores': sorted(ms)})
                res.fail(f.q, 'update', '', 'cache values %s are stored without the key members' % sorted(ms))
            continue
        nkey_blocks += 1
        need = set(keys)
        mf = None
        for i, m, rhs in stores:
            if fl.locate(i) and fl.locate(i)[0] == b:
                mf = fl.must_facts(i)
                break
        cubic = mf is not None and ('this._cubic', True) in mf
        need |= cubic_vals if cubic else lin_vals
        ok = need <= ms
        res.ob(ok, {'update_block': b, 'cubic': cubic, 'stores': sorted(ms), 'needs': sorted(need)})
        if not ok:
            res.fail(f.q, 'update', '', 'cache update stores %s but not %s: key and values would get out of step'
                     % (sorted(ms), sorted(need - ms)))
    if nkey_blocks < 2:
        raise AnalysisBroken('K2: expected the bilinear and the cubic cache update, found %d' % nkey_blocks)
    # the stored value locals feed the returned height
    rets = [n['val'] for i, n in f.all_nodes() if n['k'] == 'ReturnStmt' and n.get('val', -1) >= 0]
    retleaves = set()
    sl2 = Slicer(f)
    retvars = set()
    for r in rets:
        for j in f.walk(r):
            n = f.nodes[j]
            if n['k'] == 'DeclRefExpr' and n.get('rk') == 'local':
                retvars.add(n['d'])
    # transitive locals feeding the return
    feeding = set()
    work = list(retvars)
    while work:
        d = work.pop()
        if d in feeding:
            continue
        feeding.add(d)
        for e in sl2.defs.get(d, []):
            for j in f.walk(e):
                n = f.nodes[j]
                if n['k'] == 'DeclRefExpr' and n.get('rk') == 'local':
                    work.append(n['d'])
    for i, m, rhs in stores:
        if m not in vals:
            continue
        src = [f.nodes[j] for j in f.walk(rhs) if f.nodes[j]['k'] == 'DeclRefExpr' and f.nodes[j].get('rk') == 'local']
        ok = bool(src) and all(s['d'] in feeding for s in src)
        res.ob(ok, {'store': m, 'from': [s['name'] for s in src], 'feeds_result': ok})
        if not ok:
            res.fail(f.q, m + '/source', f.loc(i), 'the value stored in %s is not the one the returned height was '
                     'computed from' % m)
    # K3: single writer
    S = ctx.summaries
    cache_members = set(keys) | set(vals)
    writers = set()
    for g in ctx.lib_fns():
        if g.cls != GEOID:
            continue
        for i, m, rhs in _member_stores(g):
            if m in cache_members:
                writers.add(g.q)
    allowed = {GEOID + '::height', GEOID + '::Geoid'}
    ok = writers <= allowed
    res.ob(ok, {'writers_of_cell_cache': sorted(writers)})
    if not ok:
        res.fail(GEOID, 'writers', '', 'cell-cache members are also written by %s' % sorted(writers - allowed))
    # K3b: the constructor leaves a key that no cell can have (a raster dimension or a negative constant)
    ctors = [g for g in ctx.lib_fns() if g.cls == GEOID and g.is_ctor and not g.d.get('implicit')]
    if not ctors:
        raise AnalysisBroken('K3b: Geoid constructor not found')
    for g in ctors:
        gfl = ctx.flow(g)
        last = {}
        for it in g.d.get('inits', []):
            if it.get('kind') == 'member' and it.get('m') in keys and it.get('written') and it['init'] >= 0:
                last[it['m']] = (it['init'], it['init'])
        for i, m, rhs in sorted(_member_stores(g), key=lambda x: (g.nodes[x[0]]['l'], g.nodes[x[0]]['c'])):
            if m in keys:
                last[m] = (i, rhs)
        for k in keys:
            if k not in last:
                res.ob(False, {'constructor': g.loc(), 'key': k, 'sentinel': None})
                res.fail(g.q, k + '/sentinel', g.loc(), 'the constructor does not initialise the cache key %s: the first '
                         'query compares against an indeterminate cell' % k)
                continue
            i, rhs = last[k]
            rn = g.nodes[g.strip_casts(rhs)]
            ok = False
            what = rn['k']
            if rn['k'] == 'MemberExpr' and rn.get('thisbase') and rn.get('m') not in cache_members:
                ok = True
                what = 'raster dimension ' + rn['m']
            elif 'cv' in rn:
                ok = int(rn['cv']) < 0
                what = 'constant %s' % rn['cv']
            res.ob(ok, {'constructor': g.loc(), 'key': k, 'sentinel': what})
            if not ok:
                res.fail(g.q, k + '/sentinel', g.loc(i), 'the constructor leaves cache key %s = %s, which is a valid cell '
                         'index: a fresh object would treat that cell as cached' % (k, what))
    res.assumptions.append('a raster dimension (_width, _height) is never a valid cell index (numeric fact)')
    return res


def rule_K5(ctx):
    res = RuleResult('K5', 'every use of the Geoid file stream outside the constructor is inside a try that converts '
                           'std::exception to GeographicErr (the stream has exceptions enabled)')
    prog = ctx.prog
    n = 0

    def in_converting_try(f, nid):
        for a in f.ancestors(nid):
            an = f.nodes[a]
            if an['k'] == 'CXXTryStmt' and any(j == nid for j in f.walk(an['try'])):
                for h in an['handlers']:
                    hn = f.nodes[h]
                    if 'exception' in hn.get('caught', '') or hn.get('catchall'):
                        if any(f.nodes[j]['k'] == 'CXXThrowExpr' for j in f.walk(h)):
                            return True
        return False
    uses = []
    for f in ctx.lib_fns():
        if f.cls != GEOID or f.is_ctor or f.is_dtor:
            continue
        for i, nd in f.all_nodes():
            hit = False
            if nd.get('callee'):
                for a in list(nd.get('args', [])) + ([nd['obj']] if 'obj' in nd else []):
                    an = f.nodes[f.strip_casts(a)]
                    if an['k'] == 'MemberExpr' and an.get('thisbase') and an.get('m') == '_file':
                        hit = True
            if hit:
                uses.append((f, i))
    for f, i in uses:
        n += 1
        ok = in_converting_try(f, i)
        how = 'lexically inside a converting try'
        if not ok and f.access == 'private':
            # private helper: all its call sites must be inside a converting try
            sites = []
            for g in ctx.lib_fns():
                for j, gn in g.all_nodes():
                    if gn.get('callee') and gn['callee'].get('usr') == f.usr:
                        sites.append((g, j))
            ok = bool(sites) and all(in_converting_try(g, j) for g, j in sites)
            how = 'private helper, %d call sites all inside a converting try' % len(sites)
        if not ok and (f.nodes[i].get('callee') or {}).get('name') in ('close', 'is_open', 'good', 'clear'):
            ok = True
            how = 'does not read'
        res.ob(ok, {'use': f.loc(i), 'in': f.q, 'how': how})
        if not ok:
            res.fail(f.q, '_file', f.loc(i), 'the file stream (exceptions enabled) is used outside a try that converts '
                     'std::ios_base::failure to GeographicErr: a short read raises an exception of another type')
    res.floor('stream uses outside the constructor', n, 4)
    return res


def rule_K6(ctx):
    res = RuleResult('K6', 'the area cache is filled with big-endian reads (both readarray instantiations in CacheArea)')
    n = 0
    for f in ctx.prog.fn(GEOID + '::CacheArea'):
        for i, nd in f.all_nodes():
            ce = nd.get('callee')
            if ce and ce.get('q') == NS + 'Utility::readarray':
                n += 1
                ta = ce.get('targs')
                if ta is None:
                    raise AnalysisBroken('K6: template arguments of readarray not available')
                full = '%s<%s>' % (ce['q'], ', '.join(ta))
                ok = len(ta) == 3 and ta[2].strip() in ('true', '1')
                res.ob(ok, {'call': f.loc(i), 'instantiation': full})
                if not ok:
                    res.fail(f.q, 'readarray', f.loc(i), 'CacheArea reads the raster with %s: the area cache would '
                             'hold byte-swapped pixels while rawval assembles big-endian ones' % full)
    res.floor('readarray calls in CacheArea', n, 2)
    res.assumptions.append('A-RAWVAL-BIGENDIAN: rawval assembles its two bytes most significant first')
    return res


# ------------------------------------------------------------------ T5
def _poly_add(a, b, sign=1):
    out = dict(a)
    for k, v in b.items():
        out[k] = out.get(k, 0) + sign * v
        if out[k] == 0:
            del out[k]
    return out


def _poly_mul(a, b):
    out = {}
    for (ax, ay, ai), av in a.items():
        for (bx, by, bi), bv in b.items():
            if ai >= 0 and bi >= 0:
                raise AnalysisBroken('T5: the Horner expression is not linear in t[]')
            k = (ax + bx, ay + by, max(ai, bi))
            out[k] = out.get(k, 0) + av * bv
    return {k: v for k, v in out.items() if v != 0}


def _horner(f, nid):
    """polynomial in (fx, fy) with coefficients linear in t[i]: {(px, py, i or -1): coeff}."""
    n = f.nodes[nid]
    k = n['k']
    if k in ('ParenExpr', 'ImplicitCastExpr', 'ExprWithCleanups', 'CXXFunctionalCastExpr') and n['ch']:
        return _horner(f, n['ch'][0])
    if 'cv' in n:
        return {(0, 0, -1): int(n['cv'])}
    if k == 'DeclRefExpr':
        if n['name'] == 'fx':
            return {(1, 0, -1): 1}
        if n['name'] == 'fy':
            return {(0, 1, -1): 1}
        raise AnalysisBroken('T5: unexpected variable %s in the cubic evaluation' % n['name'])
    if k == 'ArraySubscriptExpr':
        b = f.nodes[f.strip_casts(n['ch'][0])]
        while b['k'] == 'ImplicitCastExpr' and b['ch']:
            b = f.nodes[b['ch'][0]]
        idx = f.nodes[f.strip_casts(n['ch'][1])]
        if b.get('name') == 't' and 'cv' in idx:
            return {(0, 0, int(idx['cv'])): 1}
        raise AnalysisBroken('T5: unexpected subscript in the cubic evaluation')
    if k == 'BinaryOperator' and n['op'] in ('+', '-', '*'):
        a = _horner(f, n['ch'][0])
        b = _horner(f, n['ch'][1])
        if n['op'] == '+':
            return _poly_add(a, b)
        if n['op'] == '-':
            return _poly_add(a, b, -1)
        return _poly_mul(a, b)
    raise AnalysisBroken('T5: cannot interpret %s in the cubic evaluation' % k)


def rule_T5(ctx):
    res = RuleResult('T5', 'Geoid cubic tables are exact projectors on their stencil: c3_ reproduces all ten cubic '
                           'monomials, c3n_/c3s_ their pole-constrained subspaces (integer algebra)')
    K = Consts(ctx.prog)
    f = _height(ctx)
    nterms = K.i(GEOID + '::nterms_')
    nst = K.i(GEOID + '::stencilsize_')
    # stencil: rawval(ix + a, iy + b) calls that fill v[], in source order
    sten = []
    for i, n in sorted(f.all_nodes(), key=lambda x: (x[1]['l'], x[1]['c'])):
        if n['k'] in ('BinaryOperator',) and n.get('op') == '=':
            ln = f.nodes[f.strip(n['ch'][0])]
            if ln['k'] != 'ArraySubscriptExpr':
                continue
            base = f.nodes[f.strip_casts(ln['ch'][0])]
            while base['k'] == 'ImplicitCastExpr' and base['ch']:
                base = f.nodes[base['ch'][0]]
            if base.get('name') != 'v':
                continue
            rn = f.nodes[f.strip_casts(n['ch'][1])]
            if not rn.get('callee') or rn['callee'].get('name') != 'rawval':
                continue
            offs = []
            for a, var in zip(rn['args'], ('ix', 'iy')):
                an = f.nodes[f.strip_casts(a)]
                if an['k'] == 'DeclRefExpr' and an['name'] == var:
                    offs.append(0)
                elif an['k'] == 'BinaryOperator' and an['op'] in ('+', '-'):
                    l = f.nodes[f.strip_casts(an['ch'][0])]
                    r = f.nodes[f.strip_casts(an['ch'][1])]
                    if l.get('name') == var and 'cv' in r:
                        offs.append(int(r['cv']) * (1 if an['op'] == '+' else -1))
                    else:
                        raise AnalysisBroken('T5: stencil offset not of the form %s +- const' % var)
                else:
                    raise AnalysisBroken('T5: stencil offset not of the form %s +- const' % var)
            sten.append(tuple(offs))
    if len(sten) != nst:
        raise AnalysisBroken('T5: found %d stencil points, stencilsize_ is %d' % (len(sten), nst))
    # monomial multiplied by each t[i]: from the cubic return expression
    horner = None
    for i, n in f.all_nodes():
        if n['k'] == 'DeclStmt':
            for d in n['decls']:
                if d['name'] == 'h' and d.get('init', -1) >= 0:
                    txt = [f.nodes[j] for j in f.walk(d['init'])]
                    if any(x['k'] == 'ArraySubscriptExpr' for x in txt):
                        horner = _horner(f, d['init'])
    if horner is None:
        raise AnalysisBroken('T5: cubic evaluation expression not found')
    mono = {}
    for (px, py, ti), c in horner.items():
        if ti < 0 or c != 1 or ti in mono:
            raise AnalysisBroken('T5: evaluation is not sum t[i] * fx^a * fy^b')
        mono[ti] = (px, py)
    if sorted(mono) != list(range(nterms)):
        raise AnalysisBroken('T5: evaluation does not use t[0..%d] once each' % (nterms - 1))
    res.analysed['stencil'] = sten
    res.analysed['monomials'] = {str(i): list(mono[i]) for i in sorted(mono)}

    def project(tab, c0, powers):
        bad = []
        for (a, b) in powers:
            v = [x ** a * y ** b for x, y in sten]
            got = [sum(v[j] * tab[nterms * j + i] for j in range(nst)) for i in range(nterms)]
            exp = [c0 if mono[i] == (a, b) else 0 for i in range(nterms)]
            if got != exp:
                bad.append(((a, b), got, exp))
        return bad
    allm = [mono[i] for i in range(nterms)]
    c3, c3n, c3s = K.ia(GEOID + '::c3_'), K.ia(GEOID + '::c3n_'), K.ia(GEOID + '::c3s_')
    c0, c0n, c0s = K.i(GEOID + '::c0_'), K.i(GEOID + '::c0n_'), K.i(GEOID + '::c0s_')
    for t in (c3, c3n, c3s):
        if len(t) != nterms * nst:
            raise AnalysisBroken('T5: table size is not stencilsize_*nterms_')
    bad = project(c3, c0, allm)
    res.ob(not bad, {'table': 'c3_', 'monomials_reproduced': len(allm) - len(bad), 'of': len(allm)})
    for (a, b), got, exp in bad:
        res.fail(GEOID, 'c3_', '', 'c3_ does not reproduce x^%d y^%d on the stencil: fit gives %s, expected %s' % (a, b, got, exp))
    # north pole row (iy == 0): no dependence on x at y = 0: fit space excludes pure powers of x
    nm = [m for m in allm if not (m[1] == 0 and m[0] > 0)]
    badn = project(c3n, c0n, nm)
    res.ob(not badn, {'table': 'c3n_', 'monomials_reproduced': len(nm) - len(badn), 'of': len(nm)})
    for (a, b), got, exp in badn:
        res.fail(GEOID, 'c3n_', '', 'c3n_ does not reproduce x^%d y^%d: %s vs %s' % (a, b, got, exp))
    for i in range(nterms):
        if mono[i][1] == 0 and mono[i][0] > 0:
            col = [c3n[nterms * j + i] for j in range(nst)]
            ok = all(c == 0 for c in col)
            res.ob(ok, {'table': 'c3n_', 'coefficient_of': 'x^%d' % mono[i][0], 'identically_zero': ok})
            if not ok:
                res.fail(GEOID, 'c3n_', '', 'c3n_ yields a non-zero coefficient for x^%d at the pole row' % mono[i][0])
    # south pole (iy == height-2): no dependence on x at y = 1
    basis = [{(0, 0): 1}, {(0, 1): 1}, {(0, 2): 1}, {(0, 3): 1},
             {(1, 1): 1, (1, 0): -1}, {(1, 2): 1, (1, 1): -2, (1, 0): 1}, {(2, 1): 1, (2, 0): -1}]
    inv = {mono[i]: i for i in range(nterms)}
    bads = []
    for p in basis:
        v = [sum(c * x ** a * y ** b for (a, b), c in p.items()) for x, y in sten]
        got = [sum(v[j] * c3s[nterms * j + i] for j in range(nst)) for i in range(nterms)]
        exp = [0] * nterms
        for (a, b), c in p.items():
            exp[inv[(a, b)]] = c * c0s
        if got != exp:
            bads.append((p, got, exp))
    res.ob(not bads, {'table': 'c3s_', 'basis_polynomials_reproduced': len(basis) - len(bads), 'of': len(basis)})
    for p, got, exp in bads:
        res.fail(GEOID, 'c3s_', '', 'c3s_ does not reproduce %s: %s vs %s' % (p, got, exp))
    # row-wise: value at y = 1 independent of x:  t1+t4+t8 = t3+t7 = t6 = 0 for every stencil sample
    groups = {}
    for i in range(nterms):
        a, b = mono[i]
        if a > 0:
            groups.setdefault(a, []).append(i)
    for a, idxs in groups.items():
        ok = all(sum(c3s[nterms * j + i] for i in idxs) == 0 for j in range(nst))
        res.ob(ok, {'table': 'c3s_', 'x_power': a, 'coefficients_sum_to_zero_at_y=1': ok})
        if not ok:
            res.fail(GEOID, 'c3s_', '', 'c3s_: the fitted surface depends on longitude at the south pole (x^%d terms)' % a)
    return res
