"""DSP: run-time to compile-time dispatch agrees with itself.

The harmonic classes turn run-time settings (the normalisation stored in `_norm`, the request for a gradient)
into template arguments of SphericalEngine::Value / Circle:

    switch (_norm) { case FULL: ... Value<true, SphericalEngine::FULL, 1>(...); break;
                     case SCHMIDT: ... Value<true, SphericalEngine::SCHMIDT, 1>(...); }

(a) inside the region of `case K` every enumerator passed as a template argument has the value of K;
(b) the coefficient-set count L (third template argument) equals the extent of the coefficient array member
    passed as first argument;
(c) the gradient flag (first template argument): for Value it is true exactly when the three gradient
    arguments are bound to the caller's own output arguments; for Circle selected by `flag ? A : B` on a bool
    parameter it is true in A and false in B.
A copy/paste slip in one arm still compiles and silently evaluates a different sum.
"""
import re

from ..core import RuleResult
from ..build import AnalysisBroken

ENGINE_FNS = {'GeographicLib::SphericalEngine::Value': 3, 'GeographicLib::SphericalEngine::Circle': 0}


_ENUM_CACHE = {}


def _enum_value(prog, name):
    cache = _ENUM_CACHE.setdefault(id(prog), {})
    if not cache:
        for e in prog.enums.values():
            scope = e['q'].rsplit('::', 1)[0] if e.get('name') else e['q']
            for c in e['enumerators']:
                cache.setdefault(scope + '::' + c['name'], int(c['v']))
                cache.setdefault(e['q'] + '::' + c['name'], int(c['v']))
    return cache.get(name)


def _regions(f, sw):
    """[(labels, [stmt ids])] of a switch whose body is a compound statement."""
    body = f.nodes[sw].get('body', -1)
    if body < 0 or f.nodes[body]['k'] != 'CompoundStmt':
        return []
    regions = []
    cur = None
    for c in f.nodes[body]['ch']:
        n = f.nodes[c]
        stmt = c
        labels = []
        while n['k'] in ('CaseStmt', 'DefaultStmt'):
            if n['k'] == 'CaseStmt':
                ln = f.nodes[n['lhs']]
                labels.append(int(ln['cv']) if 'cv' in ln else None)
            else:
                labels.append('default')
            stmt = n['sub'] if n['k'] == 'CaseStmt' else (n['ch'][0] if n['ch'] else -1)
            if stmt < 0:
                break
            n = f.nodes[stmt]
        if labels:
            if cur is not None and not cur[2]:
                cur[0].extend(labels)         # fall-through from a previous region without break
                regions_labels = cur[0]
                cur = [regions_labels, cur[1], False]
                regions[-1] = cur
            else:
                cur = [labels, [], False]
                regions.append(cur)
        if cur is None:
            continue
        if stmt >= 0:
            cur[1].append(stmt)
            if any(f.nodes[j]['k'] in ('BreakStmt', 'ReturnStmt') for j in [stmt]):
                cur[2] = True
            elif f.nodes[stmt]['k'] in ('BreakStmt', 'ReturnStmt'):
                cur[2] = True
    return [(r[0], r[1]) for r in regions]


def rule_DSP(ctx, files=None):
    res = RuleResult('DSP', 'dispatch agreement: template arguments chosen under a run-time case/flag carry the value of '
                            'that case/flag (normalisation enumerator = case label; coefficient-set count = extent of the '
                            'coefficient array; gradient flag = the gradient outputs are the caller\'s outputs)')
    prog = ctx.prog
    ncase = 0
    ncalls = 0
    for f in sorted(ctx.lib_fns(), key=lambda x: (x.file, x.line)):
        if files and not any(f.file.endswith(x) for x in files):
            continue
        in_case = {}
        for i, n in f.all_nodes():
            if n['k'] != 'SwitchStmt':
                continue
            for labels, stmts in _regions(f, i):
                vals = [l for l in labels if isinstance(l, int)]
                if not vals:
                    continue
                for s in stmts:
                    for j in f.walk(s):
                        in_case[j] = vals
        for i, n in f.all_nodes():
            ce = n.get('callee')
            if not ce or not ce.get('targs'):
                continue
            q = ce.get('q', '')
            targs = ce['targs']
            # (a) enumerator template arguments inside a case region
            if i in in_case:
                for t in targs:
                    v = _enum_value(prog, t) if '::' in t else None
                    if v is None:
                        continue
                    ncase += 1
                    ok = v in in_case[i]
                    res.ob(ok, {'fn': f.q, 'at': f.loc(i), 'callee': q, 'template_argument': t, 'case_values': in_case[i]}
                           if (not ok or ncase % 6 == 1) else None)
                    if not ok:
                        res.fail(f.q, '%s<%s>' % (q.rsplit('::', 1)[-1], t.rsplit('::', 1)[-1]), f.loc(i),
                                 'inside the case with value %s the call %s is instantiated with %s (= %d)'
                                 % (in_case[i], q, t, v))
            if q not in ENGINE_FNS or len(targs) < 3:
                continue
            ncalls += 1
            args = n.get('args', [])
            # (b) L = extent of the coefficient array passed first
            if args:
                an = f.nodes[f.strip_casts(args[0])]
                while an['k'] == 'ImplicitCastExpr' and an['ch']:
                    an = f.nodes[f.strip_casts(an['ch'][0])]
                m = re.search(r'\[(\d+)\]$', an.get('t', ''))
                if m and targs[2].isdigit():
                    ok = int(m.group(1)) == int(targs[2])
                    res.ob(ok, None)
                    if not ok:
                        res.fail(f.q, '%s<L=%s>' % (q.rsplit('::', 1)[-1], targs[2]), f.loc(i),
                                 'the coefficient array %s has %s sets but the engine is instantiated for L = %s'
                                 % (an.get('m') or an.get('name'), m.group(1), targs[2]))
                else:
                    res.note('L not decided at %s (first argument type %s)' % (f.loc(i), an.get('t')))
            # (c) gradient flag
            if q.endswith('::Value') and len(args) >= 3 and targs[0] in ('true', 'false'):
                last = args[-3:]
                bound = []
                for a in last:
                    an = f.nodes[f.strip_casts(a)]
                    bound.append(an['k'] == 'DeclRefExpr' and an.get('rk') == 'param')
                if all(bound) or not any(bound):
                    ok = (targs[0] == 'true') == all(bound)
                    res.ob(ok, None)
                    if not ok:
                        res.fail(f.q, 'Value<gradp=%s>' % targs[0], f.loc(i),
                                 'the gradient outputs are %s the caller\'s output arguments but the engine is instantiated '
                                 'with gradp = %s' % ('bound to' if all(bound) else 'not', targs[0]))
            if q.endswith('::Circle') and targs[0] in ('true', 'false'):
                child = i
                for a in f.ancestors(i):
                    an = f.nodes[a]
                    if an['k'] == 'ConditionalOperator':
                        cn = f.nodes[f.strip_casts(an['cond'])]
                        if cn['k'] == 'DeclRefExpr' and cn.get('rk') == 'param' and cn.get('t', '').replace('const ', '') == 'bool':
                            in_then = child == an['then'] or child in set(f.walk(an['then']))
                            ok = (targs[0] == 'true') == in_then
                            res.ob(ok, None)
                            if not ok:
                                res.fail(f.q, 'Circle<gradp=%s>' % targs[0], f.loc(i),
                                         'selected when %s is %s but instantiated with gradp = %s'
                                         % (cn['name'], 'true' if in_then else 'false', targs[0]))
                        break
                    child = a
    res.analysed.update({'enumerator_arguments_in_cases': ncase, 'engine_calls': ncalls})
    return res, ncase, ncalls
