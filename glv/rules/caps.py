"""CAP1: the precomputed circle objects use an engine only under the capability it was created for.

GravityModel::Circle(lat, h, caps) builds a GravityCircle whose three CircularEngine members are real only
when the corresponding capability bit was requested (`caps & CAP_G ? _gravitational.Circle(...) :
CircularEngine()`); a default-constructed engine evaluates to 0, not NaN.  GravityCircle's methods therefore
test `_caps` before they touch an engine.  The rule reads the producer side (which constructor argument is
guarded by which bits, and which member each constructor parameter initialises) and requires, at every call
of an engine member inside the consumer class, path facts that establish those bits of `_caps`; for the
gradient form of `_disturbing(...)` additionally the bit under which the engine was built with a gradient.
"""
from ..core import RuleResult
from ..build import AnalysisBroken
from ..flow import TRUE, FALSE

NS = 'GeographicLib::'


def rule_CAP1(ctx, producer=NS + 'GravityModel::Circle', consumer=NS + 'GravityCircle'):
    res = RuleResult('CAP1', 'capability licence of the circle objects: inside %s every evaluation of an engine member is on '
                             'paths that establish the capability bits under which %s created that engine'
                             % (consumer.replace(NS, ''), producer.replace(NS, '')))
    pf = [f for f in ctx.lib_fns() if f.q == producer and f.cfg]
    if not pf:
        raise AnalysisBroken('CAP1: anchor vanished: ' + producer)
    pf = pf[0]
    fl = ctx.flow(pf)
    # the constructor call of the consumer inside the producer
    need = {}           # ctor param index -> set of bit numbers (of the caps value passed to the ctor)
    grad = {}           # ctor param index -> bit numbers under which the engine is built with a gradient
    ctor_usr = None
    pn = []
    for i, n in pf.all_nodes():
        ce = n.get('callee') or {}
        if n['k'] in ('CXXConstructExpr', 'CXXTemporaryObjectExpr') and ce.get('q', '').startswith(consumer + '::') and \
                len(n.get('args', [])) > 5:
            ctor_usr = ce.get('usr')
            pn = ce.get('pn', [])
            env = fl.env_at(i)
            caps_bv = fl.eval_bv(n['args'][0], env)

            def to_bits(dnf):
                """a DNF whose conjunctions are single literals equal to bits of the caps value passed to the constructor
                -> list of alternative bit sets; None if it cannot be expressed."""
                if dnf is None or dnf in (TRUE, FALSE):
                    return None
                alts = []
                for c in dnf:
                    ks = set()
                    for lit in c:
                        one = frozenset([frozenset([lit])])
                        hit = [k for k in range(len(caps_bv.bits)) if caps_bv.bits[k] == one]
                        if not hit:
                            return None
                        ks.add(hit[0])
                    alts.append(frozenset(ks))
                return alts
            for ai, a in enumerate(n['args']):
                an = pf.nodes[pf.strip_casts(a)]
                while an['k'] in ('MaterializeTemporaryExpr', 'ImplicitCastExpr', 'CXXBindTemporaryExpr') and an['ch']:
                    an = pf.nodes[pf.strip_casts(an['ch'][0])]
                if an['k'] != 'ConditionalOperator':
                    continue
                pos, neg = fl.cond2(an['cond'], env)
                alts = to_bits(pos)
                if not alts:
                    continue
                # is the else arm a default-constructed engine?
                en = pf.nodes[pf.strip_casts(an['else'])]
                # look through temporaries and the copy construction of the argument
                while (en['k'] in ('MaterializeTemporaryExpr', 'ImplicitCastExpr', 'CXXBindTemporaryExpr', 'CXXFunctionalCastExpr')
                       or (en['k'] == 'CXXConstructExpr' and len(en.get('args', [])) == 1)) and en['ch']:
                    en = pf.nodes[pf.strip_casts(en['ch'][0])]
                if en['k'] in ('CXXTemporaryObjectExpr', 'CXXConstructExpr') and not en.get('args'):
                    need[ai] = alts
                    # gradient flag of the engine: last argument of X.Circle(..., gradp)
                    tn = pf.nodes[pf.strip_casts(an['then'])]
                    while (tn['k'] in ('MaterializeTemporaryExpr', 'ImplicitCastExpr', 'CXXBindTemporaryExpr')
                           or (tn['k'] == 'CXXConstructExpr' and len(tn.get('args', [])) == 1)) and tn['ch']:
                        tn = pf.nodes[pf.strip_casts(tn['ch'][0])]
                    if tn.get('callee') and tn.get('args'):
                        last = tn['args'][-1]
                        if 'cv' not in pf.nodes[pf.strip_casts(last)]:
                            gp, gn = fl.cond2(last, env)
                            ga = to_bits(gp)
                            if ga:
                                grad[ai] = ga
            break
    if not need:
        raise AnalysisBroken('CAP1: no capability-guarded engine argument found in ' + producer)
    ctor = ctx.prog.fns.get(ctor_usr)
    if ctor is None:
        raise AnalysisBroken('CAP1: constructor of %s not found' % consumer)
    # constructor parameter -> member
    member_bits = {}
    member_grad = {}
    for it in ctor.d.get('inits', []):
        if it.get('kind') != 'member' or it.get('init', -1) < 0:
            continue
        for j in ctor.walk(it['init']):
            jn = ctor.nodes[j]
            if jn['k'] == 'DeclRefExpr' and jn.get('rk') == 'param' and jn.get('pidx') in need:
                member_bits[it['m']] = need[jn['pidx']]
                if jn['pidx'] in grad:
                    member_grad[it['m']] = grad[jn['pidx']]
    if not member_bits:
        raise AnalysisBroken('CAP1: the constructor does not store the guarded engines in members')
    res.analysed['engines'] = {m: [sorted(x) for x in b] for m, b in member_bits.items()}
    res.analysed['gradient_engines'] = {m: [sorted(x) for x in b] for m, b in member_grad.items()}
    nsites = 0
    for f in sorted(ctx.lib_fns(), key=lambda x: (x.file, x.line)):
        if f.cls != consumer or not f.cfg or f.is_ctor:
            continue
        cfl = ctx.flow(f)
        for i, n in f.all_nodes():
            ce = n.get('callee') or {}
            if n['k'] != 'CXXOperatorCallExpr' or ce.get('name') != 'operator()' or not n.get('args'):
                continue
            on = f.nodes[f.strip_casts(n['args'][0])]
            if on['k'] != 'MemberExpr' or not on.get('thisbase') or on.get('m') not in member_bits:
                continue
            m = on['m']
            reqs = [('created', member_bits[m])]
            if len(n['args']) > 3 and m in member_grad:      # (slam, clam, gx, gy, gz): the gradient form
                reqs.append(('built with a gradient', member_grad[m]))
            alts = cfl.facts_at(i)
            if not alts:
                continue
            nsites += 1
            bad = None
            for what, dnf in reqs:
                for a in alts:
                    have = {int(at.rsplit(':', 1)[1]) for at, pol in a if pol and at.startswith('b:this._caps:')}
                    if not any(alt <= have for alt in dnf):
                        bad = (what, dnf, sorted(have))
            ok = bad is None
            res.ob(ok, {'fn': f.q, 'engine': m, 'at': f.loc(i), 'needs_caps_bits': [sorted(x) for _, d in reqs for x in d]}
                   if (not ok or nsites % 2 == 1) else None)
            if not ok:
                res.fail(f.q, m, f.loc(i), '%s is evaluated on a path that establishes only bits %s of _caps; %s %s it under '
                         'bits %s (otherwise a default-constructed engine returns 0)'
                         % (m, bad[2], producer.replace(NS, ''), bad[0], ' or '.join(str(sorted(x)) for x in bad[1])))
    return res, nsites
