"""CAP1: the precomputed circle objects use an engine only under the capability it was created for.

GravityModel::Circle(lat, h, caps) builds a GravityCircle whose three CircularEngine members are real only
when the corresponding capability bit was requested (`caps & CAP_G ? _gravitational.Circle(...) :
CircularEngine()`); a default-constructed engine evaluates to 0, not NaN.  GravityCircle's methods therefore
test `_caps` before they touch an engine.  The rule reads the producer side (which constructor argument is
guarded by which bits, and which member each constructor parameter initialises) and requires, at every call
of an engine member inside the consumer class, path facts that establish those bits of `_caps`; for the
gradient form of `_disturbing(...)` additionally the bit under which the engine was built with a gradient.
"""
from ..core import RuleResult
from ..build import AnalysisBroken
from ..flow import TRUE, FALSE

NS = 'GeographicLib::'


def rule_CAP1(ctx, producer=NS + 'GravityModel::Circle', consumer=NS + 'GravityCircle'):
    res = RuleResult('CAP1', 'capability licence of the circle objects: inside %s every evaluation of an engine member is on '
                             'paths that establish the capability bits under which %s created that engine'
                             % (consumer.replace(NS, ''), producer.replace(NS, '')))
    pf = [f for f in ctx.lib_fns() if f.q == producer and f.cfg]
    if not pf:
        raise AnalysisBroken('CAP1: anchor vanished: ' + producer)
    pf = pf[0]
    fl = ctx.flow(pf)
    # the constructor call of the consumer inside the producer
    need_scalar = {}    # ctor param index -> bit sets under which a scalar is a number (NaN otherwise)
    need = {}           # ctor param index -> set of bit numbers (of the caps value passed to the ctor)
    grad = {}           # ctor param index -> bit numbers under which the engine is built with a gradient
    ctor_usr = None
    pn = []
    for i, n in pf.all_nodes():
        ce = n.get('callee') or {}
        if n['k'] in ('CXXConstructExpr', 'CXXTemporaryObjectExpr') and ce.get('q', '').startswith(consumer + '::') and \
                len(n.get('args', [])) > 5:
            ctor_usr = ce.get('usr')
            pn = ce.get('pn', [])
            env = fl.env_at(i)
            caps_bv = fl.eval_bv(n['args'][0], env)

            def to_bits(dnf):
                """a DNF whose conjunctions are single literals equal to bits of the caps value passed to the constructor
                -> list of alternative bit sets; None if it cannot be expressed."""
                if dnf is None or dnf in (TRUE, FALSE):
                    return None
                alts = []
                for c in dnf:
                    ks = set()
                    for lit in c:
                        one = frozenset([frozenset([lit])])
                        hit = [k for k in range(len(caps_bv.bits)) if caps_bv.bits[k] == one]
                        if not hit:
                            return None
                        ks.add(hit[0])
                    alts.append(frozenset(ks))
                return alts
            def bits_of_cond(cond):
                """alternative bit sets (of the caps value passed to the constructor) under which cond holds: either from
                the condition's DNF or, when bits were conditionally cleared before, by comparing the bit vector of
                `caps & CONST` with that of the constructor argument bit by bit."""
                pos, neg = fl.cond2(cond, env)
                alts = to_bits(pos)
                if alts:
                    return alts
                cn = pf.nodes[pf.strip_casts(cond)]
                while cn['k'] in ('ImplicitCastExpr', 'ParenExpr') and cn['ch']:
                    cn = pf.nodes[pf.strip_casts(cn['ch'][0])]
                inner = None
                if cn['k'] == 'BinaryOperator' and cn.get('op') == '&':
                    inner = pf.strip_casts(cond)
                    while pf.nodes[inner]['k'] in ('ImplicitCastExpr', 'ParenExpr'):
                        inner = pf.strip_casts(pf.nodes[inner]['ch'][0])
                elif cn['k'] == 'BinaryOperator' and cn.get('op') == '!=' and 'cv' in pf.nodes[pf.strip(cn['ch'][1])] and \
                        int(pf.nodes[pf.strip(cn['ch'][1])]['cv']) == 0:
                    inner = pf.strip_casts(cn['ch'][0])
                if inner is None:
                    return None
                bv = fl.eval_bv(inner, env)
                out = []
                for kbit in range(len(bv.bits)):
                    if bv.bits[kbit] == FALSE:
                        continue
                    if bv.bits[kbit] != caps_bv.bits[kbit]:
                        return None
                    out.append(frozenset([kbit]))
                return out or None
            for ai, a in enumerate(n['args']):
                an = pf.nodes[pf.strip_casts(a)]
                while an['k'] in ('MaterializeTemporaryExpr', 'ImplicitCastExpr', 'CXXBindTemporaryExpr') and an['ch']:
                    an = pf.nodes[pf.strip_casts(an['ch'][0])]
                if an['k'] == 'DeclRefExpr' and an.get('rk') == 'local':
                    # a local defined once by `cond ? value : NaN`
                    inits = [d['init'] for _i, dn in pf.all_nodes() if dn['k'] == 'DeclStmt' for d in dn['decls']
                             if d['d'] == an['d'] and d.get('init', -1) >= 0]
                    reassigned = any(m['k'] in ('BinaryOperator', 'CompoundAssignOperator') and m.get('op', '').endswith('=')
                                     and m['op'] not in ('==', '!=', '<=', '>=')
                                     and pf.nodes[pf.strip(m['ch'][0])].get('d') == an['d'] for _i, m in pf.all_nodes())
                    inits = sorted(set(inits))
                    if len(inits) == 1 and not reassigned:
                        an = pf.nodes[pf.strip_casts(inits[0])]
                        while an['k'] in ('ParenExpr', 'ImplicitCastExpr') and an['ch']:
                            an = pf.nodes[pf.strip_casts(an['ch'][0])]
                if an['k'] != 'ConditionalOperator':
                    continue
                alts = bits_of_cond(an['cond'])
                if not alts:
                    continue
                # is the else arm a default-constructed engine?
                en = pf.nodes[pf.strip_casts(an['else'])]
                # look through temporaries and the copy construction of the argument
                while (en['k'] in ('MaterializeTemporaryExpr', 'ImplicitCastExpr', 'CXXBindTemporaryExpr', 'CXXFunctionalCastExpr')
                       or (en['k'] == 'CXXConstructExpr' and len(en.get('args', [])) == 1)) and en['ch']:
                    en = pf.nodes[pf.strip_casts(en['ch'][0])]
                if en['k'] == 'CallExpr' and (en.get('callee') or {}).get('q') == NS + 'Math::NaN':
                    need_scalar[ai] = alts
                    continue
                if en['k'] in ('CXXTemporaryObjectExpr', 'CXXConstructExpr') and not en.get('args'):
                    need[ai] = alts
                    # gradient flag of the engine: last argument of X.Circle(..., gradp)
                    tn = pf.nodes[pf.strip_casts(an['then'])]
                    while (tn['k'] in ('MaterializeTemporaryExpr', 'ImplicitCastExpr', 'CXXBindTemporaryExpr')
                           or (tn['k'] == 'CXXConstructExpr' and len(tn.get('args', [])) == 1)) and tn['ch']:
                        tn = pf.nodes[pf.strip_casts(tn['ch'][0])]
                    if tn.get('callee') and tn.get('args'):
                        last = tn['args'][-1]
                        if 'cv' not in pf.nodes[pf.strip_casts(last)]:
                            ga = bits_of_cond(last)
                            if ga:
                                grad[ai] = ga
            break
    if not need:
        raise AnalysisBroken('CAP1: no capability-guarded engine argument found in ' + producer)
    ctor = ctx.prog.fns.get(ctor_usr)
    if ctor is None:
        raise AnalysisBroken('CAP1: constructor of %s not found' % consumer)
    # constructor parameter -> member
    member_bits = {}
    member_grad = {}
    scalar_bits = {}
    for it in ctor.d.get('inits', []):
        if it.get('kind') == 'member' and it.get('init', -1) >= 0:
            for j in ctor.walk(it['init']):
                jn = ctor.nodes[j]
                if jn['k'] == 'DeclRefExpr' and jn.get('rk') == 'param' and jn.get('pidx') in need_scalar:
                    scalar_bits[it['m']] = need_scalar[jn['pidx']]
    for it in ctor.d.get('inits', []):
        if it.get('kind') != 'member' or it.get('init', -1) < 0:
            continue
        for j in ctor.walk(it['init']):
            jn = ctor.nodes[j]
            if jn['k'] == 'DeclRefExpr' and jn.get('rk') == 'param' and jn.get('pidx') in need:
                member_bits[it['m']] = need[jn['pidx']]
                if jn['pidx'] in grad:
                    member_grad[it['m']] = grad[jn['pidx']]
    if not member_bits:
        raise AnalysisBroken('CAP1: the constructor does not store the guarded engines in members')
    res.analysed['engines'] = {m: [sorted(x) for x in b] for m, b in member_bits.items()}
    res.analysed['scalars'] = {m: [sorted(x) for x in b] for m, b in scalar_bits.items()}
    res.analysed['gradient_engines'] = {m: [sorted(x) for x in b] for m, b in member_grad.items()}
    nsites = 0
    for f in sorted(ctx.lib_fns(), key=lambda x: (x.file, x.line)):
        if f.cls != consumer or not f.cfg or f.is_ctor:
            continue
        cfl = ctx.flow(f)
        for i, n in f.all_nodes():
            ce = n.get('callee') or {}
            if n['k'] != 'CXXOperatorCallExpr' or ce.get('name') != 'operator()' or not n.get('args'):
                continue
            on = f.nodes[f.strip_casts(n['args'][0])]
            if on['k'] != 'MemberExpr' or not on.get('thisbase') or on.get('m') not in member_bits:
                continue
            m = on['m']
            reqs = [('created', member_bits[m])]
            if len(n['args']) > 3 and m in member_grad:      # (slam, clam, gx, gy, gz): the gradient form
                reqs.append(('built with a gradient', member_grad[m]))
            alts = cfl.facts_at(i)
            if not alts:
                continue
            nsites += 1
            bad = None
            for what, dnf in reqs:
                for a in alts:
                    have = {int(at.rsplit(':', 1)[1]) for at, pol in a if pol and at.startswith('b:this._caps:')}
                    if not any(alt <= have for alt in dnf):
                        bad = (what, dnf, sorted(have))
            ok = bad is None
            res.ob(ok, {'fn': f.q, 'engine': m, 'at': f.loc(i), 'needs_caps_bits': [sorted(x) for _, d in reqs for x in d]}
                   if (not ok or nsites % 2 == 1) else None)
            if not ok:
                res.fail(f.q, m, f.loc(i), '%s is evaluated on a path that establishes only bits %s of _caps; %s %s it under '
                         'bits %s (otherwise a default-constructed engine returns 0)'
                         % (m, bad[2], producer.replace(NS, ''), bad[0], ' or '.join(str(sorted(x)) for x in bad[1])))
    for f in sorted(ctx.lib_fns(), key=lambda x: (x.file, x.line)):
        if f.cls != consumer or not f.cfg or f.is_ctor or not scalar_bits:
            continue
        if len([1 for _i, _n in f.all_nodes()]) < 12:
            continue          # plain accessors
        cfl = ctx.flow(f)
        for i, n in f.all_nodes():
            if n['k'] != 'MemberExpr' or not n.get('thisbase') or n.get('m') not in scalar_bits:
                continue
            alts = cfl.facts_at(i)
            if not alts:
                continue
            nsites += 1
            dnf = scalar_bits[n['m']]
            bad = None
            for a in alts:
                have = {int(at.rsplit(':', 1)[1]) for at, pol in a if pol and at.startswith('b:this._caps:')}
                if not any(alt <= have for alt in dnf):
                    bad = sorted(have)
            ok = bad is None
            res.ob(ok, {'fn': f.q, 'member': n['m'], 'at': f.loc(i), 'needs_caps_bits': [sorted(x) for x in dnf]} if not ok else None)
            if not ok:
                res.fail(f.q, n['m'], f.loc(i), '%s is used on a path that establishes only bits %s of _caps; %s stores NaN in it '
                         'unless bits %s were requested' % (n['m'], bad, producer.replace(NS, ''),
                                                            ' or '.join(str(sorted(x)) for x in dnf)))
    return res, nsites
