"""R-TOOL: the command-line tools' line loop (C10)."""
import os

from ..build import AnalysisBroken
from ..core import RuleResult
from . import exc

AUDITED_TOOLS = {
    'Planimeter.cpp': 'different output contract: one result per polygon (blank-line separated), not per input line',
}


def _is_getline_loop(f, n):
    if n['k'] != 'WhileStmt' or n.get('cond', -1) < 0:
        return False
    for j in f.walk(n['cond']):
        ce = f.nodes[j].get('callee')
        if ce and ce.get('name') == 'getline':
            return True
    return False


def _str_lits(f, nid):
    out = []
    for j in f.walk(nid):
        n = f.nodes[j]
        if n['k'] == 'StringLiteral' and 'bytes' in n:
            out.append(bytes(n['bytes']).decode('latin-1'))
    return out


def _eol_write(f, j):
    """is node j an output of a line terminator (<< eol, << "...\\n", << std::endl)?"""
    n = f.nodes[j]
    if n['k'] != 'CXXOperatorCallExpr' or n.get('op') != '<<' or len(n.get('args', [])) < 2:
        return False
    a = n['args'][1]
    an = f.nodes[f.strip_casts(a)]
    for k in f.walk(a):
        kn = f.nodes[k]
        if kn['k'] == 'StringLiteral' and 'bytes' in kn and bytes(kn['bytes']).endswith(b'\n'):
            return True
        if kn['k'] == 'DeclRefExpr' and kn.get('name') in ('eol', 'endl'):
            return True
    return False


def rule_TOOL(ctx):
    res = RuleResult('TOOL', 'every tool\'s per-line loop: library calls that may throw sit inside a try in the loop body '
                             'whose std::exception handler emits a line beginning "ERROR", sets a non-zero exit status '
                             'that main returns, and a line terminator is written on both the normal and the error path')
    TH = exc.get_throws(ctx)
    tools = {}
    for f in ctx.prog.fns.values():
        if f.name == 'main' and f.file.startswith(os.path.join(ctx.repo, 'tools')):
            tools[os.path.basename(f.file)] = f
    res.floor('tool main functions', len(tools), 10)
    nloops = 0
    for name, f in sorted(tools.items()):
        loops = [i for i, n in f.all_nodes() if _is_getline_loop(f, n)]
        # the data loop is the one reading *input (the last getline loop in main)
        if not loops:
            continue
        if name in AUDITED_TOOLS:
            res.note('%s audited: %s' % (name, AUDITED_TOOLS[name]))
            continue
        loop = max(loops, key=lambda i: f.nodes[i]['l'])
        nloops += 1
        body = f.nodes[loop]['body']
        body_nodes = set(f.walk(body))
        tries = [j for j in body_nodes if f.nodes[j]['k'] == 'CXXTryStmt']
        # (a) may-throw calls inside a try of the body
        bad_calls = []
        for j in body_nodes:
            if TH.may_throw_node(f, j):
                inside = any(f.nodes[a]['k'] == 'CXXTryStmt' and a in body_nodes and
                             j in set(f.walk(f.nodes[a]['try'])) for a in f.ancestors(j))
                in_handler = any(f.nodes[a]['k'] == 'CXXCatchStmt' for a in f.ancestors(j) if a in body_nodes)
                if not inside and not in_handler:
                    bad_calls.append(j)
        ok_a = not bad_calls
        res.ob(ok_a, {'tool': name, 'loop': f.loc(loop), 'unprotected_may_throw_calls': [f.loc(j) for j in bad_calls]})
        for j in bad_calls:
            ce = f.nodes[j].get('callee') or {}
            res.fail('tools/' + name, 'unprotected@' + ce.get('q', 'throw'), f.loc(j),
                     'a call that may throw (%s) in the per-line loop of %s is outside the try: one bad input line '
                     'aborts the run instead of producing an ERROR line' % (ce.get('q', 'throw'), name))
        if not tries:
            res.ob(False, {'tool': name, 'try_in_loop': False})
            res.fail('tools/' + name, 'no-try', f.loc(loop), 'the per-line loop of %s has no try block' % name)
            continue
        # (b)/(c) handler
        outer = [t for t in tries if not any(f.nodes[a]['k'] == 'CXXTryStmt' and a in body_nodes for a in f.ancestors(t))]
        for t in outer:
            tn = f.nodes[t]
            hs = [h for h in tn['handlers'] if 'exception' in f.nodes[h].get('caught', '') or f.nodes[h].get('catchall')]
            if not hs:
                res.ob(False, {'tool': name, 'handler_for_std_exception': False})
                res.fail('tools/' + name, 'handler', f.loc(t), 'the try in the per-line loop of %s has no handler for '
                         'std::exception' % name)
                continue
            h = hs[0]
            lits = _str_lits(f, h)
            err = any(s.startswith('ERROR') for s in lits)
            # non-zero status assigned to a variable that main returns
            rv = None
            for j in f.walk(h):
                n = f.nodes[j]
                if n['k'] == 'BinaryOperator' and n.get('op') == '=':
                    rn = f.nodes[f.strip_casts(n['ch'][1])]
                    ln = f.nodes[f.strip(n['ch'][0])]
                    if 'cv' in rn and int(rn['cv']) != 0 and ln['k'] == 'DeclRefExpr':
                        rv = ln['d']
            returned = False
            if rv is not None:
                for j, n in f.all_nodes():
                    if n['k'] == 'ReturnStmt' and n.get('val', -1) >= 0 and n['l'] > f.nodes[loop]['el']:
                        vn = f.nodes[f.strip_casts(n['val'])]
                        if vn['k'] == 'DeclRefExpr' and vn.get('d') == rv:
                            returned = True
            # line terminator on the error path: in the handler, or after the try inside the loop body
            after = [j for j in body_nodes if f.nodes[j]['l'] > tn['el'] and _eol_write(f, j)]
            in_h = [j for j in f.walk(h) if _eol_write(f, j)]
            in_try = [j for j in f.walk(tn['try']) if _eol_write(f, j)]
            eol_err = bool(after or in_h)
            eol_ok = bool(after or in_try)
            good = err and rv is not None and returned and eol_err and eol_ok
            res.ob(good, {'tool': name, 'handler': f.loc(h), 'emits_ERROR': err, 'sets_nonzero_status': rv is not None,
                          'status_returned_by_main': returned, 'terminator_on_error_path': eol_err,
                          'terminator_on_normal_path': eol_ok})
            if not err:
                res.fail('tools/' + name, 'ERROR-marker', f.loc(h), 'the handler in the per-line loop of %s does not emit a '
                         'line beginning "ERROR"' % name)
            if rv is None or not returned:
                res.fail('tools/' + name, 'exit-status', f.loc(h), 'the handler in the per-line loop of %s does not set a '
                         'non-zero status that main returns' % name)
            if not eol_err:
                res.fail('tools/' + name, 'error-eol', f.loc(h), 'no line terminator is written on the error path of %s: '
                         'output lines no longer match input lines' % name)
            if not eol_ok:
                res.fail('tools/' + name, 'normal-eol', f.loc(t), 'no line terminator is written on the normal path of %s' % name)
    res.floor('per-line loops', nloops, 9)
    res.analysed['tools'] = sorted(tools)
    return res


def rule_S1(ctx):
    """replacement tables: an earlier pattern must not occur inside a later one."""
    res = RuleResult('S1', 'symbol-replacement sequence of DMS::Decode: no pattern that is replaced earlier occurs inside a '
                           'pattern replaced later (the later, longer symbol would be mangled before it can match)')
    NS = 'GeographicLib::'
    fs = ctx.prog.fn(NS + 'DMS::Decode')
    n = 0
    for f in fs:
        calls = []
        for i, nd in f.all_nodes():
            ce = nd.get('callee')
            if ce and ce.get('q') == NS + 'DMS::replace' and len(nd.get('args', [])) >= 2:
                lits = _str_lits_bytes(f, nd['args'][1])
                if len(lits) == 1:
                    calls.append((nd['l'], nd['c'], i, lits[0]))
        calls.sort()
        if not calls:
            continue
        for a in range(len(calls)):
            for b in range(a + 1, len(calls)):
                pa, pb = calls[a][3], calls[b][3]
                n += 1
                bad = len(pa) < len(pb) and pa in pb
                if bad or n % 400 == 1:
                    res.ob(not bad, {'earlier': repr(pa), 'at': f.loc(calls[a][2]), 'later': repr(pb), 'at2': f.loc(calls[b][2])})
                else:
                    res.ob(True, None)
                if bad:
                    res.fail(f.q, 'replace:%s' % pa.hex(), f.loc(calls[a][2]),
                             'the pattern %r (replaced at %s) occurs inside %r, which is only replaced later at %s: that '
                             'documented symbol is mangled and then rejected' % (pa, f.loc(calls[a][2]), pb, f.loc(calls[b][2])))
        res.analysed['replacement_calls'] = len(calls)
    res.floor('ordered pattern pairs', n, 500)
    return res


def _str_lits_bytes(f, nid):
    out = []
    for j in f.walk(nid):
        n = f.nodes[j]
        if n['k'] == 'StringLiteral' and 'bytes' in n:
            out.append(bytes(n['bytes']))
    return out
