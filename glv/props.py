"""property -> rule sets."""
from .ctx import Ctx


def _c14(ctx):
    from .rules import eff
    return eff.run_C14(ctx)


CHECKS = {
    'C14': _c14,
}


def run(prop, tier):
    ctx = Ctx(tier=tier)
    return CHECKS[prop](ctx)


def extra_coverage(prop):
    return {}
