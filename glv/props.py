"""property -> rule sets."""
from . import tables as T
from .ctx import Ctx

SCOPES = {
    'C19': ['src/SphericalEngine.cpp', 'src/CircularEngine.cpp', 'GeographicLib/SphericalEngine.hpp',
            'GeographicLib/CircularEngine.hpp', 'GeographicLib/SphericalHarmonic.hpp', 'GeographicLib/SphericalHarmonic1.hpp',
            'GeographicLib/SphericalHarmonic2.hpp', 'src/MagneticModel.cpp', 'src/MagneticCircle.cpp',
            'src/GravityModel.cpp', 'src/GravityCircle.cpp', 'src/NormalGravity.cpp', 'GeographicLib/MagneticModel.hpp',
            'GeographicLib/MagneticCircle.hpp', 'GeographicLib/GravityModel.hpp', 'GeographicLib/GravityCircle.hpp',
            'GeographicLib/NormalGravity.hpp'],
    'C11': ['src/PolarStereographic.cpp', 'GeographicLib/PolarStereographic.hpp', 'src/LambertConformalConic.cpp',
            'GeographicLib/LambertConformalConic.hpp', 'src/AlbersEqualArea.cpp', 'GeographicLib/AlbersEqualArea.hpp'],
    'C04': ['src/UTMUPS.cpp', 'GeographicLib/UTMUPS.hpp'],
    'C05': ['src/MGRS.cpp', 'GeographicLib/MGRS.hpp'],
    'C10': ['src/DMS.cpp', 'GeographicLib/DMS.hpp', 'src/Utility.cpp', 'GeographicLib/Utility.hpp',
            'src/GeoCoords.cpp', 'GeographicLib/GeoCoords.hpp'],
    'C18': ['src/Geohash.cpp', 'GeographicLib/Geohash.hpp', 'src/GARS.cpp', 'GeographicLib/GARS.hpp',
            'src/Georef.cpp', 'GeographicLib/Georef.hpp', 'src/OSGB.cpp', 'GeographicLib/OSGB.hpp'],
    'C20': ['src/Geoid.cpp', 'GeographicLib/Geoid.hpp'],
    'C17': ['GeographicLib/NearestNeighbor.hpp'],
    'C07': ['src/Geocentric.cpp', 'GeographicLib/Geocentric.hpp', 'src/LocalCartesian.cpp', 'GeographicLib/LocalCartesian.hpp'],
}
# instance floors (about 80% of the counts confirmed on the verified tree)
FLOORS = {
    'C19': dict(throws=45, x3fns=40, x4throws=0),
    'C11': dict(throws=20, x3fns=8, x4throws=0),
    'C04': dict(throws=14, x3fns=5, x4throws=7),
    'C05': dict(throws=25, x3fns=3, x4throws=2),
    'C10': dict(throws=20, x3fns=7, x4throws=0),
    'C18': dict(throws=24, x3fns=9, x4throws=4),
    'C20': dict(throws=14, x3fns=0, x4throws=0),
    'C13': dict(throws=200, x3fns=200, x4throws=15),
    'C17': dict(throws=12, x3fns=2, x4throws=0),
    'C07': dict(throws=1, x3fns=1, x4throws=0),
}


def _exc_rules(ctx, prop, with_lookup=True):
    from .rules import exc
    files = SCOPES.get(prop)
    fl = FLOORS[prop]
    out = []
    r1, nthrow, ncatch = exc.rule_X1(ctx, files)
    r1.floor('throw sites', nthrow, fl['throws'])
    out.append(r1)
    r3, n3 = exc.rule_X3(ctx, files)
    r3.floor('functions with output arguments', n3, fl['x3fns'])
    out.append(r3)
    r4, n4 = exc.rule_X4(ctx, files)
    r4.floor('throw sites in functions with floating arguments', n4, fl['x4throws'])
    out.append(r4)
    if with_lookup:
        out.append(exc.rule_X2b(ctx))
    for r in out:
        if 'A-ELLIPTIC-ARGS' not in ' '.join(r.assumptions) and r.rule == 'X3':
            r.assumptions.append('A-ELLIPTIC-ARGS: library-internal EllipticFunction constructions pass parameters '
                                 'in range, so its validation throws are not propagated to callers')
            r.assumptions.append('A-SINGLETON-NOTHROW: parameterless accessors of function-local static objects '
                                 'are built from constants their validators accept')
            r.assumptions.append('allocation failure (bad_alloc) is outside the error contract, as the property says')
    return out


def _c14(ctx):
    from .rules import eff
    return eff.run_C14(ctx)


def _c13(ctx):
    from .rules import exc, eff
    out = _exc_rules(ctx, 'C13')
    r5, n5 = exc.rule_X5(ctx)
    r5.floor('validating constructors and setters', n5, 18)
    out.append(r5)
    r6, n6 = exc.rule_X6(ctx)
    r6.floor('loops', n6, 240)
    out.append(r6)
    rn, nn = exc.rule_NAN2(ctx, None)
    rn.floor('two-armed ifs decided by a NaN argument', nn, 40)
    out.append(rn)
    out.append(eff.rule_flags(ctx, 'X8', T.BAD_FLAGS))
    from .rules import bounds
    # float-to-integer conversions are examined in every library file, indexes in the codecs
    out.append(_x7(ctx, bounds.CODEC_FILES, 50, 35, 35, conv_files=('.cpp', '.hpp')))
    out.append(_idx1(ctx, None, 80))
    out.append(_x9(ctx, bounds.CODEC_FILES, 5, 200))
    out.append(_x10(ctx))
    out.append(_x12(ctx))
    out.append(_x2v(ctx))
    # functions documented to give the strong guarantee (object unchanged when they throw)
    out.append(exc.rule_X3m(ctx, {NSP + 'NearestNeighbor::Initialize', NSP + 'NearestNeighbor::Load'}))
    return out


def _x7(ctx, files, fl_idx, fl_proved, fl_conv=0, conv_files=None):
    from .rules import bounds
    from .core import RuleResult
    if ctx.prog.raw.get('precision', 2) != 2:
        r = RuleResult('X7', 'interval analysis skipped: end points are modelled in IEEE double, which is only faithful '
                             'for GEOGRAPHICLIB_PRECISION=2')
        r.ob(True, {'skipped': True})
        return r
    r, n, p = bounds.rule_X7(ctx, files, conv_files)
    r.floor('array indexes examined', n, fl_idx)
    r.floor('indexes proved in range', p, fl_proved)
    r.floor('float-to-integer conversions examined', r.analysed.get('float_to_int_conversions', 0), fl_conv)
    return r


def _idx1(ctx, files, floor):
    from .rules import bounds
    from .core import RuleResult
    if ctx.prog.raw.get('precision', 2) != 2:
        r = RuleResult('IDX1', 'interval analysis skipped: end points are modelled in IEEE double, which is only faithful '
                               'for GEOGRAPHICLIB_PRECISION=2')
        r.ob(True, {'skipped': True})
        return r
    r, n = bounds.rule_IDX1(ctx, files)
    r.floor('indexes into fixed-size local arrays', n, floor)
    return r


def _w1(ctx, prop, floor):
    from .rules import total
    r, n = total.rule_W1(ctx, SCOPES[prop], T.W1_AUDITED)
    r.floor('functions with output arguments', n, floor)
    return r


def _x9(ctx, files, fl_fns, fl_paths):
    from .rules import fill
    r, nf, npaths = fill.rule_X9(ctx, files, values=(range(-12, 48) if ctx.tier == 'thorough' else range(-3, 26)))
    r.floor('encoders with a fixed buffer', nf, fl_fns)
    r.floor('hand-overs checked (paths x parameter values)', npaths, fl_paths)
    return r


X10_DECODERS = [NSP_ + x for NSP_ in ('GeographicLib::',) for x in ('GARS::Reverse', 'Georef::Reverse', 'Geohash::Reverse')]


def _x10_both(ctx):
    """X10 and X12 come out of one exploration of the decoders."""
    c = getattr(ctx, '_x10_cache', None)
    if c is None:
        from .rules import decode
        from .core import RuleResult
        x12 = RuleResult('X12', 'every character counts: on every accepting path of the grid-code decoders, for every '
                                'string length, each character of the string has been looked up in an alphabet or '
                                'covered by a find_first_not_of(alphabet, pos) == npos test (Geohash: the first maxlen_ '
                                'characters, as documented); a character that nothing examines can be anything, so a '
                                'string that is not a code would be accepted')
        r, nf, npaths = decode.rule_X10(ctx, X10_DECODERS, maxlen=(48 if ctx.tier == 'thorough' else 26), x12=x12,
                                        truncate={'GeographicLib::Geohash::Reverse': 'GeographicLib::Geohash::maxlen_'})
        r.floor('decoders', nf, 3)
        r.floor('outputs x accepting paths x lengths', npaths, 150)
        x12.floor('accepting paths x lengths judged', x12.obligations, 40)
        c = ctx._x10_cache = (r, x12)
    return c


def _x10(ctx):
    return _x10_both(ctx)[0]


def _x12(ctx):
    return _x10_both(ctx)[1]


def _x2v(ctx):
    from .rules import sizes
    r, nfn, nsize = sizes.rule_X2v(ctx)
    r.floor('container sizes checked', nsize, 500)
    return r


def _skipped(ctx, rule, what):
    from .core import RuleResult
    r = RuleResult(rule, '%s skipped: its interval end points and float-to-integer conversions are modelled in IEEE double, '
                         'which is only faithful for GEOGRAPHICLIB_PRECISION=2' % what)
    r.ob(True, {'skipped': True})
    return r


def _x11(ctx):
    from .rules import bounds
    if ctx.prog.raw.get('precision', 2) != 2:
        return _skipped(ctx, 'X11', 'writer/reader field agreement')
    r, nfield = bounds.rule_X11(ctx, [(NSP + 'GARS::Forward', NSP + 'GARS::Reverse'),
                                      (NSP + 'Georef::Forward', NSP + 'Georef::Reverse')])
    r.floor('paired fields', nfield, 2)
    return r


def _t3(ctx, classes, floor):
    from .rules import tab
    r, n = tab.rule_T3(ctx, classes)
    r.floor('alphabets and size relations', n, floor)
    return r


def _h2(ctx, names, nfn, nout):
    from .rules import homog
    r, a, b = homog.rule_H2(ctx, [NSP + c for c in names])
    r.floor('Forward/Reverse bodies with a scale output', a, nfn)
    r.floor('outputs typed', b, nout)
    return r


def _c04(ctx):
    from .rules import tab
    out = _exc_rules(ctx, 'C04', with_lookup=False)
    r, n = tab.rule_T4(ctx)
    r.floor('constant relations', n, 10)
    out.append(r)
    out.append(_w1(ctx, 'C04', 5))
    from .rules import parity
    s2, nf2, no2 = parity.rule_S2(ctx, [NSP + 'PolarStereographic'])
    s2.floor('Forward/Reverse bodies (UPS projection)', nf2, 2)
    out.append(s2)
    out.append(_x7(ctx, ('src/UTMUPS.cpp',), 0, 0, 2, conv_files=('src/UTMUPS.cpp', 'include/GeographicLib/MGRS.hpp')))
    out.append(_h2(ctx, ('TransverseMercator', 'PolarStereographic'), 4, 16))
    from .rules import offsets
    offs, noffs = offsets.rule_OFFS(ctx)
    offs.floor('paths of UTMUPS::Forward/Reverse that project', noffs, 6)
    out.append(offs)
    return out


def _c05(ctx):
    from .rules import tab as _tab
    t4, nt4 = _tab.rule_T4(ctx)
    t4.floor('constant relations', nt4, 10)
    extra = []
    if ctx.tier == 'thorough' and ctx.prog.raw.get('precision', 2) == 2:
        from .rules import relidx
        x7r, nsite, nproved = relidx.rule_X7r(ctx, ('src/MGRS.cpp',), values=(0, 5, 11))
        x7r.floor('subscript sites in MGRS::Forward', nsite, 20)
        x7r.floor('sites proved on every path', nproved, 12)
        extra = [x7r]
    return _exc_rules(ctx, 'C05') + extra + [t4, _w1(ctx, 'C05', 3), _x9(ctx, ('src/MGRS.cpp',), 1, 100), _t3(ctx, {'MGRS'}, 25), _x7(ctx, ('src/MGRS.cpp',), 15, 8, 2, conv_files=('src/MGRS.cpp', 'include/GeographicLib/MGRS.hpp'))]


def _c10(ctx):
    # binary array I/O lives in Utility.hpp but is not text parsing (it is decided under C13)
    from .rules import tool
    ctx.exclude_q = {'GeographicLib::Utility::readarray', 'GeographicLib::Utility::writearray'}
    from .rules import rewrite
    rw, nchain, ncalls = rewrite.rule_RW1(ctx, ('src/DMS.cpp',))
    rw.floor('rewrite chains in DMS.cpp', nchain, 1)
    rw.floor('rewrite calls', ncalls, 40)
    return _exc_rules(ctx, 'C10') + [tool.rule_TOOL(ctx), tool.rule_S1(ctx), _w1(ctx, 'C10', 8), rw,
                                     _idx1(ctx, ('src/DMS.cpp', 'src/GeoCoords.cpp', 'include/GeographicLib/Utility.hpp',
                                                 'src/Utility.cpp', 'include/GeographicLib/DMS.hpp'), 4)]


def _c18(ctx):
    from .rules import relidx
    if ctx.prog.raw.get('precision', 2) != 2:
        x7r = _skipped(ctx, 'X7r', 'relational index proof')
    else:
        x7r, nsite, nproved = relidx.rule_X7r(ctx, ('src/GARS.cpp', 'src/Georef.cpp', 'src/OSGB.cpp', 'src/Geohash.cpp'))
        x7r.floor('subscript sites', nsite, 20)
        x7r.floor('sites proved on every path', nproved, 18)
    return _exc_rules(ctx, 'C18') + [x7r, _w1(ctx, 'C18', 7), _x10(ctx), _x12(ctx), _x11(ctx), _x9(ctx, ('src/Geohash.cpp', 'src/GARS.cpp', 'src/Georef.cpp', 'src/OSGB.cpp'), 4, 80), _t3(ctx, {'Geohash', 'GARS', 'Georef', 'OSGB'}, 22),
                                      _x7(ctx, ('src/Geohash.cpp', 'src/GARS.cpp', 'src/Georef.cpp', 'src/OSGB.cpp'), 25, 20, 10)]


def _t1(ctx, family, tags=None, floor=1, keep=None):
    from .rules import tab
    r, n = tab.rule_T1(ctx, family, tags, keep=keep)
    if ctx.prog.raw.get('precision', 2) != 2:
        floor = max(1, floor // 5)      # lower default series orders in the other configurations
    r.floor('active monomials (%s)' % family, n, floor)
    r.assumptions.append('necessary condition only: mutually consistent tables need not be the right series')
    return r


NSP = 'GeographicLib::'


def _lic(ctx, classes, rule, title, only_fns=None, floor=1):
    from .rules import licrules
    r, n = licrules.rule_objstate(ctx, [NSP + c for c in classes], rule, title, only_fns)
    r.floor('functions analysed by the licence dataflow', n, floor)
    r.assumptions.append('A-LOOP-FILL: a counted loop that stores into an array is assumed to run and fill it')
    return r


def _m8(ctx):
    from .rules import sibling
    r, npairs, ncases = sibling.rule_M8(ctx, exhaustive=(ctx.tier == 'thorough'))
    r.floor('factory pairs', npairs, 5)
    r.floor('cases', ncases, 200)
    return r


ECONST_CLASSES = {
    'C01': (('Geodesic', 'GeodesicExact'), 2, 12), 'C02': (('Geodesic', 'GeodesicExact'), 2, 12),
    'C03': (('Geodesic', 'GeodesicExact'), 2, 12), 'C12': (('Geodesic', 'GeodesicExact'), 2, 12),
    'C06': (('TransverseMercator', 'TransverseMercatorExact'), 2, 9), 'C07': (('Geocentric',), 1, 4),
    'C09': (('Rhumb', 'AuxLatitude', 'DAuxLatitude'), 3, 10),
    'C11': (('PolarStereographic', 'LambertConformalConic', 'AlbersEqualArea'), 7, 30),
    'C15': (('AuxLatitude', 'Ellipsoid', 'DAuxLatitude'), 3, 12), 'C13': (None, 17, 80),
}


CLEN_PARTS = {'C01': ('sincos',), 'C02': ('sincos',), 'C03': ('sincos', 'dst'), 'C08': ('sincos',),
              'C09': ('aux', 'dst'), 'C15': ('aux',), 'C12': ('sincos',)}


def _clen(ctx, prop):
    from .rules import clenshaw
    if prop in ('C06', 'C04'):
        from .rules import tmseries, parity
        r, n = tmseries.rule_TMC(ctx)
        r.floor('paths of TransverseMercator::Forward/Reverse through the series', n, 30)
        s3, nf3, no3 = parity.rule_S3(ctx, [NSP + 'TransverseMercator', NSP + 'TransverseMercatorExact'])
        s3.floor('Forward/Reverse bodies', nf3, 4)
        s3.floor('outputs x reflections', no3, 32)
        from .rules import offsets
        l0, nl0 = offsets.rule_LON0(ctx, ('TransverseMercator', 'TransverseMercatorExact'))
        l0.floor('Forward/Reverse bodies with a central meridian', nl0, 4)
        return [r, s3, l0]
    if prop not in CLEN_PARTS:
        return []
    r, n = clenshaw.rule_CLEN(ctx, CLEN_PARTS[prop])
    r.floor('summation x length cases', n, 15)
    out = [r]
    if prop in ('C01', 'C03', 'C12'):
        from .rules import unitvec
        u, npth, nchk = unitvec.rule_UNIT(ctx)
        u.floor('paths of the two GenPosition bodies', npth, 100)
        u.floor('unit identities checked', nchk, 100)
        out.append(u)
    return out


def _mathk(ctx, prop):
    """Math.cpp is an anchor of these properties too: the kernels decided under C16."""
    if prop not in ('C01', 'C02', 'C06', 'C11'):
        return []
    from .rules import quadrant, conserve
    quad, ncase, nqp = quadrant.rule_QUAD(ctx)
    quad.floor('function x quadrant cases', ncase, 48)
    octr, noct = quadrant.rule_OCT(ctx)
    octr.floor('paths of atan2d', noct, 4)
    cons, nk, ncp = conserve.rule_CONS(ctx)
    cons.floor('kernels', nk, 8)
    return [quad, octr, cons]


def _symm(ctx, prop):
    from .rules import symmetry
    out = []
    if prop in ('C09', 'C11', 'C15'):
        from .rules import limits
        fl = {'C11': ('LambertConformalConic.hpp', 'AlbersEqualArea.cpp', 'AlbersEqualArea.hpp', 'LambertConformalConic.cpp'),
              'C09': ('DAuxLatitude.hpp', 'DAuxLatitude.cpp'), 'C15': ('DAuxLatitude.hpp', 'DAuxLatitude.cpp')}[prop]
        lim, nlim = limits.rule_LIM1(ctx, fl)
        lim.floor('removable singularities judged', nlim, 4 if prop == 'C11' else 1)  # 7 on the tree; rewriting a ternary as if/else removes a site
        out.append(lim)
    if prop == 'C11':
        from .rules import offsets
        l0, nl0 = offsets.rule_LON0(ctx, ('LambertConformalConic', 'AlbersEqualArea'))
        l0.floor('Forward/Reverse bodies with a central meridian', nl0, 4)
        out.append(l0)
    if prop in ('C09', 'C11', 'C15'):
        r, nh, npth = symmetry.rule_SYMM(ctx)
        r.floor('divided-difference helpers', nh, 15)
        r.floor('paths', npth, 40)
        out.append(r)
    if prop in ('C09', 'C15'):
        r, npairs = symmetry.rule_ALT(ctx)
        r.floor('pairs of alternative forms', npairs, 2)
        out.append(r)
    return out


def _econst(ctx, prop):
    from .rules import econst
    if prop not in ECONST_CLASSES:
        return []
    cl, nc, nm = ECONST_CLASSES[prop]
    r, a, b = econst.rule_ECONST(ctx, None if cl is None else {NSP + c for c in cl})
    r.floor('constructors taking (a, f)', a, nc)
    r.floor('conventionally named members', b, nm)
    return [r]


def _m8b(ctx):
    from .rules import sibling
    r, npairs, ncalls = sibling.rule_M8b(ctx)
    r.floor('sibling function pairs with normaliser calls', npairs, 8)
    r.floor('normaliser calls compared', ncalls, 30)
    return r


def _sib1(ctx):
    from .rules import sibling
    r, npairs, nnames = sibling.rule_SIB1(ctx)
    r.floor('sibling function pairs', npairs, 50)
    r.floor('assigned names compared', nnames, 120)
    return r


def _sib2(ctx, which='geodesic'):
    from .rules import sibling
    r, npairs, ndeps = sibling.rule_SIB2(ctx, which)
    r.floor('sibling pairs with common statements', npairs, 10 if which == 'geodesic' else 1)
    r.floor('dependent statement pairs', ndeps, 300 if which == 'geodesic' else 150)
    return r


def _c01(ctx):
    from .rules import mask
    m1, n1 = mask.rule_M1(ctx)
    return [_t1(ctx, 'geodesic', {'A1m1f', 'C1f', 'C1pf', 'A3coeff', 'C3coeff'}, 60),
            _lic(ctx, ['Geodesic', 'GeodesicLine', 'GeodesicLineExact'], 'L1',
                 'exact-delegation licence on the direct path: series state is never consumed when exact=true '
                 '(and the delegated solver never used when it was not built); line state only after Init()',
                 {'GenDirect', 'GenDirectLine', 'Line', 'DirectLine', 'ArcDirectLine', 'LineInit', 'GenPosition',
                  'A3f', 'C3f', 'C4f'}, 8),
            m1, _m8(ctx), _m8b(ctx), _sib1(ctx), _sib2(ctx)]


def _c02(ctx):
    from .rules import exc
    r6, n6 = exc.rule_X6(ctx, ['src/Geodesic.cpp', 'src/GeodesicExact.cpp'])
    r6.floor('loops in the inverse solvers', n6, 10)
    return [_lic(ctx, ['Geodesic', 'GeodesicExact'], 'L1',
                 'exact-delegation / conditional-initialisation licence on the inverse path (GenInverse, InverseLine, '
                 'Lengths, InverseStart, Lambda12): no conditionally initialised value reaches an output or a branch',
                 {'GenInverse', 'InverseLine', 'Lengths', 'InverseStart', 'Lambda12', 'A3f', 'C3f', 'C4f'}, 10),
            r6, _m8(ctx), _m8b(ctx), _sib1(ctx), _sib2(ctx)]


def _c03(ctx):
    from .rules import mask
    outs = {'m12', 'm12b', 'm12a', 'm0', 'M12', 'M21', 'S12'}
    m2, nf, ns = mask.rule_M2(ctx, only_outputs=outs)
    m2.floor('gated writes of m12/M12/M21/S12', ns, 40)
    m4, nc, na = mask.rule_M4_overloads(ctx, only_outputs=outs)
    m4.floor('forwarded m12/M12/M21/S12 outputs', na, 80)
    from .rules import licrules
    m7, nf7, nc7 = licrules.rule_M7(ctx)
    m7.floor('gated functions', nf7, 15)
    m7.floor('mask-gated placeholders', nc7, 3)
    return [_t1(ctx, 'geodesic', {'A2m1f', 'C2f', 'C4coeff'}, 60), m2, m4, m7,
            _lic(ctx, ['GeodesicLine', 'GeodesicLineExact'], 'M3',
                 'capability licence: m12/M12/M21/S12 are computed only from line state the capabilities initialised',
                 {'GenPosition'}, 2), _m8b(ctx), _sib1(ctx), _sib2(ctx)]


def _c06(ctx):
    return [_t1(ctx, 'tm', None, 40),
            _lic(ctx, ['TransverseMercator'], 'L1',
                 'exact-delegation licence in TransverseMercator: Krueger-series members are consumed only when '
                 '!exact and the exact object only when exact', None, 6),
            _h2(ctx, ('TransverseMercator', 'TransverseMercatorExact'), 4, 16)]


def _c12(ctx):
    from .rules import mask
    m1, n1 = mask.rule_M1(ctx)
    m1.floor('enum relations', n1, 140)
    m2, nf, ns = mask.rule_M2(ctx)
    m2.floor('gated functions', nf, 12)
    m2.floor('gated writes', ns, 100)
    m4, nc, na = mask.rule_M4_overloads(ctx)
    m4.floor('forwarding call sites', nc, 70)
    m4.floor('forwarded outputs', na, 250)
    lic = _lic(ctx, ['Geodesic', 'GeodesicLine', 'GeodesicExact', 'GeodesicLineExact', 'Rhumb', 'RhumbLine'], 'M3',
               'capability / delegation / Init() licence (M3, L1, L2): along every path of every method of the solver and '
               'line classes, no value that is initialised only under a capability bit, the exact flag or Init() reaches '
               'an output argument, a return value, a branch condition or an array index unless the path establishes it',
               None, 150)
    from .rules import licrules
    m4c, nf2, nc2 = licrules.rule_clients(ctx, [NSP + c for c in ('Geodesic', 'GeodesicExact', 'GeodesicLine',
                                                                  'GeodesicLineExact', 'Rhumb', 'RhumbLine')], 'M5')
    m4c.floor('solver-internal call sites of gated functions', nc2, 50)
    m2c, nfc, nob = licrules.rule_M2c(ctx)
    m2c.floor('gated functions', nfc, 12)
    m2c.floor('exit x output pairs', nob, 80)
    m6, n6 = licrules.rule_M6(ctx)
    m6.floor('members bound to conditional outputs', n6, 2)
    m7, nf7, nc7 = licrules.rule_M7(ctx)
    m7.floor('gated functions', nf7, 15)
    m7.floor('mask-gated placeholders', nc7, 3)
    m9, n9 = licrules.rule_M9(ctx)
    m9.floor('mask selections', n9, 6)
    return [m1, m2, m2c, m4, lic, m4c, m6, m7, _m8(ctx), _m8b(ctx), _sib1(ctx), _sib2(ctx), m9]


def _c09(ctx):
    used = {0, 1, 3, 4}     # phi, beta, mu, chi: the auxiliary latitudes the rhumb code converts between

    def keep(m):
        return m[0] in ('rm', 'c2') or (m[0] == 'aux' and m[1] in used and m[2] in used)
    from .rules import tab
    from .rules import licrules
    m9, n9 = licrules.rule_M9(ctx, [NSP + 'Rhumb', NSP + 'RhumbLine'])
    m9.floor('mask selections in the rhumb classes', n9, 1)
    return [_t1(ctx, 'rhumb', None, 18), _t1(ctx, 'aux', None, 150, keep=keep), tab.rule_F1(ctx), m9]


def _c15(ctx):
    from .rules import tab
    return [_t1(ctx, 'aux', None, 450), tab.rule_T2(ctx), tab.rule_F1(ctx)]


def _c08(ctx):
    from .rules import poly, eff
    p1 = eff.rule_E1(ctx, scope=[NSP + 'PolygonAreaT', NSP + 'Accumulator'], floor=15, own_only=True)
    p1.rule = 'P1'
    p1.title = 'tentative queries cannot change the polygon: no const method of PolygonAreaT / Accumulator can write ' \
               'object state (no mutable member, pointee or static reachable)'
    for f in p1.findings:
        f.rule = 'P1'
    from .rules import licrules
    m7, nf7, nc7 = licrules.rule_M7(ctx)
    m7.floor('mask-gated placeholders in the solvers the polygon calls', nc7, 3)
    from .rules import areareduce, conserve
    area, ncase, npth = areareduce.rule_AREA(ctx)
    area.floor('crossings x reverse x sign cases', ncase, 20)
    area.floor('paths', npth, 60)
    cons, nk, ncp = conserve.rule_CONS(ctx)
    cons.floor('kernels (Math::sum, Accumulator)', nk, 8)
    m9, n9 = licrules.rule_M9(ctx)
    m9.floor('mask selections in the solvers the polygon calls', n9, 6)
    return [p1, poly.rule_P2(ctx), poly.rule_P3(ctx), poly.rule_P4(ctx), poly.rule_P5(ctx), m7, area, cons, _m8b(ctx), _sib1(ctx), _sib2(ctx), m9]


def _c17(ctx):
    from .rules import licrules
    r, nf, nc = licrules.rule_clients(ctx, [NSP + c for c in ('AzimuthalEquidistant', 'Gnomonic', 'CassiniSoldner',
                                                              'Intersect')], 'M4c')
    r.floor('client functions with solver calls', nf, 7)
    r.floor('solver / line call sites', nc, 11)
    # NearestNeighbor (header-only; instantiated by fixtures/nn_inst.cpp): error clauses of Load/Search
    from .rules import exc
    nn = _exc_rules(ctx, 'C17', with_lookup=False)
    r6, n6 = exc.rule_X6(ctx, SCOPES['C17'])
    r6.floor('loops in NearestNeighbor', n6, 12)
    x3m = exc.rule_X3m(ctx, {NSP + 'NearestNeighbor::Initialize', NSP + 'NearestNeighbor::Load'})
    return [r] + nn + [r6, x3m]


C11_CLASSES = [NSP + c for c in ('PolarStereographic', 'LambertConformalConic', 'AlbersEqualArea')]


def _c11(ctx):
    from .rules import parity, derived, exc
    s2, nf, no = parity.rule_S2(ctx, C11_CLASSES)
    s2.floor('Forward/Reverse bodies', nf, 6)
    s2.floor('outputs', no, 24)
    d1, ns, nd = derived.rule_D1(ctx, C11_CLASSES)
    d1.floor('setters', ns, 3)
    d1.floor('member dependences read from the constructors', nd, 60)
    x5, n5 = exc.rule_X5(ctx, set(C11_CLASSES))
    x5.floor('validating constructors and setters', n5, 9)
    from .rules import homog
    h1, nset, nmem = homog.rule_H1(ctx, C11_CLASSES)
    h1.floor('SetScale functions', nset, 3)
    h1.floor('scale-carrying members', nmem, 6)
    return [s2, d1, h1, _h2(ctx, ('PolarStereographic', 'LambertConformalConic'), 4, 16), x5] + \
        _exc_rules(ctx, 'C11', with_lookup=False)


def _c07(ctx):
    from .rules import rotation
    rot, nob = rotation.rule_ROT(ctx)
    rot.floor('obligations of the rotation / rigid-motion clause', nob, 36)
    return [rot] + _exc_rules(ctx, 'C07', with_lookup=False)


def _c16(ctx):
    from .rules import conserve
    cons, nk, npaths = conserve.rule_CONS(ctx)
    cons.floor('kernels', nk, 8)
    cons.floor('paths', npaths, 20)
    from .rules import quadrant
    quad, ncase, nqp = quadrant.rule_QUAD(ctx)
    quad.floor('function x quadrant cases', ncase, 48)
    quad.floor('paths', nqp, 300)
    octr, noct = quadrant.rule_OCT(ctx)
    octr.floor('paths of atan2d', noct, 4)
    return [cons, quad, octr]


C19_CLASSES = {NSP + c for c in ('SphericalEngine', 'CircularEngine', 'SphericalHarmonic', 'SphericalHarmonic1',
                                  'SphericalHarmonic2', 'MagneticModel', 'MagneticCircle', 'GravityModel', 'GravityCircle',
                                  'NormalGravity')}


def _c19(ctx):
    from .rules import dispatch, indep, exc
    dsp, ncase, ncalls = dispatch.rule_DSP(ctx, SCOPES['C19'])
    dsp.floor('enumerator template arguments inside case regions', ncase, 20)
    dsp.floor('SphericalEngine::Value/Circle instantiations', ncalls, 20)
    i1, nflags, nreg = indep.rule_I1(ctx, C19_CLASSES)
    i1.floor('request flags', nflags, 2)
    i1.floor('guarded regions', nreg, 2)
    r6, n6 = exc.rule_X6(ctx, SCOPES['C19'])
    r6.floor('loops', n6, 40)
    from .rules import caps
    cap, ncap = caps.rule_CAP1(ctx)
    cap.floor('engine evaluations and guarded scalars in GravityCircle', ncap, 4)
    from .rules import sibling
    s1h, np1, nn1 = sibling.rule_SIB1(ctx, 'harmonic')
    s1h.floor('assigned names compared between SphericalEngine::Value and Circle', nn1, 20)
    x7 = _x7(ctx, (), 0, 0, 2, conv_files=('src/MagneticModel.cpp', 'src/GravityModel.cpp', 'src/MagneticCircle.cpp',
                                           'src/GravityCircle.cpp', 'src/NormalGravity.cpp'))
    return [dsp, i1, cap, s1h, _sib2(ctx, 'harmonic')] + _exc_rules(ctx, 'C19', with_lookup=False) + [r6, _x2v(ctx), x7]


def _c20(ctx):
    from .rules import cache, eff, exc
    k = cache.rule_K(ctx)
    k4 = eff.rule_E1(ctx, scope=[NSP + 'Geoid'], floor=20)
    k4.rule = 'K4'
    k4.title = 'thread-safe guard: every write to mutable Geoid state from a const method is on paths with !_threadsafe ' \
               '(and _threadsafe is set only after CacheAll() and _file.close())'
    for f in k4.findings:
        f.rule = 'K4'
    x1, nthrow, ncatch = exc.rule_X1(ctx, SCOPES['C20'])
    x1.floor('throw sites', nthrow, FLOORS['C20']['throws'])
    from .rules import geoidbounds
    k7, nob, nund = geoidbounds.rule_K7(ctx)
    k7.floor('obligation sites', nob, 12)
    x7 = _x7(ctx, (), 0, 0, 5, conv_files=('src/Geoid.cpp', 'include/GeographicLib/Geoid.hpp'))
    return [k, k4, cache.rule_K5(ctx), cache.rule_K6(ctx), cache.rule_T5(ctx), x1, k7, x7]


CHECKS = {
    'C01': _c01,
    'C03': _c03,
    'C02': _c02,
    'C06': _c06,
    'C08': _c08,
    'C12': _c12,
    'C09': _c09,
    'C15': _c15,
    'C17': _c17,
    'C04': _c04,
    'C05': _c05,
    'C10': _c10,
    'C13': _c13,
    'C14': _c14,
    'C18': _c18,
    'C20': _c20,
    'C11': _c11,
    'C19': _c19,
    'C07': _c07,
    'C16': _c16,
}


_extra = {}
ALIAS = {'K4': 'E1', 'P1': 'E1'}


def run(prop, tier):
    from . import controls
    ctx = Ctx(tier=tier)
    from .core import RuleResult
    from .build import AnalysisBroken

    def guarded(name, fn):
        # a group of rules that cannot decide must not hide what the other groups report
        try:
            return fn()
        except AnalysisBroken as e:
            r = RuleResult(name, 'rule group %s could not decide' % name)
            r.broken.append(str(e))
            return [r]
    results = guarded('main', lambda: CHECKS[prop](ctx))
    results += guarded('ECONST', lambda: _econst(ctx, prop))
    results += guarded('SYMM', lambda: _symm(ctx, prop))
    results += guarded('CLEN', lambda: _clen(ctx, prop))
    results += guarded('MATH', lambda: _mathk(ctx, prop))
    results += guarded('LINT', lambda: _lint(ctx, prop))
    rules = sorted({ALIAS.get(r.rule, r.rule) for r in results})
    _extra[prop] = {'positive_controls': controls.run_controls(rules)}
    if tier == 'thorough':
        results += thorough_extra(prop, ctx)
    return results


def _lint(ctx, prop):
    """generic contradiction rules over the anchor files of the property."""
    from .rules import lint
    files = lint.anchor_files(prop)
    out = []
    if files is None or files:
        sw, nsw = lint.rule_SW1(ctx, files)
        sw.floor('calls with named arguments in the anchor files', nsw, 1)
        ov, nov = lint.rule_OV1(ctx, files)
        n1, nn1 = lint.rule_N1(ctx, files)
        d3, nd3 = lint.rule_D3(ctx, files)
        cp, ncp = lint.rule_CP1(ctx, files)
        nb, nnb = lint.rule_NB1(ctx, files)
        zq, nzq = lint.rule_ZQ1(ctx, files)
        from .rules import angles
        ang, nangf, nangc = angles.rule_ANG1(ctx, files)
        prt, nprt = lint.rule_PRT1(ctx, files)
        tw, ntw = lint.rule_TW1(ctx, files)
        one, none_ = lint.rule_ONE1(ctx, files)
        aux1, naux1 = angles.rule_AUX1(ctx, files)
        cp2, ncp2 = lint.rule_CP2(ctx, files)
        swp, nswp = lint.rule_SWP1(ctx, files)
        sc1, nsc1 = lint.rule_SC1(ctx, files)
        pos1, npos1 = lint.rule_POS1(ctx, files)
        dz1, ndz1 = lint.rule_DZ1(ctx, files)
        dead1, ndead1 = lint.rule_DEAD1(ctx, files)
        ds1, nds1 = lint.rule_DS1(ctx, files)
        out += [sw, ov, n1, d3, cp, cp2, nb, zq, prt, tw, ang, one, aux1, swp, sc1, pos1, dz1, dead1, ds1]
    return out


def thorough_extra(prop, ctx):
    """the same rules under the other floating-point configurations of the library (different real,
    different default series orders, different template instantiations)."""
    out = []
    for prec in (1, 3):
        c2 = Ctx(tier='thorough', precision=prec)
        rs = CHECKS[prop](c2) + _lint(c2, prop)
        for r in rs:
            r.rule = '%s@p%d' % (r.rule, prec)
            r.title = '[GEOGRAPHICLIB_PRECISION=%d] %s' % (prec, r.title)
            for f in r.findings:
                f.rule = r.rule
        out += rs
    return out


def extra_coverage(prop):
    return _extra.get(prop, {})
