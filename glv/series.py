"""Laurent series in one small symbol, on top of sympoly expressions.

series_of(poly, pure_args, eps) expands an expression produced by SymEval - a polynomial over symbols, some of which
are function symbols recorded in pure_args (name, argument polynomials) - in powers of the symbol `eps`, up to
ORDER terms: eps**val * (c0 + c1 eps + c2 eps**2), the c's polynomials free of eps.  Functions are expanded only
where that is elementary: arguments that vanish with eps (sin, tan, sinh, tanh, atan, asin, asinh, atanh, expm1,
log1p -> s; cos, cosh -> 1 +- s^2/2; exp -> 1 + s + s^2/2; sq; atan2(s, c) with c not vanishing -> s/c), arguments
free of eps (the function value is a constant), inv (geometric series), sqrt/hypot of arguments free of eps.  Anything
else raises NotExpandable: the caller then does not judge the site.
"""
from fractions import Fraction

from .sympoly import Poly

ORDER = 3


class NotExpandable(Exception):
    pass


class Ser:
    """eps**val * (c[0] + c[1] eps + ...), c[0] != 0 unless the series is zero."""

    def __init__(self, val, c):
        c = list(c)[:ORDER]
        while c and c[0].is_zero():
            c.pop(0)
            val += 1
        self.val = val if c else 0
        self.c = c + [Poly()] * (ORDER - len(c)) if c else []

    @staticmethod
    def const(p):
        return Ser(0, [p])

    def is_zero(self):
        return not self.c

    def coeff(self, k):
        """coefficient of eps**k"""
        j = k - self.val
        return self.c[j] if self.c and 0 <= j < len(self.c) else Poly()

    def __add__(self, o):
        if self.is_zero():
            return o
        if o.is_zero():
            return self
        v = min(self.val, o.val)
        return Ser(v, [self.coeff(v + k) + o.coeff(v + k) for k in range(ORDER)])

    def __neg__(self):
        return Ser(self.val, [-x for x in self.c])

    def __sub__(self, o):
        return self + (-o)

    def __mul__(self, o):
        if self.is_zero() or o.is_zero():
            return Ser(0, [])
        out = []
        for k in range(ORDER):
            t = Poly()
            for i in range(k + 1):
                t = t + self.c[i] * o.c[k - i]
            out.append(t)
        return Ser(self.val + o.val, out)

    def scale(self, q):
        return Ser(self.val, [x.scale(q) for x in self.c])

    def inverse(self, mkinv):
        if self.is_zero():
            raise NotExpandable('division by zero series')
        b0 = self.c[0]
        i0 = Poly.const(1 / b0.const_value()) if b0.is_const() else mkinv(b0)
        # 1/(b0 (1 + u)) = i0 (1 - u + u^2), u = (b1 eps + b2 eps^2) / b0
        u = Ser(1, [self.c[1] * i0, self.c[2] * i0]) if ORDER >= 3 else Ser(1, [self.c[1] * i0])
        one = Ser.const(Poly.const(1))
        g = one - u + u * u
        return Ser(-self.val, [x * i0 for x in g.c]) if not g.is_zero() else Ser(0, [])


def series_of(p, pure_args, eps, cache=None, new_args=None):
    """Laurent series of polynomial p (whose function symbols are described in pure_args) in the symbol eps."""
    cache = {} if cache is None else cache
    new_args = {} if new_args is None else new_args

    def mksym(name, args):
        key = '%s(%s)' % (name, ', '.join(a.show() for a in args))
        new_args[key] = (name, list(args))
        return Poly.sym(key)

    def mkinv(b):
        return mksym('inv', [b])

    def free(s):
        return all(c.is_zero() for c in s.c[1:]) and s.val == 0 if not s.is_zero() else True

    def sym_series(s):
        if s in cache:
            return cache[s]
        if s == eps:
            r = Ser(1, [Poly.const(1)])
        elif s in pure_args:
            nm, args = pure_args[s]
            sa = [series_of(a, pure_args, eps, cache, new_args) for a in args if isinstance(a, Poly)]
            if len(sa) != len(args):
                raise NotExpandable('non-polynomial argument of %s' % nm)
            if all(free(x) for x in sa):
                # the arguments do not depend on eps: a constant (re-created with the eps-free arguments)
                r = Ser.const(mksym(nm, [x.coeff(0) for x in sa]))
            elif nm == 'inv':
                r = sa[0].inverse(mkinv)
            elif nm == 'sq':
                r = sa[0] * sa[0]
            elif nm in ('sin', 'tan', 'sinh', 'tanh', 'atan', 'asin', 'asinh', 'atanh', 'expm1', 'log1p', 'cos', 'cosh', 'exp') \
                    and (sa[0].is_zero() or sa[0].val >= 1):
                x = sa[0]
                one = Ser.const(Poly.const(1))
                half = x * x
                if nm in ('cos', 'cosh'):
                    r = one + half.scale(Fraction(-1 if nm == 'cos' else 1, 2))
                elif nm == 'exp':
                    r = one + x + half.scale(Fraction(1, 2))
                elif nm == 'expm1':
                    r = x + half.scale(Fraction(1, 2))
                elif nm == 'log1p':
                    r = x - half.scale(Fraction(1, 2))
                else:
                    r = x                      # odd functions: x + O(x^3)
            elif nm in ('atan2', 'atan2d') and len(sa) == 2 and (sa[0].is_zero() or sa[0].val >= 1) and \
                    not sa[1].is_zero() and sa[1].val == 0:
                r = sa[0] * sa[1].inverse(mkinv)          # atan(y/x), x > 0 assumed where the idiom is used
                if nm == 'atan2d':
                    raise NotExpandable('atan2d')
            else:
                raise NotExpandable('%s of an argument that depends on %s' % (nm, eps))
        else:
            r = Ser.const(Poly.sym(s))
        cache[s] = r
        return r
    total = Ser(0, [])
    for mono, coef in p.t.items():
        term = Ser.const(Poly.const(coef))
        for s, e in mono:
            ss = sym_series(s)
            for _ in range(e):
                term = term * ss
        total = total + term
    return total
